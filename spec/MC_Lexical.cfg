SPECIFICATION Spec
CONSTANTS
  DatePolicy = "repaired"
  Kind = "integer"
  Mode = "lex"
INVARIANT InvPadding
INVARIANT InvWinner
CHECK_DEADLOCK FALSE
