---------------------------- MODULE Trace_Writer ----------------------------
(***************************************************************************)
(* Trace validation for the writer.  Each line of the ndjson file named by  *)
(* the environment variable TRACE_FILE is one recorded execution of a real  *)
(* XmlWriter:                                                               *)
(*   [id, raw (user ns_map as pairs), indent, steps |-> Seq([ev, calls])]   *)
(* where `ev` is the receiver call (abstracted as in Writer) and `calls`    *)
(* are the SAX calls the real writer made to its content handler during     *)
(* that receiver call.  A step is accepted iff the specification, taking    *)
(* the same receiver call, makes exactly the same SAX calls.  All           *)
(* invariants of Writer are evaluated in every state of every trace.        *)
(* Verdicts are total: one line per rejected trace / violated invariant,    *)
(* naming the trace and the step.                                           *)
(***************************************************************************)
EXTENDS Writer, Json, IOUtils, TLCExt

Traces == ndJsonDeserialize(IOEnv.TRACE_FILE)

VARIABLES tid, i, w
tvars == <<tid, i, w>>

ProjectCall(c) ==
  CASE c.op = "startElementNS" ->
         [op |-> c.op, name |-> c.name,
          attrs |-> FoldLeft(LAMBDA acc, a : Append(acc, [name |-> a.name, value |-> a.value]), <<>>, c.attrs)]
    [] c.op = "characters" -> [op |-> c.op, data |-> c.data]
    [] OTHER -> c

NewCalls(w0, w1) ==
  [k \in 1..(Len(w1.out) - Len(w0.out)) |-> ProjectCall(w1.out[Len(w0.out) + k])]

TInit ==
  /\ tid \in 1..Len(Traces)
  /\ i = 0
  /\ w = WInit(Traces[tid].raw, Traces[tid].indent)

TNext ==
  /\ i < Len(Traces[tid].steps)
  /\ w.err = NONE
  /\ LET s  == Traces[tid].steps[i + 1]
         w1 == WStep(w, s.ev)
     IN /\ NewCalls(w, w1) = s.calls
        /\ w' = w1
  /\ i' = i + 1
  /\ tid' = tid

TSpec == TInit /\ [][TNext]_tvars

\* progress register per trace + total verdicts
Progress ==
  /\ TLCSet(tid, IF i > TLCGet(tid) THEN i ELSE TLCGet(tid))
  /\ (w.g.bad # {} /\ ~Traces[tid].lxml) =>
         PrintT(<<"BAD", ToJson([id |-> Traces[tid].id, step |-> i, bad |-> w.g.bad, backend |-> "native"])>>)
  /\ (w.l.bad # {} /\ Traces[tid].lxml) =>
         PrintT(<<"BAD", ToJson([id |-> Traces[tid].id, step |-> i, bad |-> w.l.bad, backend |-> "lxml"])>>)
  /\ ~Slots(w) => PrintT(<<"BAD", ToJson([id |-> Traces[tid].id, step |-> i, bad |-> {"slots"}, backend |-> "writer"])>>)

InitRegs == \A t \in 1..Len(Traces) : TLCSet(t, 0)
TInitR == InitRegs /\ TInit
TSpecR == TInitR /\ [][TNext]_tvars

Accepted ==
  \A t \in 1..Len(Traces) :
     IF TLCGet(t) = Len(Traces[t].steps) THEN TRUE
     ELSE PrintT(<<"REJECT", ToJson([id |-> Traces[t].id, matched |-> TLCGet(t),
                                      of |-> Len(Traces[t].steps)])>>)
=============================================================================
