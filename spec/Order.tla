-------------------------------- MODULE Order --------------------------------
(***************************************************************************)
(* The parts of the code generator whose input is a Python set (or a list   *)
(* built from one), so that the order in which they see their items depends *)
(* on the interpreter's hash seed:                                          *)
(*   utils/graphs.py strongly_connected_components  (for vertex in          *)
(*     set(edges); neighbours from list(set(deps)))                         *)
(*   codegen/resolver.py create_class_list, handlers/designate_class_       *)
(*     packages.py sort_classes: toposort_flatten(..., sort=True)           *)
(* Iteration over a set is modelled as an ARBITRARY order (a permutation    *)
(* chosen by the environment).  The property (C12 at this level) is         *)
(* confluence: the result is the same for every choice of orders, and it is *)
(* the declarative result (mutual reachability; a topological order with    *)
(* ties broken by name).                                                    *)
(***************************************************************************)
EXTENDS Naturals, Sequences, SequencesExt, FiniteSets, TLC

\* a graph is a function node -> set of nodes (dependencies)
\* --- the path-based SCC algorithm of utils/graphs.py, transcribed ----------
\* state: [index: Seq(<<node, pos>>), stack: Seq(node), bounds: Seq(Nat), identified: set, out: Seq(set)]
IdxHas(st, v) == \E i \in DOMAIN st.index : st.index[i][1] = v
IdxOf(st, v)  == st.index[CHOOSE i \in DOMAIN st.index : st.index[i][1] = v][2]
Last1(s) == s[Len(s)]
Pop1(s) == SubSeq(s, 1, Len(s) - 1)

RECURSIVE PopWhile(_, _)
PopWhile(bounds, k) == IF bounds # <<>> /\ k < Last1(bounds) THEN PopWhile(Pop1(bounds), k) ELSE bounds

\* nbrOrder(v): the order in which the neighbours of v are visited
RECURSIVE Dfs(_, _, _, _)
Dfs(st, v, edges, order) ==
  LET st1 == [st EXCEPT !.index = Append(st.index, <<v, Len(st.stack)>>), !.stack = Append(st.stack, v),
                        !.bounds = Append(st.bounds, Len(st.stack))]
      nbrs == SelectSeq(order, LAMBDA w : w \in edges[v])
      st2 == FoldLeft(LAMBDA s, w :
                 IF ~IdxHas(s, w) THEN Dfs(s, w, edges, order)
                 ELSE IF w \notin s.identified THEN [s EXCEPT !.bounds = PopWhile(s.bounds, IdxOf(s, w))]
                 ELSE s, st1, nbrs)
      iv == IdxOf(st2, v)
  IN IF st2.bounds # <<>> /\ Last1(st2.bounds) = iv
     THEN LET scc == {st2.stack[k] : k \in (iv + 1)..Len(st2.stack)}
          IN [st2 EXCEPT !.bounds = Pop1(st2.bounds), !.stack = SubSeq(st2.stack, 1, iv),
                         !.identified = st2.identified \cup scc, !.out = Append(st2.out, scc)]
     ELSE st2

\* strongly_connected_components(edges) with vertices visited in `vorder`, neighbours in `norder`
SccRun(edges, vorder, norder) ==
  FoldLeft(LAMBDA s, v : IF IdxHas(s, v) THEN s ELSE Dfs(s, v, edges, norder),
           [index |-> <<>>, stack |-> <<>>, bounds |-> <<>>, identified |-> {}, out |-> <<>>], vorder).out
SccSet(edges, vorder, norder) == {SccRun(edges, vorder, norder)[i] : i \in DOMAIN SccRun(edges, vorder, norder)}

\* --- the declarative result ------------------------------------------------
RECURSIVE ReachFrom(_, _, _)
ReachFrom(edges, frontier, seen) ==
  LET nxt == (UNION {edges[v] : v \in frontier}) \ seen
  IN IF nxt = {} THEN seen ELSE ReachFrom(edges, nxt, seen \cup nxt)
Reach(edges, v) == ReachFrom(edges, {v}, {v})
TrueSccs(edges) == {{w \in DOMAIN edges : w \in Reach(edges, v) /\ v \in Reach(edges, w)} : v \in DOMAIN edges}

\* toposort_flatten(deps, sort=True): repeatedly emit, sorted by name, the nodes all of whose
\* dependencies were emitted already (dependencies on unknown nodes and on itself are ignored)
RECURSIVE Topo(_, _, _)
Topo(edges, done, acc) ==
  LET ready == {v \in DOMAIN edges : v \notin done /\ (edges[v] \cap DOMAIN edges) \ {v} \subseteq done}
  IN IF ready = {} THEN [list |-> acc, cyclic |-> done # DOMAIN edges]
     ELSE Topo(edges, done \cup ready, acc \o SetToSortSeq(ready, <))
TopoFlatten(edges) == Topo(edges, {}, <<>>)
=============================================================================
