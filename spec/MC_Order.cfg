SPECIFICATION Spec
CONSTANTS
  Nodes = {1, 2, 3}
INVARIANT InvConfluentScc
CHECK_DEADLOCK FALSE
