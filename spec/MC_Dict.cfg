SPECIFICATION DSpec
CONSTANTS
  MaxFields = 1
  Faults = {"none"}
  RootNss = {"__none__", "urn:a"}
  KidNss = {"__none__"}
  CatIds = {1,2,3,4,5,6,7,8,9,10,11,12,13,14,15,16,17,18,19,20,21,22,23,24,25,26,27}
  Cfgs <- StrictOnly
  MissingReqPolicy = "ParserError"
INVARIANT InvJsonNative
INVARIANT InvDecodable
CHECK_DEADLOCK FALSE
