SPECIFICATION Spec
CONSTANTS
  DatePolicy = "shipped"
  Kind = "date"
  Mode = "lex"
INVARIANT AcceptsValid
INVARIANT RejectsUnreal
INVARIANT FormatRoundTrip
INVARIANT OracleOrder
CHECK_DEADLOCK FALSE
