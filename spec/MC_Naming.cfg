SPECIFICATION Spec
CONSTANTS
  MaxLen = 3
  Alphabet = {"a", "s", "c", "l", "i", "n", "t", "A", "S", "C", "1", "_", "-", ".", " ", "é"}
  Convs = {"pascal", "snake", "screaming", "camel", "mixed", "mixedSnake", "original"}
INVARIANT InvTerminates
INVARIANT InvIdentifier
CHECK_DEADLOCK FALSE
