---------------------------- MODULE MC_DateTime ----------------------------
(***************************************************************************)
(* Exploring specification for C06.  A literal (or a value, or a pair of    *)
(* values) is assembled slot by slot from the grids of module DTGrid, which *)
(* the harness generates from Python lists (so the grid is widened without  *)
(* touching this file).  Every complete assembly is one case; the          *)
(* invariants relate the transcription of the code (Code..) to the XSD       *)
(* reference (Xsd.., calendar, timeline).                                    *)
(***************************************************************************)
EXTENDS DateTime, Json, DTGrid

CONSTANTS Kind,   \* "date" | "time" | "dateTime" | "period" | "duration"
          Mode    \* "lex" (literals) | "fmt" (values to format) | "cmp" (pairs to order) |
                  \* "out" (literals PRODUCED by the real code, validated against the grammar)

VARIABLE parts
Slots == IF Mode = "lex" THEN LexSlots(Kind) ELSE IF Mode = "fmt" THEN FmtSlots(Kind)
         ELSE IF Mode = "out" THEN OutSlots(Kind) ELSE CmpSlots(Kind)

Init == parts = <<>>
Next == /\ Len(parts) < Len(Slots)
        /\ \E c \in Slots[Len(parts) + 1] : parts' = Append(parts, c)
Spec == Init /\ [][Next]_parts
Complete == Len(parts) = Len(Slots)

Lit == FoldLeft(LAMBDA acc, p : acc \o p, <<>>, parts)

Code(k, s) == CASE k = "date" -> CodeDate(s) [] k = "time" -> CodeTime(s) [] k = "dateTime" -> CodeDateTime(s)
                [] k = "period" -> CodePeriod(s)
Xsd(k, s)  == CASE k = "date" -> XDate(s) [] k = "time" -> XTime(s) [] k = "dateTime" -> XDateTime(s)
                [] k = "period" -> XPeriod(s) [] k = "duration" -> XDuration(s)

\* (a) every XSD-valid literal is accepted with the components XSD assigns
AcceptsValid ==
  (Complete /\ Mode = "lex" /\ Kind # "duration") =>
     LET x == Xsd(Kind, Lit) IN x.ok => Code(Kind, Lit) = x

\* (c) whatever is accepted denotes a real date / time of day
DenotesReal(k, r) ==
  CASE k = "date"     -> RealDate(r.y, r.mo, r.d)
    [] k = "time"     -> RealTime(r.h, r.mi, r.s, r.f)
    [] k = "dateTime" -> RealDate(r.y, r.mo, r.d) /\ RealTime(r.h, r.mi, r.s, r.f)
    [] k = "period"   -> /\ (r.mo # Absent => r.mo \in 1..12)
                         /\ (r.d # Absent => r.d >= 1 /\ r.d <= (IF r.mo = Absent THEN 31 ELSE MDays(2000, r.mo)))
RejectsUnreal ==
  (Complete /\ Mode = "lex" /\ Kind # "duration") =>
     LET c == Code(Kind, Lit) IN c.ok => DenotesReal(Kind, c)

\* (b) formatting a valid value gives an XSD-valid literal that parses back to it
ValueOf ==
  CASE Kind = "date"     -> [ok |-> TRUE, y |-> parts[1], mo |-> parts[2], d |-> parts[3], off |-> parts[4]]
    [] Kind = "time"     -> [ok |-> TRUE, h |-> parts[1], mi |-> parts[2], s |-> parts[3], f |-> parts[4], off |-> parts[5]]
    [] Kind = "dateTime" -> [ok |-> TRUE, y |-> parts[1], mo |-> parts[2], d |-> parts[3], h |-> parts[4],
                             mi |-> parts[5], s |-> parts[6], f |-> parts[7], off |-> parts[8]]
StrOf(v) == CASE Kind = "date" -> CodeStrDate(v) [] Kind = "time" -> CodeStrTime(v) [] Kind = "dateTime" -> CodeStrDateTime(v)
ValidValue(v) == DenotesReal(Kind, v) /\ (v.off = NoOffset \/ (v.off >= 0 - 840 /\ v.off <= 840))
FormatRoundTrip ==
  (Complete /\ Mode = "fmt" /\ ValidValue(ValueOf)) =>
     /\ Xsd(Kind, StrOf(ValueOf)) = ValueOf
     /\ Code(Kind, StrOf(ValueOf)) = ValueOf

\* (e) the timeline is a strict total order on the grid (sanity of the oracle itself)
Line(v) == IF Kind = "dateTime" THEN Timeline(v) ELSE TimeOfDayLine(v)
OracleOrder ==
  (Complete /\ Mode = "cmp") =>
     LET a == Line(parts[1])  b == Line(parts[2])
     IN (LexLt(a, b) \/ LexLt(b, a) \/ a = b) /\ ~(LexLt(a, b) /\ LexLt(b, a))

EmitCase ==
  Complete =>
    IF Mode = "lex"
    THEN PrintT(<<"LEX", ToJson([kind |-> Kind, lit |-> Lit, xsd |-> Xsd(Kind, Lit),
                                  code |-> IF Kind = "duration" THEN [ok |-> FALSE] ELSE Code(Kind, Lit)])>>)
    ELSE IF Mode = "out"
    THEN PrintT(<<"OUT", ToJson([kind |-> Kind, lit |-> Lit, xsd |-> Xsd(Kind, Lit)])>>)
    ELSE IF Mode = "fmt"
    THEN (ValidValue(ValueOf) =>
            PrintT(<<"FMT", ToJson([kind |-> Kind, v |-> ValueOf, str |-> StrOf(ValueOf),
                                    line |-> IF Kind = "dateTime" THEN Timeline(ValueOf) ELSE <<0, 0, 0>>])>>))
    ELSE PrintT(<<"CMP", ToJson([kind |-> Kind, a |-> parts[1], b |-> parts[2],
                                  lt |-> LexLt(Line(parts[1]), Line(parts[2])),
                                  eq |-> Line(parts[1]) = Line(parts[2])])>>)
=============================================================================
