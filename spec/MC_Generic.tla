----------------------------- MODULE MC_Generic -----------------------------
(* All generic trees of depth <= 2 with <= MaxKids children over small alphabets. *)
EXTENDS Generic, Json
CONSTANTS MaxKids, LeafTexts, KnownF18
VARIABLE x

Names == {<<"", "a">>, <<"urn:a", "b">>, <<"urn:b", "a">>}
AttrSets == { <<>>, << <<<<"", "k">>, [s |-> "v"]>> >>,
              << <<<<"urn:b", "k">>, [p |-> "p", l |-> "q", u |-> "urn:a"]>> >>,
              << <<<<"", "j">>, [p |-> "zz", l |-> "q", u |-> NONE]>>, <<<<"", "k">>, [s |-> "a b"]>> >> }
Texts == {"", "t", " "}
Tails == {"", "u", " "}
Leaves == {[name |-> n, attrs |-> a, text |-> t, kids |-> <<>>, tail |-> tl] :
             n \in {<<"", "a">>, <<"urn:a", "b">>}, a \in {<<>>, << <<<<"", "k">>, [s |-> "v"]>> >>}, t \in LeafTexts, tl \in Tails}
KidSeqs == UNION {[1..k -> Leaves] : k \in 0..MaxKids}
Trees == {[name |-> n, attrs |-> a, text |-> t, kids |-> ks, tail |-> ""] :
            n \in Names, a \in AttrSets, t \in Texts, ks \in KidSeqs}

Init == x \in Trees
Next == UNCHANGED x
Spec == Init /\ [][Next]_x

\* C11 on the specification
InvFaithful == (KnownF18 /\ HasQNameLikeAttr(x)) \/ Faithful(x)

Emit == PrintT(<<"TREE", ToJson([src |-> x, parsed |-> WildParse(x), ref |-> Reference(x), f18 |-> HasQNameLikeAttr(x)])>>)
=============================================================================
