----------------------------- MODULE MC_Generic -----------------------------
(* All generic trees of depth <= 2 with <= MaxKids children over small alphabets. *)
EXTENDS Generic, Json
CONSTANTS MaxKids, LeafTexts, KnownF18
VARIABLE x

Names == {<<"", "a">>, <<"urn:a", "b">>, <<"urn:b", "a">>}
AttrSets == { <<>>, << <<<<"", "k">>, [s |-> "v"]>> >>,
              << <<<<"urn:b", "k">>, [p |-> "p", l |-> "q", u |-> "urn:a"]>> >>,
              << <<<<"", "j">>, [p |-> "zz", l |-> "q", u |-> NONE]>>, <<<<"", "k">>, [s |-> "a b"]>> >>,
              \* xsi:type naming a type that is neither built in nor a binding class
              << <<XsiType, [p |-> "t", l |-> "custom", u |-> "urn:types"]>> >> }
Texts == {"", "t", " "}
Tails == {"", "u", " "}
Leaves == {[name |-> n, attrs |-> a, text |-> t, kids |-> <<>>, tail |-> tl] :
             n \in {<<"", "a">>, <<"urn:a", "b">>}, a \in {<<>>, << <<<<"", "k">>, [s |-> "v"]>> >>}, t \in LeafTexts, tl \in Tails}
\* leaves whose attribute value looks like a QName: the prefix p is bound on the leaf ITSELF - to the
\* uri the parent may also bind it to, or to another one (redeclaration inside the fragment)
QLeaves == {[name |-> n, attrs |-> << <<<<"", "r">>, [p |-> "p", l |-> "q", u |-> u]>> >>, text |-> "", kids |-> <<>>, tail |-> ""] :
              n \in {<<"", "a">>, <<"urn:a", "b">>}, u \in {"urn:a", "urn:c"}}
KidSeqs == UNION {[1..k -> Leaves \cup QLeaves] : k \in 0..MaxKids}
Trees == {[name |-> n, attrs |-> a, text |-> t, kids |-> ks, tail |-> ""] :
            n \in Names, a \in AttrSets, t \in Texts, ks \in KidSeqs}

Init == x \in Trees
Next == UNCHANGED x
Spec == Init /\ [][Next]_x

\* C11 on the specification
InvFaithful == (KnownF18 /\ HasQNameLikeAttr(x)) \/ Faithful(x)

Emit == PrintT(<<"TREE", ToJson([src |-> x, parsed |-> WildParse(x), ref |-> Reference(x), f18 |-> HasQNameLikeAttr(x)])>>)
=============================================================================
