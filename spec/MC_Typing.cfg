SPECIFICATION Spec
INVARIANT InvTableSane
CHECK_DEADLOCK FALSE
