SPECIFICATION Spec
CONSTANTS
  MaxLen = 2
  MaxChoices = 2
CONSTRAINT MCOnly
INVARIANT InvInjective
INVARIANT InvDetermined
CHECK_DEADLOCK FALSE
