SPECIFICATION Spec
CONSTANTS
  Steps <- MCSteps
  Classes = {1, 2, 3}
INVARIANT InvNoReentry
INVARIANT InvStatus
INVARIANT InvDepth
INVARIANT InvOncePerStep
INVARIANT InvAllFinal
PROPERTY Terminates
