---------------------------- MODULE MC_XmlShape ----------------------------
(* Every (kind, shape, position) of XmlShape.tla. *)
EXTENDS XmlShape, Json
VARIABLES k, s, p
Init == k \in Kinds /\ s \in Shapes /\ p \in Positions
Next == UNCHANGED <<k, s, p>>
Spec == Init /\ [][Next]_<<k, s, p>>
InvTableSane == TableSane
Emit == PrintT(<<"XSHAPE", ToJson([kind |-> k, shape |-> s, pos |-> p, canonical |-> Canonical(k, s), strictFail |-> MustFailStrict(k, s), unconvertible |-> Unconvertible(k, s)])>>)
=============================================================================
