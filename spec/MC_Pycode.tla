------------------------------ MODULE MC_Pycode ------------------------------
(* Universe: a top-level model Holder(a, b, items) whose members range over every kind of
   leaf the property lists; plus the inner-class model and a frozen model with a tuple. *)
EXTENDS Pycode, Json
CONSTANTS Known   \* set of finding ids whose selector excludes a case from the invariant
VARIABLE v

H(mod, path) == [mod |-> mod, path |-> path]
P(x) == [t |-> "prim", v |-> x]
Leaves == {
  P("int:5"), P("str:quote'\"\\n"), P("bool:True"), P("none"), P("bytes:ab"), P("float:1.5"),
  [t |-> "obj", home |-> H("builtins", <<"float">>), text |-> <<"float">>, tag |-> "float-inf"],      \* float("inf")
  [t |-> "obj", home |-> H("decimal", <<"Decimal">>), text |-> <<"Decimal">>, tag |-> "decimal"],
  [t |-> "obj", home |-> H("xml.etree.ElementTree", <<"QName">>), text |-> <<"QName">>, tag |-> "qname"],
  [t |-> "obj", home |-> H("xsdata.models.datatype", <<"XmlDate">>), text |-> <<"XmlDate">>, tag |-> "xmldate"],
  [t |-> "obj", home |-> H("xsdata.models.datatype", <<"XmlDuration">>), text |-> <<"XmlDuration">>, tag |-> "xmlduration"],
  [t |-> "obj", home |-> H("datetime", <<"date">>), text |-> <<"datetime", "date">>, tag |-> "pydate"],  \* repr: datetime.date(...)
  [t |-> "enum", home |-> H("M", <<"Color">>), member |-> "RED"],
  [t |-> "enum", home |-> H("M", <<"Outer", "Shade">>), member |-> "DARK"],
  \* members of enums that ALSO subclass a primitive type (IntEnum, (str, Enum)): still enum members, not numbers / strings
  [t |-> "enum", home |-> H("M", <<"Prio">>), member |-> "HIGH"],
  [t |-> "enum", home |-> H("M", <<"Tag">>), member |-> "A"],
  [t |-> "model", home |-> H("M", <<"Outer", "Inner">>), fields |-> << [name |-> "x", v |-> P("int:5"), dflt |-> P("none")] >>],
  \* qualified names three levels deep: the import line must still bind the TOP-LEVEL class
  [t |-> "enum", home |-> H("M", <<"Outer", "Mid", "Tint">>), member |-> "PALE"],
  [t |-> "model", home |-> H("M", <<"Outer", "Mid", "Deep">>), fields |-> << [name |-> "x", v |-> P("int:5"), dflt |-> P("none")] >>],
  \* a class whose field b has ANOTHER default than Holder's field b: holding Holder's default, its own, a third value
  [t |-> "model", home |-> H("M", <<"Holder2">>), fields |-> << [name |-> "b", v |-> P("none"), dflt |-> P("int:5")] >>],
  [t |-> "model", home |-> H("M", <<"Holder2">>), fields |-> << [name |-> "b", v |-> P("int:5"), dflt |-> P("int:5")] >>],
  [t |-> "model", home |-> H("M", <<"Holder2">>), fields |-> << [name |-> "b", v |-> P("str:quote'\"\\n"), dflt |-> P("int:5")] >>]
}
Seqs == {[t |-> "seq", kind |-> k, items |-> it] : k \in {"list", "tuple"}, it \in {<<>>} \cup {<<a>> : a \in Leaves} \cup {<<P("int:5"), P("int:6")>>}}
        \cup
        \* sets and frozensets (hashable members only; Python's == does not tell a set from a frozenset, a list it does)
        {[t |-> "seq", kind |-> k, items |-> it] : k \in {"set", "frozenset"},
                                                     it \in {<<>>} \cup {<<a>> : a \in {l \in Leaves : l.t # "model"}} \cup {<<P("int:5"), P("int:6")>>}}
\* dict-valued members: str keys, and keys that are objects needing an import (a QName, an enum member)
KeyLeaves == {P("str:quote'\"\\n"), CHOOSE l \in Leaves : l.t = "obj" /\ l.tag = "qname", CHOOSE l \in Leaves : l.t = "enum" /\ l.home.path = <<"Color">>}
Maps == {[t |-> "map", items |-> <<>>]} \cup {[t |-> "map", items |-> << <<k, P("int:5")>> >>] : k \in KeyLeaves}
Members == Leaves \cup Seqs \cup Maps
\* c: a field whose default FACTORY yields a non-empty list - an empty (falsy) value is NOT its default
FactoryDefault == [t |-> "seq", kind |-> "list", items |-> <<P("int:5"), P("int:6")>>]
CValues == {FactoryDefault, [t |-> "seq", kind |-> "list", items |-> <<>>], [t |-> "seq", kind |-> "list", items |-> <<P("int:5")>>], P("none")}
Holder(a, b, c) == [t |-> "model", home |-> H("M", <<"Holder">>),
                    fields |-> << [name |-> "a", v |-> a, dflt |-> NoDefault], [name |-> "b", v |-> b, dflt |-> P("none")],
                                  [name |-> "c", v |-> c, dflt |-> FactoryDefault] >>]
Universe == {Holder(a, b, FactoryDefault) : a \in Members, b \in Members} \cup {Holder(a, P("none"), c) : a \in Members, c \in CValues}

Init == v \in Universe
Next == UNCHANGED v
Spec == Init /\ [][Next]_v

IsNestedEnum(x) == x.t = "enum" /\ Len(x.home.path) > 1
IsTuple(x) == x.t = "seq" /\ x.kind = "tuple"
IsPyDate(x) == x.t = "obj" /\ x.text[1] # x.home.path[1]
RECURSIVE HasTuple(_)
HasTuple(x) == IsTuple(x) \/ (x.t = "seq" /\ \E i \in DOMAIN x.items : HasTuple(x.items[i]))
                          \/ (x.t = "map" /\ \E i \in DOMAIN x.items : HasTuple(x.items[i][1]) \/ HasTuple(x.items[i][2]))
                          \/ (x.t = "model" /\ \E i \in DOMAIN x.fields : HasTuple(x.fields[i].v))
RECURSIVE HasNestedEnum(_)
HasNestedEnum(x) == IsNestedEnum(x) \/ (x.t = "seq" /\ \E i \in DOMAIN x.items : HasNestedEnum(x.items[i]))
                          \/ (x.t = "model" /\ \E i \in DOMAIN x.fields : HasNestedEnum(x.fields[i].v))
RECURSIVE HasPyDate(_)
HasPyDate(x) == IsPyDate(x) \/ (x.t = "seq" /\ \E i \in DOMAIN x.items : HasPyDate(x.items[i]))
                          \/ (x.t = "model" /\ \E i \in DOMAIN x.fields : HasPyDate(x.fields[i].v))

Excused == \/ ("F9a" \in Known /\ HasTuple(v))
           \/ ("F9b" \in Known /\ HasNestedEnum(v))
           \/ ("F22" \in Known /\ HasPyDate(v))
InvEvaluatesBack == Excused \/ EvaluatesBack(v)

Emit == PrintT(<<"PY", ToJson([v |-> v, ok |-> EvaluatesBack(v),
                               tuple |-> HasTuple(v), nestedEnum |-> HasNestedEnum(v), pydate |-> HasPyDate(v)])>>)
=============================================================================
