------------------------------ MODULE MC_Typing ------------------------------
(* Every (XML type, annotation form, leaf type) of Typing.tla. *)
EXTENDS Typing, Json
VARIABLES x, f, l
Init == x \in XmlTypes /\ f \in Forms /\ l \in Leaves
Next == UNCHANGED <<x, f, l>>
Spec == Init /\ [][Next]_<<x, f, l>>
InvTableSane == TableSane
Emit == PrintT(<<"TYPING", ToJson([xmlType |-> x, form |-> f, leaf |-> l, documented |-> Documented(x, f), tuple |-> IsTuple(f), tokens |-> IsTokens(f),
                                   union |-> IsUnion(f), nullable |-> Nullable(f), repeating |-> Repeating(f)])>>)
=============================================================================
