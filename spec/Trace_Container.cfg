SPECIFICATION TSpecR
CONSTRAINT Progress
POSTCONDITION Accepted
CHECK_DEADLOCK FALSE
