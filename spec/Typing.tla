------------------------------- MODULE Typing -------------------------------
(***************************************************************************)
(* The field typing contract of docs/models/types.md ("Collections",        *)
(* "Union", "Standard Types"): which annotation FORMS a field may have for   *)
(* each XML type, over which leaf types - every documented declaration must  *)
(* be accepted by the metadata builder (formats/dataclass/typing.py          *)
(* evaluate_element / evaluate_attribute / evaluate_text,                    *)
(* models/builders.py XmlVarBuilder.build) and an instance must survive the   *)
(* XML round trip (C01) and the dictionary / JSON round trip (C04); tuple     *)
(* forms live in frozen classes and must come back as tuples.                *)
(***************************************************************************)
EXTENDS Naturals, Sequences, FiniteSets, TLC

XmlTypes == {"Element", "Attribute", "Text"}
\* the rows of the documentation tables (List / Tuple / Union), plus the PEP 585 / PEP 604 spellings it names
Forms == {"bare", "optional", "list", "optionalList", "listUnion", "tokensList", "listOfTokens",
          "tuple", "optionalTuple", "tupleUnion", "tokensTuple", "tupleOfTokens",
          "union", "optionalUnion", "pep585List", "pep604Optional", "pep604Union",
          "unionNumeric", "listUnionNumeric"}     \* Union[str, int, float] as in the documentation's own example: the numeric members overlap
Leaves == {"str", "int", "float", "bool", "Decimal", "QName", "XmlDate", "XmlDuration", "bytes16", "bytes64", "Enum"}

Repeating(f) == f \in {"list", "optionalList", "listUnion", "listOfTokens", "tuple", "optionalTuple", "tupleUnion", "tupleOfTokens", "pep585List",
                       "listUnionNumeric"}
IsTuple(f)   == f \in {"tuple", "optionalTuple", "tupleUnion", "tokensTuple", "tupleOfTokens"}
IsTokens(f)  == f \in {"tokensList", "listOfTokens", "tokensTuple", "tupleOfTokens"}
IsUnion(f)   == f \in {"listUnion", "tupleUnion", "union", "optionalUnion", "pep604Union", "unionNumeric", "listUnionNumeric"}
Nullable(f)  == f \in {"optional", "optionalList", "optionalTuple", "optionalUnion", "pep604Optional"}

\* an attribute or the text of an element occurs once: it can hold one value or one token list, never a repetition
Documented(x, f) == x = "Element" \/ ~Repeating(f)

\* sanity of the table
TableSane == /\ \A f \in Forms : Documented("Element", f)
             /\ \A x \in {"Attribute", "Text"} : Documented(x, "tokensList") /\ ~Documented(x, "list") /\ ~Documented(x, "listOfTokens")
             /\ \A f \in Forms : IsTuple(f) => ~(f \in {"list", "optionalList"})
=============================================================================
