------------------------------ MODULE MC_Order ------------------------------
(* All digraphs on Nodes x all visiting orders of the vertices and of the neighbours. *)
EXTENDS Order, Json
CONSTANTS Nodes
VARIABLES g, vo, no
vars == <<g, vo, no>>
Perms == {p \in [1..Cardinality(Nodes) -> Nodes] : \A a, b \in DOMAIN p : a # b => p[a] # p[b]}
Init == /\ g \in [Nodes -> SUBSET Nodes]
        /\ vo \in Perms /\ no \in Perms
Next == UNCHANGED vars
Spec == Init /\ [][Next]_vars
\* graphs only (behaviour generation for whole code generations: the visiting orders are the real
\* interpreter's, under several hash seeds)
Sorted == SetToSortSeq(Nodes, <)
InitGraphs == g \in [Nodes -> SUBSET Nodes] /\ vo = Sorted /\ no = Sorted
SpecGraphs == InitGraphs /\ [][Next]_vars
\* four classes: all graphs without self loops x all visiting orders of the vertices x two neighbour orders
\* (ascending and descending) - the full product of orders is 2.4 million states and does not fit a check
InitFew == /\ g \in {f \in [Nodes -> SUBSET Nodes] : \A v \in Nodes : v \notin f[v]}
           /\ vo \in Perms /\ no \in {Sorted, Reverse(Sorted)}
\* every visiting order yields the strongly connected components, and nothing else
InvConfluentScc == SccSet(g, vo, no) = TrueSccs(g)
\* components come out in an order where a component never precedes one it depends on (what
\* group_by_strong_components relies on is only the SET; recorded for the trace check)
NoSelfLoops == \A v \in Nodes : v \notin g[v]
EmitGraph == (vo = Sorted /\ no = Sorted) =>
   PrintT(<<"GRAPH", ToJson([edges |-> [v \in Nodes |-> SetToSortSeq(g[v], <)], sccs |-> {SetToSortSeq(c, <) : c \in TrueSccs(g)},
                              topo |-> TopoFlatten(g).list, cyclic |-> TopoFlatten(g).cyclic])>>)
=============================================================================
