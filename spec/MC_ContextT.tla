---------------------------- MODULE MC_ContextT ----------------------------
(***************************************************************************)
(* C19: all interleavings of NThreads threads, each running one program    *)
(* (parse with xsi:type, parse without a target class, serialise) against   *)
(* one shared XmlContext that is cold or warm.                              *)
(***************************************************************************)
EXTENDS Context, Json

CONSTANTS NThreads, ProgIds, Warmth

VARIABLES s, th, sched, warm
vars == <<s, th, sched, warm>>

\* Base <- Derived, plus an unrelated class; all in one loaded module
MCClasses == <<
  [id |-> 1, ownNs |-> "urn:a", target |-> "{urn:a}Base",    base |-> 0, module |-> 1, broken |-> FALSE],
  [id |-> 2, ownNs |-> "urn:a", target |-> "{urn:a}Derived", base |-> 1, module |-> 1, broken |-> FALSE],
  [id |-> 3, ownNs |-> "urn:b", target |-> "{urn:b}Other",   base |-> 0, module |-> 1, broken |-> FALSE] >>
MCVars == <<>>
MCQNs == {"{urn:a}Base", "{urn:a}Derived", "{urn:b}Other"}

Programs == <<
  \* 1: parse a document whose root carries xsi:type="Derived" into Base  (fetch)
  << [op |-> "build", c |-> 1, pns |-> NONE], [op |-> "find", q |-> "{urn:a}Derived"],
     [op |-> "build", c |-> 2, pns |-> NONE] >>,
  \* 2: parse without a target class (root lookup by qname)
  << [op |-> "find", q |-> "{urn:b}Other"], [op |-> "build", c |-> 3, pns |-> NONE] >>,
  \* 3: serialise an Other instance
  << [op |-> "build", c |-> 3, pns |-> NONE] >>,
  \* 4: two lookups
  << [op |-> "find", q |-> "{urn:a}Base"], [op |-> "find", q |-> "{urn:a}Derived"] >> >>

Threads == 1..NThreads

WarmState == SeqFindTypes(SeqBuild(SeqBuild(FreshState(1), 1, NONE).s, 3, NONE).s, "{urn:a}Base").s

Init ==
  /\ warm \in Warmth
  /\ s = IF warm = "warm" THEN WarmState ELSE FreshState(1)
  /\ th \in [Threads -> {TInitThread(Programs[p]) : p \in ProgIds}]
  /\ sched = <<>>

Step(t) ==
  /\ ~Finished(th[t])
  /\ LET r == TStep(s, th[t])
         lbl == IF th[t].pc = "begin" THEN Begin(th[t]).pc ELSE th[t].pc
     IN /\ s' = r.s
        /\ th' = [th EXCEPT ![t] = r.th]
        /\ sched' = Append(sched, <<t, lbl>>)
        /\ warm' = warm

Next == \E t \in Threads : Step(t)
Spec == Init /\ [][Next]_vars

View == <<s, th, warm>>
ViewAll == <<s, th, warm, sched>>

\* C19: every call returns what it returns alone
SameAsAlone ==
  \A t \in Threads : \A j \in DOMAIN th[t].res :
     Norm(th[t].res[j]) = Norm(AloneResult(th[t].prog[j], s.loaded))

\* and the quiescent state is the sequential one
AllDone == \A t \in Threads : Finished(th[t])
QuiescentIndex == (AllDone /\ s.sysMods = s.loaded) => \A q \in MCQNs : Norm([types |-> s.xsi[q]]) = Norm([types |-> TypesOf(q, s.loaded)])

EmitDone ==
  AllDone => PrintT(<<"SCHED", ToJson([progs |-> [t \in Threads |-> th[t].prog], warm |-> warm,
                                        sched |-> sched,
                                        results |-> [t \in Threads |-> th[t].res]])>>)
=============================================================================
