---------------------------- MODULE MC_ContextH ----------------------------
(***************************************************************************)
(* C14: histories.  API-level operations (parse / serialise / decode /      *)
(* encode of particular documents and objects) are abstracted to the        *)
(* sequence of context operations they perform (their footprint); a       *)
(* history is any finite sequence of them on one shared context.  The       *)
(* property: in every reachable state every operation answers what it       *)
(* answers on a fresh context.                                              *)
(*                                                                         *)
(* The pool holds the discriminating shapes: a class without a namespace of *)
(* its own used under parents in different namespaces; a lookup by xsi:type;*)
(* a lookup without a target class; a qualified name that nobody defines;   *)
(* a class whose metadata cannot be built; a module imported later that     *)
(* defines a second class for an already known qualified name.              *)
(***************************************************************************)
EXTENDS Context, Json

CONSTANTS MaxLen, KnownF3   \* KnownF3 = TRUE while finding F3 is open

VARIABLES s, hist
vars == <<s, hist>>

\*  1 A(urn:a){child: Child}   2 B(urn:b){child: Child}   3 Child (no namespace of its own)
\*  4 Base(urn:a)  5 Derived(Base)  6 Other(urn:b)  7 Broken   8 Other2 (module 2, same qname as 6)
MCClasses == <<
  [id |-> 1, ownNs |-> "urn:a", target |-> "{urn:a}A",       base |-> 0, module |-> 1, broken |-> FALSE],
  [id |-> 2, ownNs |-> "urn:b", target |-> "{urn:b}B",       base |-> 0, module |-> 1, broken |-> FALSE],
  [id |-> 3, ownNs |-> NONE,    target |-> "Child",          base |-> 0, module |-> 1, broken |-> FALSE],
  [id |-> 4, ownNs |-> "urn:a", target |-> "{urn:a}Base",    base |-> 0, module |-> 1, broken |-> FALSE],
  [id |-> 5, ownNs |-> "urn:a", target |-> "{urn:a}Derived", base |-> 4, module |-> 1, broken |-> FALSE],
  [id |-> 6, ownNs |-> "urn:b", target |-> "{urn:b}Other",   base |-> 0, module |-> 1, broken |-> FALSE],
  [id |-> 7, ownNs |-> NONE,    target |-> "Broken",         base |-> 0, module |-> 1, broken |-> TRUE],
  [id |-> 8, ownNs |-> "urn:b", target |-> "{urn:b}Other",   base |-> 0, module |-> 2, broken |-> FALSE],
  [id |-> 9, ownNs |-> "urn:w", target |-> "{urn:w}W1",      base |-> 0, module |-> 1, broken |-> FALSE],
  [id |-> 10, ownNs |-> "urn:w", target |-> "{urn:w}W2",     base |-> 0, module |-> 1, broken |-> FALSE] >>
\* wildcard fields: 1 = W1.ext (namespace "urn:allowed"), 2 = W2.ext ("##other" of urn:w)
MCVars == << [ns |-> << [k |-> "uri", u |-> "urn:allowed"] >>], [ns |-> << [k |-> "not", u |-> "urn:w"] >>] >>
MCQNs == {"{urn:w}W1", "{urn:w}W2", "{urn:a}A", "{urn:b}B", "Child", "{urn:a}Base", "{urn:a}Derived", "{urn:b}Other", "Broken", "{urn:x}Unknown"}

B(c, pns)        == [op |-> "build", c |-> c, pns |-> pns]
F(c, pns, xsi)   == [op |-> "fetch", c |-> c, pns |-> pns, xsi |-> xsi]
Q(q)             == [op |-> "find", q |-> q]
M(v, uri, local) == [op |-> "match", v |-> v, qn |-> <<uri, local>>]

\* API operations and their footprints
ApiNames == {"serA", "serB", "parseA", "parseB", "parseXsi", "parseXsiWrong", "parseNoClass", "parseUnknown",
             "parseBroken", "serOther", "decNoClass", "import", "reset",
             "parseW1ok", "parseW1bad", "parseW1other", "parseW2same", "parseW2other",
             "decDerived", "decNoClassNarrow"}
Footprint(name) ==
  CASE name = "serA"         -> << B(1, NONE), B(3, "urn:a") >>
    [] name = "serB"         -> << B(2, NONE), B(3, "urn:b") >>
    [] name = "parseA"       -> << F(1, NONE, NONE), F(3, "urn:a", NONE) >>
    [] name = "parseB"       -> << F(2, NONE, NONE), F(3, "urn:b", NONE) >>
    [] name = "parseXsi"     -> << F(4, NONE, "{urn:a}Derived") >>
    \* the same xsi:type under a declared class it does NOT derive from: no substitution, and nothing
    \* about that verdict may stick to the qname alone
    [] name = "parseXsiWrong" -> << F(6, NONE, "{urn:a}Derived") >>
    [] name = "parseNoClass" -> << Q("{urn:b}Other") >>
    [] name = "parseUnknown" -> << Q("{urn:x}Unknown") >>
    [] name = "parseBroken"  -> << B(7, NONE) >>
    [] name = "serOther"     -> << B(6, NONE) >>
    \* JsonParser without a class: find_type_by_fields indexes, then builds EVERY indexed
    \* class without a parent namespace (local_names_match)
    [] name = "decNoClass"   -> << [op |-> "index"] >> \o
                                [c \in 1..Len(MCClasses) |-> [op |-> "trybuild", c |-> c, pns |-> NONE]]
    \* decode with the class given (Derived alone enters the cache), and class detection for an object whose keys fit
    \* Base AND Derived: the answer is computed from the index of ALL classes, never from what the cache happens to hold
    [] name = "decDerived"       -> << B(5, NONE) >>
    [] name = "decNoClassNarrow" -> << [op |-> "index"] >> \o
                                    [c \in 1..Len(MCClasses) |-> [op |-> "trybuild", c |-> c, pns |-> NONE]]
    [] name = "parseW1ok"    -> << F(9, NONE, NONE), M(1, "urn:allowed", "item") >>
    [] name = "parseW1bad"   -> << F(9, NONE, NONE), M(1, "urn:forbidden", "item") >>
    [] name = "parseW1other" -> << F(9, NONE, NONE), M(1, "urn:allowed", "other") >>
    [] name = "parseW2same"  -> << F(10, NONE, NONE), M(2, "urn:w", "item") >>
    [] name = "parseW2other" -> << F(10, NONE, NONE), M(2, "urn:allowed", "item") >>
    [] name = "import"       -> << [op |-> "import"] >>
    [] name = "reset"        -> << [op |-> "reset"] >>

\* run a footprint: stop at the first error (the call raises)
RECURSIVE RunOps(_, _, _)
RunOps(st, ops, acc) ==
  IF ops = <<>> THEN [s |-> st, r |-> acc]
  ELSE LET x == SeqStep(st, Head(ops))
       IN IF "err" \in DOMAIN x.r THEN [s |-> x.s, r |-> Append(acc, x.r)]
          ELSE RunOps(x.s, Tail(ops), Append(acc, x.r))

Api(st, name) == RunOps(st, Footprint(name), <<>>)

\* what the caller can observe of a list of context answers
Obs(rs) == FoldLeft(LAMBDA acc, r : Append(acc, IF "types" \in DOMAIN r THEN [last |-> Norm(r).last] ELSE r), <<>>, rs)

Init == s = FreshState(1) /\ hist = <<>>
Next == /\ Len(hist) < MaxLen
        /\ \E name \in ApiNames :
              /\ (name = "import" => s.loaded = 1)
              /\ s' = Api(s, name).s
              /\ hist' = Append(hist, name)
Spec == Init /\ [][Next]_vars
View == s

\* F3 (open finding): metadata of a class that inherits its namespace is cached under the
\* class alone; the selector is exactly "the cached metadata of class 3 (Child) was built
\* under another parent namespace than the one now asked for".
HitsF3(st, name) ==
  /\ name \in {"serA", "parseA", "serB", "parseB"}
  \* (decNoClass builds Child with no parent namespace at all: also "another namespace")
  /\ CacheHas(st, <<3, NONE>>)
  /\ CacheGet(st, <<3, NONE>>).ns # (IF name \in {"serA", "parseA"} THEN "urn:a" ELSE "urn:b")

HistoryIndependence ==
  \A name \in ApiNames \ {"import", "reset"} :
     (KnownF3 /\ HitsF3(s, name)) \/ Obs(Api(s, name).r) = Obs(Api(FreshState(s.loaded), name).r)

\* one line per distinct reachable state: the first history that reaches it, and for every
\* operation whether the specification expects the F3 selector to apply
EmitState ==
  PrintT(<<"HIST", ToJson([hist |-> hist,
                           f3 |-> {name \in ApiNames : HitsF3(s, name)}])>>)
=============================================================================
