------------------------------ MODULE Handler ------------------------------
(***************************************************************************)
(* parsers/handlers/native.py and lxml.py: the two event pumps and the      *)
(* prefix-URI map each hands to NodeParser.start for an element.            *)
(*                                                                         *)
(*  native: start-ns events are collected in element_ns_map; at the start   *)
(*          event the map is merged with the ns_map OF THE NODE ON TOP OF   *)
(*          THE PARSER QUEUE (merge_parent_namespaces), so what a child     *)
(*          sees depends on what kind of node its parent became.            *)
(*  lxml:   the element's in-scope namespaces (element.nsmap).              *)
(*                                                                         *)
(* A document here is a chain root > mid > leaf (root > union > inner > leaf   *)
(* for union-typed middles) with namespace declarations                    *)
(* on each level; the leaf carries a QName-typed value whose prefix must be *)
(* resolved with the map delivered for the leaf.  The reference is the XML  *)
(* Namespaces scoping rule.                                                 *)
(***************************************************************************)
EXTENDS Naturals, Sequences, SequencesExt, FiniteSets, TLC, Json

CONSTANTS WrapperPolicy,  \* "parent" (as shipped: WrapperNode.ns_map = parent.ns_map) | "own"
          UnionPolicy     \* "root" (as shipped: a UnionNode stands in for all its descendants and keeps the map of the union
                          \*  element itself) | "open" (repaired: while a descendant is open its map is the one in scope)

NONE == "__none__"
Has(m, k) == \E i \in DOMAIN m : m[i][1] = k
Get(m, k) == IF Has(m, k) THEN m[CHOOSE i \in DOMAIN m : m[i][1] = k][2] ELSE NONE
Put(m, k, v) == IF Has(m, k) THEN FoldLeft(LAMBDA acc, e : Append(acc, IF e[1] = k THEN <<k, v>> ELSE e), <<>>, m)
                ELSE Append(m, <<k, v>>)
RECURSIVE PutAll(_, _)
PutAll(m, ds) == IF ds = <<>> THEN m ELSE PutAll(Put(m, Head(ds)[1], Head(ds)[2]), Tail(ds))

\* merge_parent_namespaces(element_ns_map) with the queue's top node map
Merge(parentMap, hasParent, elMap) ==
  IF hasParent THEN (IF elMap = <<>> THEN parentMap ELSE PutAll(parentMap, elMap)) ELSE PutAll(<<>>, elMap)

\* the map the node keeps (XmlNode.ns_map) given its kind and the delivered map
NodeMap(kind, delivered, parentMap) ==
  CASE kind = "skip"    -> <<>>                         \* SkipNode.ns_map = {}
    [] kind = "wrapper" -> IF WrapperPolicy = "parent" THEN parentMap ELSE delivered
    \* an element INSIDE a union-typed field: the node on the queue is still the union node
    \* "wildModel": an element captured by a wildcard and bound to a class known by its qualified name keeps, like any
    \* element node, the map delivered for it (OTHER)
    [] kind = "unionChild" -> IF UnionPolicy = "root" THEN parentMap ELSE delivered
    [] OTHER            -> delivered

\* levels: Seq of [kind, decls]; returns the map delivered to each level
RECURSIVE NativeMaps(_, _, _, _)
NativeMaps(levels, k, parentMap, acc) ==
  IF k > Len(levels) THEN acc
  ELSE LET delivered == Merge(parentMap, k > 1, levels[k].decls)
       IN NativeMaps(levels, k + 1, NodeMap(levels[k].kind, delivered, parentMap), Append(acc, delivered))
RECURSIVE ScopeMaps(_, _, _, _)
ScopeMaps(levels, k, scope, acc) ==
  IF k > Len(levels) THEN acc
  ELSE LET s == PutAll(scope, levels[k].decls) IN ScopeMaps(levels, k + 1, s, Append(acc, s))

\* resolution of a prefix (QNameConverter.resolve: the default namespace applies)
Resolve(m, p) == LET u == Get(m, p) IN IF u = NONE \/ u = "" THEN (IF p = "" THEN "" ELSE NONE) ELSE u
=============================================================================
