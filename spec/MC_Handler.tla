----------------------------- MODULE MC_Handler -----------------------------
EXTENDS Handler
CONSTANTS MidKinds, Pfxs
VARIABLES levels
DeclSets == { <<>>, << <<"p", "urn:a">> >>, << <<"p", "urn:b">> >>, << <<"", "urn:a">> >>, << <<"", "">> >>,
              << <<"p", "urn:a">>, <<"", "urn:b">> >> }
\* (a union-typed middle has one more level: the declarations d3 sit on an element INSIDE the union, the leaf below it)
Init == levels \in { IF mk = "union"
                     THEN << [kind |-> "element", decls |-> d1], [kind |-> "union", decls |-> d2], [kind |-> "unionChild", decls |-> d3],
                             [kind |-> "primitive", decls |-> <<>>] >>
                     ELSE << [kind |-> "element", decls |-> d1], [kind |-> mk, decls |-> d2], [kind |-> "primitive", decls |-> d3] >> :
                       d1 \in DeclSets, d2 \in DeclSets, d3 \in DeclSets, mk \in MidKinds }
Leaf == Len(levels)
Next == UNCHANGED levels
Spec == Init /\ [][Next]_levels
\* C08/C09: the leaf's QName value resolves the same through both pumps, namely as XML Namespaces says
PumpsAgree ==
  LET n == NativeMaps(levels, 1, <<>>, <<>>)  s == ScopeMaps(levels, 1, <<>>, <<>>)
  IN levels[2].kind # "skip" => \A p \in Pfxs : Resolve(n[Leaf], p) = Resolve(s[Leaf], p)
Emit == PrintT(<<"DOC", ToJson([levels |-> levels,
                                 native |-> [p \in Pfxs |-> Resolve(NativeMaps(levels, 1, <<>>, <<>>)[Leaf], p)],
                                 scope  |-> [p \in Pfxs |-> Resolve(ScopeMaps(levels, 1, <<>>, <<>>)[Leaf], p)]])>>)
=============================================================================
