----------------------------- MODULE MC_Handler -----------------------------
EXTENDS Handler
CONSTANTS MidKinds, Pfxs
VARIABLES levels
DeclSets == { <<>>, << <<"p", "urn:a">> >>, << <<"p", "urn:b">> >>, << <<"", "urn:a">> >>, << <<"", "">> >>,
              << <<"p", "urn:a">>, <<"", "urn:b">> >> }
Init == levels \in { << [kind |-> "element", decls |-> d1], [kind |-> mk, decls |-> d2], [kind |-> "primitive", decls |-> d3] >> :
                       d1 \in DeclSets, d2 \in DeclSets, d3 \in DeclSets, mk \in MidKinds }
Next == UNCHANGED levels
Spec == Init /\ [][Next]_levels
\* C08/C09: the leaf's QName value resolves the same through both pumps, namely as XML Namespaces says
PumpsAgree ==
  LET n == NativeMaps(levels, 1, <<>>, <<>>)  s == ScopeMaps(levels, 1, <<>>, <<>>)
  IN levels[2].kind # "skip" => \A p \in Pfxs : Resolve(n[3], p) = Resolve(s[3], p)
Emit == PrintT(<<"DOC", ToJson([levels |-> levels,
                                 native |-> [p \in Pfxs |-> Resolve(NativeMaps(levels, 1, <<>>, <<>>)[3], p)],
                                 scope  |-> [p \in Pfxs |-> Resolve(ScopeMaps(levels, 1, <<>>, <<>>)[3], p)]])>>)
=============================================================================
