SPECIFICATION Spec
CONSTANTS
  MaxDocIdx = 2
  Types = {"int"}
  Occs <- OccsSmall
CONSTRAINT MCOnly
INVARIANT InvConstructionValid
INVARIANT InvHasDocs
CHECK_DEADLOCK FALSE
