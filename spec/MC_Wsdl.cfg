SPECIFICATION Spec
CONSTANTS
  MaxOps = 1
INVARIANT InvExchange
INVARIANT InvTerminates
CHECK_DEADLOCK FALSE
