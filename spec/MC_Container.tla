----------------------------- MODULE MC_Container -----------------------------
(* All dependency graphs on Classes (cycles and self references included). *)
EXTENDS Container
CONSTANTS Classes
VARIABLES deps, cs
vars == <<deps, cs>>
Order == SetToSortSeq(Classes, <)
MCSteps == <<10, 20>>
DepSeq(c) == SetToSortSeq(deps[c], <)

Init == deps \in [Classes -> SUBSET Classes] /\ cs = CInit(Classes)
StartStep == /\ cs.stack = <<>> /\ ~cs.done
             /\ (cs.si = 0 \/ \A c \in Classes : cs.status[c] >= cs.step)
             /\ IF cs.si = Len(Steps) THEN cs' = [cs EXCEPT !.done = TRUE] ELSE cs' = BeginStep(cs)
             /\ UNCHANGED deps
\* for obj in self: if obj.status < step: process_class(obj, step)
TopLevel == /\ cs.stack = <<>> /\ cs.si > 0 /\ ~cs.done
            /\ \E c \in Classes : /\ cs.status[c] < cs.step
                                  /\ \A d \in Classes : d < c => cs.status[d] >= cs.step
                                  /\ cs' = Enter(cs, c)
            /\ UNCHANGED deps
\* the class on top pulls its next dependency through find()
Pull == /\ cs.stack # <<>>
        /\ LET f == TopF(cs)  ds == DepSeq(f.c)
           IN IF f.pos < Len(ds)
              THEN LET d == ds[f.pos + 1]
                   IN IF NeedsProcessing(cs, d) THEN cs' = Enter(Advance(cs), d) ELSE cs' = Advance(cs)
              ELSE cs' = Exit(cs)
        /\ UNCHANGED deps
Finished == cs.done /\ UNCHANGED vars
Next == StartStep \/ TopLevel \/ Pull \/ Finished
Spec == Init /\ [][Next]_vars /\ WF_vars(Next)

InvNoReentry == NoReentry(cs)
InvStatus == StatusSane(cs) /\ OnStackInProgress(cs)
InvDepth == Len(cs.stack) <= Cardinality(Classes)
InvOncePerStep == \A c \in Classes : cs.status[c] = cs.step + 1 => <<c, cs.step>> \in cs.entered
InvAllFinal == cs.done => \A c \in Classes : cs.status[c] = Steps[Len(Steps)] + 1
Terminates == <>(cs.done)
=============================================================================
