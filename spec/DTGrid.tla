------------------------------- MODULE DTGrid -------------------------------
(* Default (tiny) grids so that the specification parses on its own; the    *)
(* harness replaces this module with generated grids at run time            *)
(* (harness/xv/dt_bind.py).                                                  *)
EXTENDS Naturals, Sequences
LexSlots(kind) == << {<<"2", "0", "2", "0">>}, {<<"-">>}, {<<"0", "2">>}, {<<"-">>}, {<<"3", "0">>, <<"2", "9">>}, {<<>>, <<"Z">>} >>
FmtSlots(kind) == << {2020}, {2}, {29}, {100000, 0} >>
CmpSlots(kind) == << {[y |-> 2020, mo |-> 1, d |-> 31, h |-> 23, mi |-> 0, s |-> 0, f |-> 0, off |-> 100000]},
                     {[y |-> 2020, mo |-> 2, d |-> 1, h |-> 0, mi |-> 0, s |-> 0, f |-> 0, off |-> 100000]} >>
OutSlots(kind) == << {<<"2", "0", "2", "0", "-", "0", "2", "-", "2", "9">>} >>
=============================================================================
