------------------------------ MODULE XmlShape ------------------------------
(***************************************************************************)
(* The XML parser (formats/dataclass/parsers/nodes/*: ElementNode.child,   *)
(* build_node and the node classes it dispatches to) as a SHAPE matrix:    *)
(* every kind of field the metadata can describe against every shape the   *)
(* content called `x` of the parent element can have, at three positions   *)
(* (child of the root, child of a nested element, child of an element that *)
(* repeats).                                                               *)
(*                                                                         *)
(* Canonical(kind, shape): the shapes XmlSerializer writes for a value of   *)
(* that kind - those MUST parse, under every handler, and give an object    *)
(* that serialises to a document which parses to an equal object (C01).     *)
(* Every other cell is a well-formed document that does not fit the model:  *)
(* the parser returns an instance of the requested class or raises a        *)
(* documented error (C15); both handlers give the same outcome (C08).       *)
(* Strict(shape): shapes that contain an element the model cannot know in   *)
(* ANY kind's content model are listed so that C10 can demand a ParserError *)
(* under the default configuration and an unchanged object without it.      *)
(***************************************************************************)
EXTENDS Naturals, Sequences, FiniteSets, TLC

Kinds == {"int", "intList", "tokens", "tokenLists", "model", "modelList", "modelUnion", "anyType", "wildcardList",
          "attributes", "primUnion", "compound", "enum", "nillableInt", "requiredInt", "attrInt", "wildcardOne", "qname",
          "enumTokens",             \* an enumeration of xs:list values (members 5 6 and 5 6 7)
          "nillableModel",          \* a class that is itself nillable (Meta.nillable) with an attribute: nil AND an instance
          "modelAndWildcard"}       \* x is a typed complex child, NEXT TO a (non-mixed) wildcard field of the same class

Shapes == {"absent", "empty", "ws", "int", "str", "enumStr", "ints", "twice", "nil", "nilText", "nilBad", "leaf", "leafTwice",
           "unknownChild", "mixed", "xsiInt", "xsiUnknown", "xsiUnbound", "xsiLeaf", "attrs", "parentAttr", "parentAttrBad",
           "parentAttrs", "deep", "cdata", "comment", "otherNs", "compoundN", "sibling",
           "known", "knownTwice", "knownThenX",     \* content that binds to a class the context knows by its qualified name
           "mixedTokens",                           \* a token list with one unconvertible token: <x>1 a 3</x>
           "clarkBroken", "xsiClarkBroken", "clark",
           "leafThenText", "textLeafText",
           "nilAttr",                               \* <x a="1" xsi:nil="true"/>
           "xsiHexBad", "xsiIntBad"}                  \* an xsi:type naming a built-in type, with text outside its lexical space           \* character data after / around a complex child (only mixed content can hold it) \* names in {uri}local notation, whole and cut short (text and xsi:type)

Positions == {"root", "nested", "repeated"}

\* what XmlSerializer writes for a value of that kind
Canonical(k, s) ==
  CASE k = "int"          -> s \in {"absent", "int"}
    [] k = "nillableInt"  -> s \in {"nil", "int"}
    [] k = "requiredInt"  -> s \in {"int"}
    [] k = "intList"      -> s \in {"absent", "int", "twice"}
    [] k = "tokens"       -> s \in {"absent", "int", "ints"}
    [] k = "tokenLists"   -> s \in {"absent", "int", "ints", "twice"}
    [] k = "model"        -> s \in {"absent", "empty", "leaf"}
    [] k = "modelList"    -> s \in {"absent", "empty", "leaf", "leafTwice"}
    [] k = "modelUnion"   -> s \in {"absent", "leaf"}
    [] k = "anyType"      -> s \in {"absent", "str", "xsiInt"}
    [] k = "wildcardList" -> s \in {"absent", "str", "leaf", "leafTwice", "attrs", "deep", "otherNs", "twice", "unknownChild",
                                     "known", "knownTwice", "knownThenX"}
    \* (several elements in a single-valued wildcard are kept as the children of one anonymous generic element)
    [] k = "wildcardOne"  -> s \in {"absent", "str", "leaf", "attrs", "deep", "otherNs", "unknownChild", "known",
                                     "twice", "leafTwice", "knownTwice", "knownThenX"}
    [] k = "attributes"   -> s \in {"absent", "parentAttrs", "parentAttr"}
    [] k = "primUnion"    -> s \in {"absent", "int", "str"}
    [] k = "compound"     -> s \in {"absent", "compoundN"}
    [] k = "enum"         -> s \in {"absent", "enumStr"}
    [] k = "attrInt"      -> s \in {"absent", "parentAttr"}
    [] k = "qname"        -> s \in {"absent", "str", "enumStr"}
    [] k = "modelAndWildcard" -> s \in {"absent", "empty", "leaf"}
    [] k = "enumTokens"   -> s \in {"absent", "ints"}
    \* (an instance without content is written with xsi:nil and its attributes, and read back as an instance)
    [] k = "nillableModel" -> s \in {"absent", "nil", "nilAttr", "leaf"}

\* a shape that adds, next to canonical content `int`, something NO content model of the universe knows:
\* an element <zz> beside x (sibling).  Kinds that absorb anything (wildcards) are exempt.
AbsorbsUnknown(k) == k \in {"wildcardList", "wildcardOne", "modelAndWildcard"}
MustFailStrict(k, s) == s = "sibling" /\ ~AbsorbsUnknown(k)

\* C10: text the declared type has no lexical form for.  It is kept AS GIVEN (the raw text, not a piece or a
\* transformation of it) with a ConverterWarning, or the parse fails with ParserError when conversion warnings fail.
Unconvertible(k, s) ==
  CASE k \in {"int", "nillableInt", "requiredInt", "intList"} -> s \in {"str", "enumStr", "ints"}
    [] k \in {"tokens", "tokenLists"}                          -> s \in {"str", "enumStr", "mixedTokens"}
    [] k = "enum"                                               -> s \in {"str", "int", "ints"}
    [] k = "enumTokens"                                         -> s \in {"str", "int", "mixedTokens"}     \* ("int" is a proper PREFIX of a member)
    [] k = "attrInt"                                            -> s \in {"parentAttrBad"}
    \* the declared type is anyType / a wildcard, the ANNOUNCED type (xsi:type) is what the text cannot be converted to
    [] k \in {"anyType", "wildcardList", "wildcardOne"}          -> s \in {"xsiHexBad", "xsiIntBad"}
    [] OTHER                                                    -> FALSE

TableSane == /\ \A k \in Kinds, s \in Shapes : ~(Canonical(k, s) /\ Unconvertible(k, s))
             /\ /\ \A k \in Kinds : \E s \in Shapes : Canonical(k, s)
             /\ ~Canonical("requiredInt", "absent")
             /\ \A k \in Kinds \ {"nillableInt", "requiredInt"} : Canonical(k, "absent")
             /\ \A k \in Kinds, s \in Shapes : ~(Canonical(k, s) /\ MustFailStrict(k, s))
=============================================================================
