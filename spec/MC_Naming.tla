------------------------------ MODULE MC_Naming ------------------------------
(* All names up to MaxLen over the alphabet x naming conventions. *)
EXTENDS Naming, Json
CONSTANTS MaxLen, Alphabet, Convs
VARIABLES name, conv
vars == <<name, conv>>
Init == name = <<>> /\ conv \in Convs
Next == Len(name) < MaxLen /\ \E c \in Alphabet : name' = Append(name, c) /\ conv' = conv
Spec == Init /\ [][Next]_vars
Prefix(cv) == IF cv = "pascal" THEN <<"t", "y", "p", "e">> ELSE <<"v", "a", "l", "u", "e">>
R == SafeName(name, Prefix(conv), conv, 6)
InvTerminates == R.ok
InvIdentifier == R.ok => (IsIdentifier(R.v) /\ R.v \notin Reserved)
Emit == PrintT(<<"NAME", ToJson([name |-> name, conv |-> conv, ok |-> R.ok, result |-> R.v])>>)
=============================================================================
