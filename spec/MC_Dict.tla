------------------------------- MODULE MC_Dict -------------------------------
(* Every (model, instance) of the RoundTrip universe through the dictionary form. *)
EXTENDS MC_RoundTrip, Dict

DInit == /\ m \in {x \in Models : ValidFields(x.fields)}
         /\ inst \in {s \in [DOMAIN m.fields -> UNION {Values(m.fields[k]) : k \in DOMAIN m.fields}] :
                         \A k \in DOMAIN m.fields : s[k] \in Values(m.fields[k])}
         /\ fault = "none" /\ cfg \in StrictOnly /\ evs = <<>> /\ i = 0 /\ p = PInit /\ ptrace = <<>>
DNext == UNCHANGED vars
DSpec == DInit /\ [][DNext]_vars

InvJsonNative == JsonNative(Encode(m, inst)) /\ JsonNative(FilterNone(Encode(m, inst)))
InvDecodable  == Decodable(m, inst)

DEmit == PrintT(<<"DICT", ToJson([m |-> m, inst |-> inst, enc |-> Encode(m, inst), encf |-> FilterNone(Encode(m, inst))])>>)
=============================================================================
