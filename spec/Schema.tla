------------------------------- MODULE Schema -------------------------------
(***************************************************************************)
(* A fragment of XML Schema as a source language (its own semantics, not    *)
(* xsdata code): a target namespace and element form, one global root       *)
(* element whose complex type (named or anonymous) has a content particle   *)
(* over sequence / choice / all with occurrence ranges, local elements of   *)
(* simple types (built-ins, an enumeration, a list, a union) or of a small  *)
(* named complex type, an element reference to a second global element,     *)
(* attributes with use / default / fixed, nillable elements, simple content *)
(* extension.                                                               *)
(*                                                                         *)
(* Validity is CONSTRUCTIVE: DocsOf(p) builds, by walking the content       *)
(* model, the documents a particle admits (repetitions bounded by 2), so    *)
(* every (schema, document) pair the specification produces is valid by     *)
(* construction; Accepts is an independent matcher used to cross-check the  *)
(* construction inside TLC, libxml2 cross-checks both at replay time.       *)
(***************************************************************************)
EXTENDS Naturals, Sequences, SequencesExt, FiniteSets, TLC

NONE == "__none__"
U == 9            \* maxOccurs="unbounded"

\* particles
\*   [k |-> "el", name, tp, min, max, nillable, ref]       tp: simple type name or "Kid"
\*   [k |-> "seq" | "choice" | "all", min, max, items]
El(name, tp, min, max) == [k |-> "el", name |-> name, tp |-> tp, min |-> min, max |-> max, nillable |-> FALSE, ref |-> FALSE]
Grp(k, min, max, items) == [k |-> k, min |-> min, max |-> max, items |-> items]

Reps(min, max) == {n \in 0..2 : n >= min /\ n <= max} \cup (IF min > 2 THEN {min} ELSE {})
RepSeq(min, max) == SetToSortSeq(Reps(min, max), <)

\* lexical values by occurrence index (second spellings are deliberately non-canonical so that
\* comparison has to happen in the value space)
IVal(tp, i) ==
  CASE tp = "int"     -> IF i % 2 = 1 THEN "1" ELSE "-007"
    [] tp = "long"    -> IF i % 2 = 1 THEN "2147483648" ELSE "-5"          \* another XSD built-in that binds to the same Python type as int
    [] tp = "string"  -> IF i % 2 = 1 THEN "t" ELSE "a b"
    [] tp = "boolean" -> IF i % 2 = 1 THEN "true" ELSE "0"
    [] tp = "decimal" -> IF i % 2 = 1 THEN "1.50" ELSE "-0.5"
    [] tp = "date"    -> IF i % 2 = 1 THEN "2020-02-29" ELSE "1999-12-31Z"
    [] tp = "Color"   -> IF i % 2 = 1 THEN "red" ELSE "dark blue"        \* enumeration
    [] tp = "Ints"    -> IF i % 2 = 1 THEN "1 2" ELSE "3"                \* list of xs:int
    [] tp = "IntsAnon" -> IF i % 2 = 1 THEN "1 2 3" ELSE "4"             \* ANONYMOUS: restriction(maxLength 3) of an anonymous list of xs:int
    [] tp = "IntOrStr" -> IF i % 2 = 1 THEN "5" ELSE "five"              \* union
    [] tp = "ColorOrInt" -> IF i % 2 = 1 THEN "42" ELSE "dark blue"        \* NAMED union of an enumeration and a built-in type
    [] tp = "FixedStr" -> "kg"                                           \* xs:string with a value constraint fixed="kg": every occurrence says kg
    [] tp = "DefInt"   -> IF i % 2 = 1 THEN "7" ELSE "3"                  \* xs:int with default="7": explicit values, the default's and another
    [] OTHER -> "t"

\* an occurrence: [name, tp, text, nil, kids]    kids only for tp = "Kid"
Occ(e, i) ==
  IF e.tp = "Kid"
  THEN [name |-> e.name, tp |-> "Kid", text |-> "", nil |-> FALSE,
        kids |-> IF i % 2 = 1 THEN << [name |-> "x", tp |-> "int", text |-> "1", nil |-> FALSE, kids |-> <<>>] >>
                 ELSE << [name |-> "x", tp |-> "int", text |-> "2", nil |-> FALSE, kids |-> <<>>],
                         [name |-> "y", tp |-> "string", text |-> "t", nil |-> FALSE, kids |-> <<>>] >>]
  \* a RECURSIVE content model: the element contains x and, optionally, an element of its own name (DTDs: (x, b?))
  ELSE IF e.tp = "Rec"
  THEN LET leaf == [name |-> e.name, tp |-> "Rec", text |-> "", nil |-> FALSE,
                    kids |-> << [name |-> "x", tp |-> "int", text |-> "3", nil |-> FALSE, kids |-> <<>>] >>]
       IN [name |-> e.name, tp |-> "Rec", text |-> "", nil |-> FALSE,
           kids |-> << [name |-> "x", tp |-> "int", text |-> "1", nil |-> FALSE, kids |-> <<>>] >>
                    \o (IF i % 2 = 1 THEN <<>> ELSE << [leaf EXCEPT !.kids = leaf.kids \o <<leaf>>] >>)]
  ELSE IF e.nillable /\ i % 2 = 0 THEN [name |-> e.name, tp |-> e.tp, text |-> "", nil |-> TRUE, kids |-> <<>>]
  ELSE [name |-> e.name, tp |-> e.tp, text |-> IVal(e.tp, i), nil |-> FALSE, kids |-> <<>>]

\* cartesian concatenation of two sequences of documents
Cross(A, B) == FoldLeft(LAMBDA acc, a : acc \o FoldLeft(LAMBDA acc2, b : Append(acc2, a \o b), <<>>, B), <<>>, A)
RECURSIVE Rounds(_, _)
Rounds(n, D) == IF n = 0 THEN << <<>> >> ELSE Cross(Rounds(n - 1, D), D)

\* documents (sequences of occurrences) a particle admits, as an ordered enumeration
RECURSIVE DocsOf(_)
DocsOf(p) ==
  IF p.k = "el"
  THEN FoldLeft(LAMBDA acc, n : Append(acc, [i \in 1..n |-> Occ(p, i)]), <<>>, RepSeq(p.min, p.max))
  ELSE LET itemDocs == FoldLeft(LAMBDA acc, it : Append(acc, DocsOf(it)), <<>>, p.items)
           oneRound == IF p.k = "choice"
                       THEN FoldLeft(LAMBDA acc, d : acc \o d, <<>>, itemDocs)
                       ELSE FoldLeft(LAMBDA acc, d : Cross(acc, d), << <<>> >>, itemDocs)   \* seq / all in declaration order
       IN FoldLeft(LAMBDA acc, n : acc \o Rounds(n, oneRound), <<>>, RepSeq(p.min, p.max))

\* ---------------------------------------------------------------------------
\* an independent acceptor: does the particle admit the sequence of names?  (Brzozowski style
\* on name sequences; the small repetition bound keeps it finite)
Names(d) == [i \in DOMAIN d |-> d[i].name]
RECURSIVE Matches(_, _)
Matches(p, ns) ==      \* the set of suffixes left after p consumed a prefix of ns (one repetition count each)
  IF p.k = "el"
  THEN {SubSeq(ns, n + 1, Len(ns)) : n \in {m \in Reps(p.min, p.max) : m <= Len(ns) /\ \A j \in 1..m : ns[j] = p.name}}
  ELSE LET once(rest) ==
             IF p.k = "choice" THEN UNION {Matches(p.items[i], rest) : i \in DOMAIN p.items}
             ELSE LET step[i \in 0..Len(p.items)] ==
                        IF i = 0 THEN {rest} ELSE UNION {Matches(p.items[i], r) : r \in step[i - 1]}
                  IN step[Len(p.items)]
           rounds[n \in 0..2] == IF n = 0 THEN {ns} ELSE UNION {once(r) : r \in rounds[n - 1]}
       IN UNION {rounds[n] : n \in Reps(p.min, p.max) \cap 0..2}
Accepts(p, d) == <<>> \in Matches(p, Names(d))

\* ---------------------------------------------------------------------------
\* Where order must be preserved (the statement's second sentence): every group that can repeat
\* is a choice of single elements (and compound fields are enabled), the rest are sequences
\* of single elements that do not repeat as a group.
RECURSIVE GroupsOk(_, _)
GroupsOk(p, compound) ==
  IF p.k = "el" THEN TRUE
  ELSE /\ \A i \in DOMAIN p.items : GroupsOk(p.items[i], compound)
       /\ (p.max > 1 => (p.k = "choice" /\ compound /\ \A i \in DOMAIN p.items : p.items[i].k = "el" /\ p.items[i].max = 1))
       /\ (p.k = "all" => FALSE)
       /\ (p.k = "choice" /\ p.max = 1 => \A i \in DOMAIN p.items : p.items[i].k = "el")
OrderPreserving(p, compound) == GroupsOk(p, compound)
=============================================================================
