SPECIFICATION Spec
CONSTANTS
  WrapperPolicy = "parent"
  MidKinds = {"element", "wrapper"}
  Pfxs = {"p", ""}
INVARIANT PumpsAgree
CHECK_DEADLOCK FALSE
