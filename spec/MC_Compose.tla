------------------------------ MODULE MC_Compose ------------------------------
(* Schemas of Compose.tla assembled slot by slot (so that -simulate can walk the space), then a
   valid document picked by index.  MCOnly stops after the slots that matter to the construction
   invariants so that they are checked exhaustively. *)
EXTENDS Compose, Json

CONSTANTS MaxDocIdx
VARIABLE parts

OccSet == {<<1, 1>>, <<0, 1>>, <<0, U>>, <<1, U>>}
Slots == << 0..3, {"flat", "chain"}, BOOLEAN, {"string", "Base"}, {"same", "Ext"}, OccSet, BOOLEAN,
            {"none", "elem", "elemAbstractBase"},
            {"single", "include", "import", "chameleon", "importSameName"}, {"none", "one", "opt", "many"}, BOOLEAN, BOOLEAN, {"none", "other", "any"}, BOOLEAN, BOOLEAN, 0..MaxDocIdx >>
NSlots == Len(Slots)
NCore == 8

Init == parts = <<>>
Next == Len(parts) < NSlots /\ \E c \in Slots[Len(parts) + 1] : parts' = Append(parts, c)
Spec == Init /\ [][Next]_parts
Complete == Len(parts) = NSlots

Core(p) == [nmem |-> p[1], shape |-> p[2], abstractHead |-> p[3], htype |-> p[4], mtype |-> p[5], occ |-> p[6],
            alsoM1 |-> p[7], ext |-> p[8]]
SchemaAt(p, full) ==
  [nmem |-> p[1], shape |-> p[2], abstractHead |-> p[3], htype |-> p[4], mtype |-> p[5], occ |-> p[6], alsoM1 |-> p[7], ext |-> p[8],
   split |-> IF full THEN p[9] ELSE "single", grp |-> IF full THEN p[10] ELSE "none", agrp |-> IF full THEN p[11] ELSE FALSE,
   rec |-> IF full THEN p[12] ELSE FALSE, wild |-> IF full THEN p[13] ELSE "none", mixed |-> IF full THEN p[14] ELSE FALSE, twins |-> IF full THEN p[15] ELSE FALSE]
SchemaOf == SchemaAt(parts, TRUE)
Doc == DocOf(SchemaOf, parts[NSlots])

MCOnly == Len(parts) <= NCore
AtCore == Len(parts) = NCore
InvFixpointIsWalk == AtCore => FixpointIsWalk(SchemaAt(parts, FALSE))
InvLegalDerivation == AtCore => LegalDerivation(SchemaAt(parts, FALSE))
InvHeadsAccepted == AtCore => \A k \in 0..5 : HeadNamesOk(SchemaAt(parts, FALSE), DocOf(SchemaAt(parts, FALSE), k))
\* a required head reference with nothing concrete to write has no valid document: the
\* construction must not pretend otherwise (the harness skips such schemas)
HasInstance(s) == Writable(s, 0) # <<>> \/ s.occ[1] = 0
InvOccRespected == AtCore => LET s == SchemaAt(parts, FALSE) IN
                     HasInstance(s) => \A k \in 0..5 : LET n == DocOf(s, k).nheads IN
                        (Writable(s, 0) = <<>> /\ n = 0) \/ (n >= s.occ[1] /\ n <= s.occ[2])

Emit == Complete => PrintT(<<"CMP", ToJson([schema |-> SchemaOf, doc |-> Doc, hasInstance |-> HasInstance(SchemaOf),
                                             uniform |-> HeadsUniform(Doc) /\ SchemaOf.grp # "many"])>>)
=============================================================================
