------------------------------- MODULE Compose -------------------------------
(***************************************************************************)
(* The COMPONENT level of XML Schema as a source language (its own          *)
(* semantics, not xsdata code), complementing Schema.tla (which covers      *)
(* content particles): substitution groups (flat and chained, abstract      *)
(* heads), complex type extension with xsi:type (abstract bases), named     *)
(* model groups and attribute groups, recursion, wildcards, and schemas     *)
(* split over files by include (same namespace), import (another one) or a  *)
(* CHAMELEON include (the included file has no target namespace and refers  *)
(* to its own components without a prefix; they land in the including       *)
(* schema's namespace).                                                     *)
(*                                                                         *)
(* A schema is a record of choices (see MC_Compose!SchemaOf); its           *)
(* components are fixed:                                                    *)
(*   type Base   = sequence(x: int) + attribute id: int (optional)          *)
(*   type Ext    = Base extended by sequence(y: string?) + attribute k      *)
(*   element h   : string | Base          (possibly abstract)               *)
(*   element m_i : substitutionGroup = parent(m_i), type as h or Ext        *)
(*   element root: sequence(ref h {occ}, [box(ref m1 ?)], [e: Base],     *)
(*                 [group G], [n: Node], [end, any ?]) + [attributeGroup AG]*)
(*   (the attribute group AG and the model group G carry ONE name, G:      *)
(*    groups and attribute groups live in separate symbol spaces)           *)
(*   group G     = sequence(p: int, q: string?), referenced with an          *)
(*                 occurrence range of its own (1, 0..1, 1..unbounded)       *)
(*   (root may be mixed="true": character data between its children)       *)
(*   type Node   = sequence(v: int, n: Node?)                               *)
(*   [buyer(info(name, email?)), seller(info(code) + @rating)]: two local   *)
(*                 elements of one name with different anonymous types      *)
(* Validity is CONSTRUCTIVE (DocOf builds a valid instance from an index);  *)
(* the substitution relation is defined twice - as a fixpoint (used by the  *)
(* construction) and as a walk up the parent chain (the acceptor) - and TLC *)
(* checks that they agree, that no abstract component is ever instantiated  *)
(* and that every xsi:type names a type derived from the declared one.      *)
(***************************************************************************)
EXTENDS Naturals, Sequences, SequencesExt, FiniteSets, TLC

NONE == "__none__"
U == 9
T == "urn:t"
XSI == "http://www.w3.org/2001/XMLSchema-instance"

\* ---------------------------------------------------------------------------
\* substitution groups
Members(s) == 1..s.nmem
MName(i) == IF i = 0 THEN "h" ELSE <<"m1", "m2", "m3">>[i]
Parent(s, i) == IF i = 0 THEN 0 ELSE IF s.shape = "chain" THEN i - 1 ELSE 0        \* index of the element m_i substitutes

\* fixpoint: everything that may appear where element `head` is referenced
RECURSIVE Closure(_, _)
Closure(s, S) == LET S2 == S \cup {i \in Members(s) : Parent(s, i) \in S} IN IF S2 = S THEN S ELSE Closure(s, S2)
Substitutable(s, head) == Closure(s, {head})
\* acceptor: walk up from the member
RECURSIVE Reaches(_, _, _)
Reaches(s, i, head) == i = head \/ (i # 0 /\ Reaches(s, Parent(s, i), head))

IsAbstractEl(s, i) == i = 0 /\ s.abstractHead
\* what may actually be WRITTEN where `head` is referenced, in a fixed order
Writable(s, head) == SetToSortSeq({i \in Substitutable(s, head) : ~IsAbstractEl(s, i)}, <)

\* ---------------------------------------------------------------------------
\* types
ElType(s, i) == IF s.htype = "string" THEN "string"
                ELSE IF i # 0 /\ s.mtype = "Ext" THEN "Ext" ELSE "Base"
Derives(a, b) == a = b \/ (a = "Ext" /\ b = "Base")
IsAbstractType(s, t) == t = "Base" /\ s.ext = "elemAbstractBase"

\* an element information item
Elem(ns, name, xt, attrs, text, kids) == [ns |-> ns, name |-> name, xsitype |-> xt, attrs |-> attrs, text |-> text, kids |-> kids]
Leaf(ns, name, text) == Elem(ns, name, NONE, <<>>, text, <<>>)

\* the namespace the library components (h, m_i, Base, Ext) live in
\* ("importSameName": as "import", and the importing schema defines a type of its own with the NAME of an imported one)
LibNs(s) == IF s.split \in {"import", "importSameName"} THEN "urn:o" ELSE T

\* content of an element of (actual) type t; `k` varies optional parts
Content(s, t, k) ==
  CASE t = "string" -> [attrs |-> <<>>, text |-> "t", kids |-> <<>>]
    [] t = "Base" -> [attrs |-> IF k % 2 = 1 THEN << [name |-> "id", v |-> "7"] >> ELSE <<>>, text |-> "",
                      kids |-> << Leaf(LibNs(s), "x", "1") >>]
    [] t = "Ext"  -> [attrs |-> (IF k % 2 = 1 THEN << [name |-> "id", v |-> "7"] >> ELSE <<>>) \o << [name |-> "k", v |-> "s" ] >>, text |-> "",
                      kids |-> << Leaf(LibNs(s), "x", "2") >> \o (IF k % 3 = 0 THEN <<>> ELSE << Leaf(LibNs(s), "y", "why") >>)]

\* an instance of global element i of the substitution family
SgElem(s, i, k) ==
  LET t == ElType(s, i)
      \* an element of abstract declared type must say which concrete type it has
      actual == IF IsAbstractType(s, t) THEN "Ext" ELSE t
      c == Content(s, actual, k)
  IN Elem(LibNs(s), MName(i), IF actual # t THEN actual ELSE NONE, c.attrs, c.text, c.kids)

Reps(min, max) == {n \in 0..3 : n >= min /\ n <= max}
RepSeq(min, max) == SetToSortSeq(Reps(min, max), <)

RECURSIVE NodeOf(_)
NodeOf(d) == Elem(T, "n", NONE, <<>>, "", << Leaf(T, "v", "3") >> \o (IF d = 0 THEN <<>> ELSE << NodeOf(d - 1) >>))

\* the k-th valid document of schema s: the children and attributes of <root>
DocOf(s, k) ==
  LET ch == Writable(s, 0)
      reps == RepSeq(IF ch = <<>> THEN 0 ELSE s.occ[1], IF ch = <<>> THEN 0 ELSE s.occ[2])
      n == reps[(k % Len(reps)) + 1]
      heads == [j \in 1..n |-> SgElem(s, ch[((k + j) % Len(ch)) + 1], k + j)]
      c1 == Writable(s, 1)
      \* m1 referenced on its own inside a local element: only what substitutes m1 may appear there
      also == IF s.alsoM1 /\ s.nmem >= 1
              THEN << Elem(T, "box", NONE, <<>>, "", IF k % 2 = 1 THEN << SgElem(s, c1[(k % Len(c1)) + 1], k) >> ELSE <<>>) >> ELSE <<>>
      e == IF s.ext = "none" THEN <<>>
           ELSE LET asExt == s.ext = "elemAbstractBase" \/ k % 2 = 0
                    c == Content(s, IF asExt THEN "Ext" ELSE "Base", k)
                IN << Elem(T, "e", IF asExt THEN "Ext" ELSE NONE, c.attrs, c.text, c.kids) >>
      \* the group reference carries its own occurrence range: one / optional / repeating
      G(j) == << Leaf(T, "p", "4") >> \o (IF j % 3 = 1 THEN << Leaf(T, "q", "cue") >> ELSE <<>>)
      g == CASE s.grp = "none" -> <<>>
             [] s.grp = "one"  -> G(k)
             [] s.grp = "opt"  -> IF k % 2 = 0 THEN <<>> ELSE G(k)
             [] s.grp = "many" -> G(k) \o (IF k % 3 = 2 THEN G(k + 2) ELSE <<>>)
      r == IF s.rec THEN << NodeOf(k % 3) >> ELSE <<>>
      w == IF s.wild = "none" THEN <<>>
           ELSE << Leaf(T, "end", "z") >> \o
                (IF k % 2 = 0 THEN <<>> ELSE << Elem("urn:f", "w", NONE, << [name |-> "z", v |-> "9"] >>, "", << Leaf("urn:f", "i", "in") >>) >>)
      attrs == IF s.agrp THEN << [name |-> "a1", v |-> "5"] >> \o (IF k % 2 = 0 THEN << [name |-> "a2", v |-> "two"] >> ELSE <<>>) ELSE <<>>
      \* the importing schema's own type called Base (content: one element z), next to the library's Base
      own == IF s.split = "importSameName" THEN << Elem(T, "own", NONE, <<>>, "", << Leaf(T, "z", "zed") >>) >> ELSE <<>>
      \* two sibling local elements, each declaring a local element of the SAME name (info) with a DIFFERENT anonymous type
      tw == IF s.twins
            THEN << Elem(T, "buyer", NONE, <<>>, "", << Elem(T, "info", NONE, <<>>, "", << Leaf(T, "name", "al") >> \o (IF k % 2 = 0 THEN << Leaf(T, "email", "a@b") >> ELSE <<>>)) >>),
                    Elem(T, "seller", NONE, <<>>, "", << Elem(T, "info", NONE, << [name |-> "rating", v |-> "4.5"] >>, "", << Leaf(T, "code", "42") >>) >>) >>
            ELSE <<>>
      kids == heads \o also \o own \o e \o tw \o g \o r \o w
      \* mixed content (complexType mixed="true"): character data before, between and after the children;
      \* texts[j] precedes child j, texts[Len(kids) + 1] follows the last child ("" = no text there)
      texts == [j \in 1..(Len(kids) + 1) |-> IF s.mixed /\ (j + k) % 2 = 0 THEN <<"tx", "ty", "tz">>[(j % 3) + 1] ELSE ""]
  IN [kids |-> kids, attrs |-> attrs, nheads |-> n, texts |-> texts]

\* ---------------------------------------------------------------------------
\* properties of the construction (checked by TLC on every schema of the universe)
FixpointIsWalk(s) == \A head \in 0..s.nmem : Substitutable(s, head) = {i \in 0..s.nmem : Reaches(s, i, head)}
\* legal schema: a member's type derives from the type of the element it substitutes
LegalDerivation(s) == \A i \in Members(s) : Derives(ElType(s, i), ElType(s, Parent(s, i)))
\* document-level acceptor for the head positions
HeadNamesOk(s, d) == \A j \in 1..d.nheads :
                        \E i \in 0..s.nmem : /\ d.kids[j].name = MName(i) /\ Reaches(s, i, 0) /\ ~IsAbstractEl(s, i)
                                            /\ (d.kids[j].xsitype # NONE => Derives(d.kids[j].xsitype, ElType(s, i)))
                                            /\ (IsAbstractType(s, ElType(s, i)) => d.kids[j].xsitype = "Ext")
\* the order of different names among the repeated head positions is the only place where
\* a generator without compound fields may legitimately regroup
HeadsUniform(d) == \A a, b \in 1..d.nheads : d.kids[a].name = d.kids[b].name
=============================================================================
