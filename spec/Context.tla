------------------------------ MODULE Context ------------------------------
(***************************************************************************)
(* formats/dataclass/context.py  XmlContext: the two caches (`cache`: class *)
(* -> binding metadata, `xsi_cache`: xsi:type qname -> classes) and         *)
(* `sys_modules`, the operations on them as the parsers and serializers use *)
(* them, and the same operations cut into the steps at which CPython can    *)
(* switch threads between two accesses to the shared state.                 *)
(*                                                                         *)
(* Sequential semantics (C14, histories):  SeqStep(s, op).                  *)
(* Threaded semantics (C19, schedules):    TStep(s, t)  - one micro-step of *)
(* thread t; every micro-step is "perform the next access to shared state   *)
(* and run on, privately, to just before the following one".                *)
(***************************************************************************)
EXTENDS Naturals, Sequences, SequencesExt, FiniteSets, TLC

CONSTANTS
  Classes,      \* Seq of [id, ownNs, target, base, module, broken]
  QNs,          \* the xsi:type qualified names that can be looked up
  XsiPolicy,    \* "inplace" (as shipped: clear + refill the shared index, publish
                \*  sys_modules last) | "publish" (fill a private index, publish it
                \*  with one assignment)
  CachePolicy,  \* "class" (as shipped: metadata cached per class) |
                \* "class_ns" (per class and inherited namespace)
  Vars,         \* Seq of [ns |-> Seq([k, u])]: wildcard fields and the namespaces they accept:
                \* k = "uri" (u a uri, "" = no namespace) | "any" (##any) | "not" ("!u": ##other)
  MemoPolicy    \* key of XmlVar.namespace_matches: "qname" (as shipped) | "local"

NONE == "__none__"
CIds == 1..Len(Classes)
Visible(loaded) == {c \in CIds : Classes[c].module <= loaded}

\* ---------------------------------------------------------------------------
\* what a lone, fresh context answers (the oracle: written from the documentation of
\* find_types / fetch, independent of any cache)
Meta(c, pns) == [cls |-> c, ns |-> IF Classes[c].ownNs # NONE THEN Classes[c].ownNs ELSE pns]

TypesOf(q, loaded) == SelectSeq([i \in CIds |-> i], LAMBDA c : c \in Visible(loaded) /\ Classes[c].target = q)

RECURSIVE Ancestors(_)
Ancestors(c) == IF Classes[c].base = 0 THEN {c} ELSE {c} \cup Ancestors(Classes[c].base)
IsSubclass(c, tp) == tp \in Ancestors(c)

\* find_subclass(clazz, qname): first candidate that is not an ancestor-or-self of clazz
\* and shares an ancestor with it
FirstMatch(types, c) ==
  LET ok == SelectSeq(types, LAMBDA tp : ~IsSubclass(c, tp) /\ Ancestors(tp) \cap Ancestors(c) # {})
  IN IF ok = <<>> THEN 0 ELSE ok[1]

\* ---------------------------------------------------------------------------
\* shared state of one XmlContext (plus the interpreter's module count)
\*   cache    : function key -> meta | absent; key = class (or <<class, pns>>)
\*   xsi      : function QNs -> Seq(class);   keys: set of qnames present in the dict
\*   sysMods  : self.sys_modules
\*   loaded   : len(sys.modules)
CKey(c, pns) == IF CachePolicy = "class_ns" /\ Classes[c].ownNs = NONE THEN <<c, pns>> ELSE <<c, NONE>>

FreshState(loaded) ==
  [cache |-> <<>>, xsi |-> [q \in QNs |-> <<>>], keys |-> {}, sysMods |-> 0, loaded |-> loaded,
   memo |-> <<>>]

\* XmlVar._match_namespace(qname) for wildcard field v;  qn = <<uri, local>>, uri "" = none
MatchNs(v, qn) ==
  LET nss == Vars[v].ns  uri == qn[1]
  IN IF nss = <<>> /\ uri = "" THEN TRUE
     ELSE \E i \in DOMAIN nss :
            LET chk == nss[i]
            IN \/ (chk.k = "uri" /\ chk.u = uri)
               \/ chk.k = "any"
               \/ (chk.k = "not" /\ chk.u # uri)

CacheHas(s, k) == \E i \in DOMAIN s.cache : s.cache[i][1] = k
CacheGet(s, k) == s.cache[CHOOSE i \in DOMAIN s.cache : s.cache[i][1] = k][2]
CachePut(s, k, m) == IF CacheHas(s, k) THEN s ELSE [s EXCEPT !.cache = Append(s.cache, <<k, m>>)]

FullIndex(loaded) == [q \in QNs |-> TypesOf(q, loaded)]
IndexKeys(loaded) == {q \in QNs : TypesOf(q, loaded) # <<>>}

\* -- sequential operations ---------------------------------------------------
\* build(clazz, parent_ns)
SeqBuild(s, c, pns) ==
  IF Classes[c].broken THEN [s |-> s, r |-> [err |-> "XmlContextError"]]
  ELSE LET k == CKey(c, pns)
           s1 == CachePut(s, k, Meta(c, pns))
       IN [s |-> s1, r |-> CacheGet(s1, k)]

\* build_xsi_cache()
SeqIndex(s) ==
  IF s.loaded = s.sysMods THEN s
  ELSE [s EXCEPT !.xsi = FullIndex(s.loaded), !.keys = IndexKeys(s.loaded), !.sysMods = s.loaded]

\* find_types(qname)
SeqFindTypes(s, q) ==
  LET s1 == SeqIndex(s) IN [s |-> s1, r |-> [types |-> IF q \in s1.keys THEN s1.xsi[q] ELSE <<>>]]

\* fetch(clazz, parent_ns, xsi_type)
SeqFetch(s, c, pns, xsi) ==
  LET b == SeqBuild(s, c, pns)
  IN IF "err" \in DOMAIN b.r THEN b
     ELSE IF xsi = NONE \/ Classes[c].target = xsi THEN b
     ELSE LET f   == SeqFindTypes(b.s, xsi)
              sub == FirstMatch(f.r.types, c)
          IN IF sub = 0 THEN [s |-> f.s, r |-> b.r] ELSE SeqBuild(f.s, sub, pns)

\* XmlVar.match_namespace(qname): memoised per field (the field metadata lives in the
\* XmlMeta cached by the context, so the memo is context state)
MemoKey(v, qn) == IF MemoPolicy = "local" THEN <<v, qn[2]>> ELSE <<v, qn>>
SeqMatch(s, v, qn) ==
  LET k == MemoKey(v, qn)
      hit == \E i \in DOMAIN s.memo : s.memo[i][1] = k
  IN IF hit THEN [s |-> s, r |-> [match |-> s.memo[CHOOSE i \in DOMAIN s.memo : s.memo[i][1] = k][2]]]
     ELSE [s |-> [s EXCEPT !.memo = Append(s.memo, <<k, MatchNs(v, qn)>>)], r |-> [match |-> MatchNs(v, qn)]]

\* reset()
SeqReset(s) == [s EXCEPT !.cache = <<>>, !.xsi = [q \in QNs |-> <<>>], !.keys = {}, !.sysMods = 0,
                          !.memo = <<>>]

\* importing one more module (the environment)
SeqImport(s) == [s EXCEPT !.loaded = s.loaded + 1]

\* op records: [op |-> "build", c, pns] [op |-> "fetch", c, pns, xsi] [op |-> "find", q]
\*             [op |-> "index"]  (build_xsi_cache alone, as find_type_by_fields calls it)
\*             [op |-> "trybuild", c, pns]  (local_names_match: build, errors swallowed)
\*             [op |-> "reset"] [op |-> "import"]
SeqStep(s, o) ==
  CASE o.op = "build"  -> SeqBuild(s, o.c, o.pns)
    [] o.op = "fetch"  -> SeqFetch(s, o.c, o.pns, o.xsi)
    [] o.op = "find"   -> SeqFindTypes(s, o.q)
    [] o.op = "match"  -> SeqMatch(s, o.v, o.qn)
    [] o.op = "index"  -> [s |-> SeqIndex(s), r |-> [ok |-> TRUE]]
    [] o.op = "trybuild" -> [s |-> SeqBuild(s, o.c, o.pns).s, r |-> [ok |-> TRUE]]
    [] o.op = "reset"  -> [s |-> SeqReset(s), r |-> [ok |-> TRUE]]
    [] o.op = "import" -> [s |-> SeqImport(s), r |-> [ok |-> TRUE]]

\* C14 on this module: the answer of an operation does not depend on the history
HistoryIndependent(s, o) == SeqStep(s, o).r = SeqStep(FreshState(s.loaded), o).r

\* ---------------------------------------------------------------------------
\* threads.  A thread record:
\*   prog : Seq(op)      what it will do (ops "build" and "find")
\*   k    : index of the current op (Len+1 = finished)
\*   pc   : label of the NEXT shared access
\*   i    : fill position;  loc : private index under construction (publish policy)
\*   res  : Seq of results so far
TInitThread(prog) ==
  [prog |-> prog, k |-> 1, pc |-> "begin", i |-> 0, loc |-> <<>>, lkeys |-> {}, res |-> <<>>]

CurOp(th) == th.prog[th.k]
Finished(th) == th.k > Len(th.prog)

Finish(th, r) == [th EXCEPT !.k = th.k + 1, !.pc = "begin", !.res = Append(th.res, r), !.i = 0]

\* first label of an op
Begin(th) ==
  IF CurOp(th).op = "build" THEN [th EXCEPT !.pc = "b_check"] ELSE [th EXCEPT !.pc = "x_check"]

NextFill(from, loaded) ==
  \* next class index >= from that build_xsi_cache appends (visible, has a target qname)
  LET cands == {c \in CIds : c >= from /\ c \in Visible(loaded) /\ Classes[c].target # NONE}
  IN IF cands = {} THEN 0 ELSE CHOOSE c \in cands : \A d \in cands : c <= d

\* one micro-step of thread record th on shared state s: returns [s, th]
TStep(s, th0) ==
  LET th == IF th0.pc = "begin" THEN Begin(th0) ELSE th0
      o  == CurOp(th)
  IN
  CASE th.pc = "b_check" ->          \* if clazz not in self.cache
         IF Classes[o.c].broken THEN [s |-> s, th |-> Finish(th, [err |-> "XmlContextError"])]
         ELSE IF CacheHas(s, CKey(o.c, o.pns)) THEN [s |-> s, th |-> [th EXCEPT !.pc = "b_read"]]
         ELSE [s |-> s, th |-> [th EXCEPT !.pc = "b_store"]]
    [] th.pc = "b_store" ->          \* self.cache[clazz] = builder.build(...)
         [s |-> [s EXCEPT !.cache = IF CacheHas(s, CKey(o.c, o.pns))
                                     THEN SelectSeq(s.cache, LAMBDA e : e[1] # CKey(o.c, o.pns)) \o
                                          << <<CKey(o.c, o.pns), Meta(o.c, o.pns)>> >>
                                     ELSE Append(s.cache, <<CKey(o.c, o.pns), Meta(o.c, o.pns)>>)],
          th |-> [th EXCEPT !.pc = "b_read"]]
    [] th.pc = "b_read" ->           \* return self.cache[clazz]
         [s |-> s, th |-> Finish(th, CacheGet(s, CKey(o.c, o.pns)))]
    [] th.pc = "x_check" ->          \* if len(sys.modules) == self.sys_modules: return
         IF s.loaded = s.sysMods
         THEN IF o.op = "index" THEN [s |-> s, th |-> Finish(th, [ok |-> TRUE])]
              ELSE [s |-> s, th |-> [th EXCEPT !.pc = "x_lookup"]]
         ELSE IF XsiPolicy = "inplace" THEN [s |-> s, th |-> [th EXCEPT !.pc = "x_clear"]]
         ELSE [s |-> s, th |-> [th EXCEPT !.pc = "x_publish",
                                          !.loc = FullIndex(s.loaded), !.lkeys = IndexKeys(s.loaded)]]
    [] th.pc = "x_clear" ->          \* self.xsi_cache.clear()
         [s |-> [s EXCEPT !.xsi = [q \in QNs |-> <<>>], !.keys = {}],
          th |-> [th EXCEPT !.i = NextFill(1, s.loaded),
                            !.pc = IF NextFill(1, s.loaded) = 0 THEN "x_store" ELSE "x_fill"]]
    [] th.pc = "x_fill" ->           \* self.xsi_cache[meta.target_qname].append(clazz)
         LET c == th.i  q == Classes[c].target  n == NextFill(c + 1, s.loaded)
         IN [s |-> IF q \in QNs THEN [s EXCEPT !.xsi[q] = Append(s.xsi[q], c), !.keys = s.keys \cup {q}] ELSE s,
             th |-> [th EXCEPT !.i = n, !.pc = IF n = 0 THEN "x_store" ELSE "x_fill"]]
    [] th.pc = "x_publish" ->        \* self.xsi_cache = cache     (repaired design)
         [s |-> [s EXCEPT !.xsi = th.loc, !.keys = th.lkeys], th |-> [th EXCEPT !.pc = "x_store"]]
    [] th.pc = "x_store" ->          \* self.sys_modules = len(sys.modules)
         [s |-> [s EXCEPT !.sysMods = s.loaded],
          th |-> IF o.op = "index" THEN Finish(th, [ok |-> TRUE]) ELSE [th EXCEPT !.pc = "x_lookup"]]
    [] th.pc = "x_lookup" ->         \* if qname in self.xsi_cache
         IF o.q \in s.keys THEN [s |-> s, th |-> [th EXCEPT !.pc = "x_read"]]
         ELSE [s |-> s, th |-> Finish(th, [types |-> <<>>])]
    [] th.pc = "x_read" ->           \* return self.xsi_cache[qname]   (defaultdict: a missing
                                     \*  key is created with an empty list)
         [s |-> IF o.q \in s.keys THEN s ELSE [s EXCEPT !.keys = s.keys \cup {o.q}],
          th |-> Finish(th, [types |-> s.xsi[o.q]])]

\* what callers make of a find_types result: the set of classes and the last one
Norm(r) == IF "types" \in DOMAIN r
           THEN [set |-> {r.types[i] : i \in DOMAIN r.types},
                 last |-> IF r.types = <<>> THEN 0 ELSE r.types[Len(r.types)]]
           ELSE r

AloneResult(o, loaded) == SeqStep(FreshState(loaded), o).r

=============================================================================
