------------------------------- MODULE Naming -------------------------------
(***************************************************************************)
(* utils/text.py (classify, split_words, the case conversions, alnum) and   *)
(* formats/dataclass/filters.py Filters.safe_name, transcribed over names   *)
(* that are sequences of one-character strings from a small alphabet of     *)
(* character classes with concrete representatives.  The property at this   *)
(* level: for every source name and every naming convention safe_name       *)
(* terminates and returns a Python identifier that is not a reserved word.  *)
(***************************************************************************)
EXTENDS Naturals, Sequences, SequencesExt, FiniteSets, TLC

\* ASCII letters that occur in the alphabet of the exploration and in the generator's safe prefixes
Lowers == <<"a", "c", "l", "s", "i", "n", "t", "y", "p", "e", "v", "u", "m", "o", "d", "k", "g">>
Uppers == <<"A", "C", "L", "S", "I", "N", "T", "Y", "P", "E", "V", "U", "M", "O", "D", "K", "G">>
LowerS == {Lowers[i] : i \in DOMAIN Lowers}
UpperS == {Uppers[i] : i \in DOMAIN Uppers}
DigitS == {"1", "0"}
Up(c) == IF c \in LowerS THEN Uppers[CHOOSE i \in DOMAIN Lowers : Lowers[i] = c] ELSE c
Lo(c) == IF c \in UpperS THEN Lowers[CHOOSE i \in DOMAIN Uppers : Uppers[i] = c] ELSE c
\* classify(): ASCII upper / lower / digit, everything else OTHER (incl. non-ASCII letters)
Classify(c) == IF c \in UpperS THEN "U" ELSE IF c \in LowerS THEN "L" ELSE IF c \in DigitS THEN "N" ELSE "O"
IsLetter(c) == c \in LowerS \cup UpperS \cup {"é"}     \* what str.title / str.isidentifier call a letter

\* split_words(value)
SplitWords(v) ==
  LET step(st, c) ==
        LET tp == Classify(c)
        IN IF tp = "O" THEN [words |-> IF st.buf = <<>> THEN st.words ELSE Append(st.words, st.buf), buf |-> <<>>, prev |-> tp]
           ELSE IF st.prev = "" \/ tp = st.prev THEN [st EXCEPT !.buf = Append(st.buf, c), !.prev = tp]
           ELSE IF tp = "U" /\ st.prev # "U"
                THEN [words |-> IF st.buf = <<>> THEN st.words ELSE Append(st.words, st.buf), buf |-> <<c>>, prev |-> tp]
           ELSE [st EXCEPT !.buf = Append(st.buf, c), !.prev = tp]
      fin == FoldLeft(step, [words |-> <<>>, buf |-> <<>>, prev |-> ""], v)
  IN IF fin.buf = <<>> THEN fin.words ELSE Append(fin.words, fin.buf)

\* str.title() / str.lower() / str.upper() on a word
Title(w) == [i \in DOMAIN w |-> IF i = 1 \/ ~IsLetter(w[i - 1]) THEN Up(w[i]) ELSE Lo(w[i])]
Lower(w) == [i \in DOMAIN w |-> Lo(w[i])]
Upper(w) == [i \in DOMAIN w |-> Up(w[i])]
Flat(ws) == FoldLeft(LAMBDA acc, w : acc \o w, <<>>, ws)
JoinU(ws) == FoldLeft(LAMBDA acc, w : IF acc = <<>> THEN w ELSE acc \o <<"_">> \o w, <<>>, ws)
Map(ws, F(_)) == FoldLeft(LAMBDA acc, w : Append(acc, F(w)), <<>>, ws)

PascalCase(v) == Flat(Map(SplitWords(v), Title))
CamelCase(v)  == LET r == PascalCase(v) IN IF r = <<>> THEN r ELSE <<Lo(r[1])>> \o Tail(r)      \* r[0].lower(): IndexError on ""
SnakeCase(v)  == JoinU(Map(SplitWords(v), Lower))
ScreamingSnakeCase(v) == Upper(SnakeCase(v))
MixedCase(v)  == Flat(SplitWords(v))
MixedSnakeCase(v) == JoinU(SplitWords(v))
\* original_case: drop non-word characters, then leading characters that are not [a-zA-Z_]
IsWordChar(c) == c \in LowerS \cup UpperS \cup DigitS \cup {"_", "é"}
RECURSIVE DropLead(_)
DropLead(s) == IF s # <<>> /\ s[1] \notin LowerS \cup UpperS \cup {"_"} THEN DropLead(Tail(s)) ELSE s
OriginalCase(v) == DropLead(SelectSeq(v, IsWordChar))

Convert(conv, v) ==
  CASE conv = "pascal" -> PascalCase(v) [] conv = "camel" -> CamelCase(v) [] conv = "snake" -> SnakeCase(v)
    [] conv = "screaming" -> ScreamingSnakeCase(v) [] conv = "mixed" -> MixedCase(v) [] conv = "mixedSnake" -> MixedSnakeCase(v)
    [] conv = "original" -> OriginalCase(v)

\* text.alnum: ASCII letters and digits, lower-cased
Alnum(v) == Lower(SelectSeq(v, LAMBDA c : c \in LowerS \cup UpperS \cup DigitS))

Reserved == { <<"a", "s">>, <<"c", "l", "a", "s", "s">>, <<"i", "n">>, <<"i", "s">>, <<"i", "n", "t">>, <<"l", "i", "s", "t">>, <<>> }

IsNegNumber(v) ==    \* re.match(r"^-\d*\.?\d+$", name)
  /\ v # <<>> /\ v[1] = "-" /\ Len(v) >= 2 /\ v[Len(v)] \in DigitS
  /\ \A i \in 2..Len(v) : v[i] \in DigitS \cup {"."}
  /\ Cardinality({i \in 2..Len(v) : v[i] = "."}) <= 1

\* safe_name(name, prefix, name_case), with an explicit recursion budget
RECURSIVE SafeName(_, _, _, _)
SafeName(name, prefix, conv, fuel) ==
  IF fuel = 0 THEN [ok |-> FALSE, v |-> name, depth |-> 0]
  ELSE IF name = <<>> THEN SafeName(prefix, prefix, conv, fuel - 1)
  ELSE IF IsNegNumber(name) THEN SafeName(prefix \o <<"_", "m", "i", "n", "u", "s", "_">> \o name, prefix, conv, fuel - 1)
  ELSE LET slug == Alnum(name)
       IN IF slug = <<>> \/ slug[1] \in DigitS THEN SafeName(prefix \o <<"_">> \o name, prefix, conv, fuel - 1)
          ELSE LET r == Convert(conv, name)
               IN IF r \in Reserved THEN SafeName(name \o <<"_">> \o prefix, prefix, conv, fuel - 1)
                  ELSE [ok |-> TRUE, v |-> r, depth |-> fuel]

IsIdentifier(v) == v # <<>> /\ (IsLetter(v[1]) \/ v[1] = "_") /\ \A i \in DOMAIN v : IsLetter(v[i]) \/ v[i] \in DigitS \/ v[i] = "_"
=============================================================================
