------------------------------ MODULE Lexical ------------------------------
(***************************************************************************)
(* formats/converter.py against the lexical spaces of XML Schema Part 2:    *)
(* boolean, integer, decimal, float/double, hexBinary, base64Binary, QName. *)
(* Text is a sequence of one-character strings (as in DateTime).            *)
(*                                                                         *)
(*   X<type>(s)   the XSD reference: [ok, ...value in structured form]      *)
(*   SortTypes    ConverterFactory.sort_types (the documented priority)     *)
(*   QResolve / QSerialize  QNameConverter.resolve / serialize (transcribed)*)
(*                                                                         *)
(* Numbers are kept structured - [neg, digits (Seq of chars, no sign),      *)
(* scale (digits after the point), exp (decimal exponent)] - so that no     *)
(* floating point and no big integers are needed in TLC; the harness turns  *)
(* them into exact fractions.                                               *)
(***************************************************************************)
EXTENDS DateTime

WS == {" ", "\t", "\n", "\r"}
\* whiteSpace = collapse for everything but string: strip XML whitespace
XStrip(s) == Strip(s)

XBad5 == [ok |-> FALSE]

\* boolean ::= 'true' | 'false' | '1' | '0'
XBoolean(s0) ==
  LET s == XStrip(s0)
  IN IF s = <<"t", "r", "u", "e">> \/ s = <<"1">> THEN [ok |-> TRUE, b |-> TRUE]
     ELSE IF s = <<"f", "a", "l", "s", "e">> \/ s = <<"0">> THEN [ok |-> TRUE, b |-> FALSE]
     ELSE XBad5

HasSign(s) == s # <<>> /\ s[1] \in {"+", "-"}
Unsigned(s) == IF HasSign(s) THEN Tail(s) ELSE s

\* integer ::= [+-]? digit+
XInteger(s0) ==
  LET s == XStrip(s0)  u == Unsigned(s)
  IN IF u # <<>> /\ AllDigits(u) THEN [ok |-> TRUE, neg |-> (s[1] = "-"), digits |-> u, scale |-> 0, exp |-> 0] ELSE XBad5

\* decimal ::= [+-]? (digit+ ('.' digit*)? | '.' digit+)
SplitAt(s, c) == IF \E k \in DOMAIN s : s[k] = c
                 THEN LET k == CHOOSE j \in DOMAIN s : s[j] = c /\ \A i \in 1..(j - 1) : s[i] # c
                      IN <<SubSeq(s, 1, k - 1), SubSeq(s, k + 1, Len(s)), TRUE>>
                 ELSE <<s, <<>>, FALSE>>
DecimalBody(u) ==      \* unsigned decimal numeral -> [ok, digits, scale]
  LET p == SplitAt(u, ".")
  IN IF AllDigits(p[1]) /\ AllDigits(p[2]) /\ (p[1] # <<>> \/ p[2] # <<>>) /\ (p[1] # <<>> \/ p[3])
        /\ ~(p[1] = <<>> /\ p[2] = <<>>)
     THEN [ok |-> TRUE, digits |-> p[1] \o p[2], scale |-> Len(p[2])] ELSE [ok |-> FALSE, digits |-> <<>>, scale |-> 0]
XDecimal(s0) ==
  LET s == XStrip(s0)  b == DecimalBody(Unsigned(s))
  IN IF s # <<>> /\ b.ok THEN [ok |-> TRUE, neg |-> (s[1] = "-"), digits |-> b.digits, scale |-> b.scale, exp |-> 0] ELSE XBad5

\* float / double ::= decimal numeral ([eE] integer)? | 'INF' | '+INF' | '-INF' | 'NaN'
XFloat(s0) ==
  LET s == XStrip(s0)
  IN IF s = <<"N", "a", "N">> THEN [ok |-> TRUE, special |-> "nan"]
     ELSE IF s = <<"I", "N", "F">> \/ s = <<"+", "I", "N", "F">> THEN [ok |-> TRUE, special |-> "inf"]
     ELSE IF s = <<"-", "I", "N", "F">> THEN [ok |-> TRUE, special |-> "-inf"]
     ELSE LET hasE == \E k \in DOMAIN s : s[k] \in {"e", "E"}
              parts == IF \E k \in DOMAIN s : s[k] = "e" THEN SplitAt(s, "e") ELSE SplitAt(s, "E")
              m == DecimalBody(Unsigned(parts[1]))
              e == IF hasE THEN PyInt(parts[2]) ELSE [ok |-> TRUE, v |-> 0]
              eOk == ~hasE \/ (parts[2] # <<>> /\ AllDigits(Unsigned(parts[2])) /\ Unsigned(parts[2]) # <<>>)
          IN IF s # <<>> /\ m.ok /\ eOk /\ e.v < 400 /\ e.v > 0 - 400
             THEN [ok |-> TRUE, special |-> "no", neg |-> (s[1] = "-"), digits |-> m.digits, scale |-> m.scale, exp |-> e.v]
             ELSE XBad5

\* hexBinary ::= (hexDigit hexDigit)*
HexDigits == Digits \cup {"a", "b", "c", "d", "e", "f", "A", "B", "C", "D", "E", "F"}
XHex(s0) ==
  LET s == XStrip(s0)
  IN IF Len(s) % 2 = 0 /\ \A k \in DOMAIN s : s[k] \in HexDigits THEN [ok |-> TRUE, hex |-> s] ELSE XBad5

\* base64Binary: quartets of the alphabet, '=' padding, whitespace allowed between characters
B64 == Digits \cup {"A", "B", "C", "D", "E", "F", "G", "H", "I", "J", "K", "L", "M", "N", "O", "P", "Q", "R", "S", "T", "U", "V", "W", "X", "Y", "Z",
                    "a", "b", "c", "d", "e", "f", "g", "h", "i", "j", "k", "l", "m", "n", "o", "p", "q", "r", "s", "t", "u", "v", "w", "x", "y", "z", "+", "/"}
XBase64(s0) ==
  LET s == SelectSeq(s0, LAMBDA c : c \notin WS)
      n == Len(s)
      pad == IF n >= 2 /\ s[n] = "=" /\ s[n - 1] = "=" THEN 2 ELSE IF n >= 1 /\ s[n] = "=" THEN 1 ELSE 0
  IN IF n % 4 = 0 /\ \A k \in 1..(n - pad) : s[k] \in B64 THEN [ok |-> TRUE, b64 |-> s] ELSE XBad5

\* ---------------------------------------------------------------------------
\* sort_types: int, bool, float, Decimal, ..., QName, str  (unknown types first)
Rank(t) == CASE t = "int" -> 1 [] t = "bool" -> 2 [] t = "float" -> 3 [] t = "Decimal" -> 4
             [] t = "XmlDate" -> 9 [] t = "QName" -> 13 [] t = "str" -> 14 [] OTHER -> 0
SortTypes(ts) == SortSeq(ts, LAMBDA a, b : Rank(a) < Rank(b))

\* membership of a literal in the XSD lexical space of the datatype a python type maps to
InSpace(t, s) ==
  CASE t = "int" -> XInteger(s).ok [] t = "bool" -> XBoolean(s).ok [] t = "float" -> XFloat(s).ok
    [] t = "Decimal" -> XDecimal(s).ok [] t = "XmlDate" -> XDate(XStrip(s)).ok
    [] t = "QName" -> FALSE [] t = "str" -> TRUE

\* the documented outcome for a list of candidate types: the first type, in priority order,
\* whose lexical space contains the literal
Winner(ts, s) ==
  LET st == SortTypes(ts)
      ok == SelectSeq(st, LAMBDA t : InSpace(t, s))
  IN IF ok = <<>> THEN "none" ELSE ok[1]

\* ---------------------------------------------------------------------------
\* QNameConverter.  ns maps are ordered Seq(<<prefix, uri>>), "" = the default namespace
MHas(m, k) == \E i \in DOMAIN m : m[i][1] = k
MGet(m, k) == m[CHOOSE i \in DOMAIN m : m[i][1] = k][2]
IsNCName(l) == l # <<>> /\ ~IsDigit(l[1]) /\ l[1] \notin {"-", "."} /\ \A k \in DOMAIN l : l[k] \notin {":", " ", "{", "}"}

\* resolve(value, ns_map): [ok, uri, local]  (prefix:local or local; the default namespace applies)
QResolve(s0, m) ==
  LET s == XStrip(s0)  p == SplitAt(s, ":")
  IN IF s = <<>> THEN XBad5
     ELSE IF p[3]
     THEN (IF p[1] # <<>> /\ MHas(m, p[1]) /\ MGet(m, p[1]) # <<>> /\ IsNCName(p[2])
           THEN [ok |-> TRUE, uri |-> MGet(m, p[1]), local |-> p[2]] ELSE XBad5)
     ELSE (IF IsNCName(s) THEN [ok |-> TRUE, uri |-> IF MHas(m, <<>>) THEN MGet(m, <<>>) ELSE <<>>, local |-> s] ELSE XBad5)
=============================================================================
