----------------------------- MODULE RoundTrip -----------------------------
(***************************************************************************)
(* The binding semantics of xsdata as the DOCUMENTATION states it           *)
(* (docs/models/classes.md, fields.md, types.md): abstract binding models   *)
(* (classes with documented field metadata only), abstract instances, the   *)
(* document a model and an instance PRESCRIBE, and the instance a document  *)
(* BINDS to.  None of this is derived from the serializer or the parser.    *)
(*                                                                         *)
(* Second part: the parser's node stack (parsers/bases.py NodeParser.start  *)
(* and end, nodes/*.py) as an explicit state machine over the same models,  *)
(* one action per pushed event, with every place where the implementation   *)
(* can fail as an explicit outcome.                                         *)
(***************************************************************************)
EXTENDS Naturals, Sequences, SequencesExt, FiniteSets, TLC

NONE == "__none__"
XSI  == "http://www.w3.org/2001/XMLSchema-instance"
XS   == "http://www.w3.org/2001/XMLSchema"
NoQ  == <<NONE, NONE>>     \* "no qualified name" where a <<uri, local>> pair is expected

\* ---------------------------------------------------------------------------
\* Models.  A model is a record
\*   [ns |-> class namespace | NONE, nillable |-> BOOLEAN, fields |-> Seq(Field),
\*    kidNs |-> namespace of the child class Kid | NONE (inherits the parent's)]
\* with the fixed auxiliary classes
\*   Kid     { v: str element (optional), k: int attribute (optional) }
\*   Base    { x: int element (optional) }   namespace "urn:b"
\*   Derived(Base) { y: str element (optional) }   namespace "urn:b"
\* A Field is
\*   [name, kind  \in {"Element", "Attribute", "Text", "Wildcard", "Attributes"},
\*    tp    \in {"str", "int", "bool", "qname", "kid", "base", "any"},
\*    ns    \in {NONE (inherit / none), "" , a uri},
\*    card  \in {"req", "opt", "list", "tokens"},
\*    nillable, wrapper \in BOOLEAN, seq \in {0, 1}]
\*
\* Values:  [t |-> "none"] | [t |-> "str", s] | [t |-> "int", n] | [t |-> "bool", b]
\*        | [t |-> "qname", uri, local] | [t |-> "list", items]
\*        | [t |-> "kid", v, k] | [t |-> "base", x] | [t |-> "derived", x, y]
\*        | [t |-> "any", name, text, attrs, kids]
VNone == [t |-> "none"]
IsNone(v) == v.t = "none"

BaseNs == "urn:b"

\* effective namespaces (classes.md "namespace", fields.md "namespace")
ElemNs(m, f)   == IF f.ns = NONE THEN (IF m.ns = NONE THEN "" ELSE m.ns) ELSE f.ns
AttrNsOf(f)    == IF f.ns = NONE THEN "" ELSE f.ns
KidNs(m)       == IF m.kidNs = NONE THEN (IF m.ns = NONE THEN "" ELSE m.ns) ELSE m.kidNs
RootName(m)    == <<IF m.ns = NONE THEN "" ELSE m.ns, "Root">>

\* lexical forms of primitive values (types.md)
RECURSIVE NatStr(_)
NatStr(n) == IF n < 10 THEN ToString(n) ELSE NatStr(n \div 10) \o ToString(n % 10)
\* a QName value is kept structured in the prescribed document: [q |-> <<uri, local>>]
Lex(v) ==
  CASE v.t = "str"  -> [s |-> v.s]
    [] v.t = "int"  -> [s |-> IF v.n < 0 THEN "-" \o NatStr(0 - v.n) ELSE NatStr(v.n)]
    [] v.t = "bool" -> [s |-> IF v.b THEN "true" ELSE "false"]
    [] v.t = "qname" -> [q |-> <<v.uri, v.local>>]

\* Documents: element = [name |-> <<uri, local>>, attrs |-> Seq(<<name, atom-seq>>), content |-> Seq(item)]
\*   item = [text |-> atom-seq] | [el |-> element];  an atom-seq is a Seq of Lex results
\*   (one atom per token)
El(name, attrs, content) == [name |-> name, attrs |-> attrs, content |-> content]
TextItem(atoms) == [text |-> atoms]
NilAttr == << <<XSI, "nil">>, << [s |-> "true"] >> >>
TypeAttr(q) == << <<XSI, "type">>, << [q |-> q] >> >>

KidDoc(name, m, v, extra) ==
  El(name,
     extra \o (IF IsNone(v.k) THEN <<>> ELSE << <<<<"", "k">>, <<Lex(v.k)>>>> >>),
     IF IsNone(v.v) THEN <<>> ELSE << [el |-> El(<<KidNs(m), "v">>, <<>>, <<TextItem(<<Lex(v.v)>>)>>)] >>)
BaseDoc(name, v) ==
  El(name,
     IF v.t = "derived" THEN <<TypeAttr(<<BaseNs, "Derived">>)>> ELSE <<>>,
     (IF IsNone(v.x) THEN <<>> ELSE << [el |-> El(<<BaseNs, "x">>, <<>>, <<TextItem(<<Lex(v.x)>>)>>)] >>) \o
     (IF v.t = "derived" /\ ~IsNone(v.y) THEN << [el |-> El(<<BaseNs, "y">>, <<>>, <<TextItem(<<Lex(v.y)>>)>>)] >> ELSE <<>>))
RECURSIVE AnyDoc(_)
AnyDoc(v) ==
  El(v.name, v.attrs,
     \* (a generic element without text has text "": XML cannot tell "" from absent, and ""
     \*  is what the parser builds)
     (IF v.text = "" THEN <<>> ELSE <<TextItem(<<[s |-> v.text]>>)>>) \o
     FoldLeft(LAMBDA acc, k : Append(acc, [el |-> AnyDoc(k)]), <<>>, v.kids))

\* one occurrence of an element field with a non-list value
ElemOcc(m, f, v) ==
  LET name == <<ElemNs(m, f), f.name>>
  IN CASE IsNone(v)        -> El(name, <<NilAttr>>, <<>>)                       \* only when nillable
       [] v.t = "kid"      -> KidDoc(name, m, v, <<>>)
       [] v.t \in {"base", "derived"} -> BaseDoc(name, v)
       [] v.t = "list"     -> El(name, IF v.items = <<>> THEN <<NilAttr>> ELSE <<>>,       \* tokens
                                 IF v.items = <<>> THEN <<>>
                                 ELSE <<TextItem(FoldLeft(LAMBDA acc, x : Append(acc, Lex(x)), <<>>, v.items))>>)
       [] OTHER            -> El(name, IF f.nillable /\ v.t = "str" /\ v.s = "" THEN <<>> ELSE <<>>,
                                 IF v.t = "str" /\ v.s = "" THEN <<>> ELSE <<TextItem(<<Lex(v)>>)>>)

\* all occurrences a field contributes, in order  (fields.md: nillable, tokens, wrapper)
FieldOccs(m, f, v) ==
  LET occs ==
        IF f.kind = "Wildcard"
        THEN (IF IsNone(v) THEN <<>>
              ELSE IF v.t = "list" THEN FoldLeft(LAMBDA acc, x : Append(acc, AnyDoc(x)), <<>>, v.items)
              ELSE <<AnyDoc(v)>>)
        ELSE IF f.card = "list"
        THEN FoldLeft(LAMBDA acc, x : IF IsNone(x) /\ ~f.nillable THEN acc ELSE Append(acc, ElemOcc(m, f, x)), <<>>, v.items)
        ELSE IF f.card = "tokens"
        THEN (IF v.items = <<>> /\ ~f.nillable THEN <<>> ELSE <<ElemOcc(m, f, v)>>)
        ELSE IF IsNone(v) THEN (IF f.nillable THEN <<ElemOcc(m, f, v)>> ELSE <<>>)
        ELSE <<ElemOcc(m, f, v)>>
  IN IF f.wrapper /\ f.kind = "Element"
     THEN \* (the documentation does not say what an empty collection leaves; calibrated to the
          \*  code: the wrapper element is written whenever the field value is not None)
          (IF IsNone(v) /\ ~f.nillable THEN <<>>
           ELSE <<El(<<ElemNs(m, f), "wrap">>, <<>>, FoldLeft(LAMBDA acc, o : Append(acc, [el |-> o]), <<>>, occs))>>)
     ELSE occs

\* fields.md "sequence": fields with the same sequence number are rendered in parallel
RECURSIVE Parallel(_, _)
Parallel(lists, j) ==
  IF \A i \in DOMAIN lists : j > Len(lists[i]) THEN <<>>
  ELSE FoldLeft(LAMBDA acc, l : IF j <= Len(l) THEN Append(acc, l[j]) ELSE acc, <<>>, lists) \o Parallel(lists, j + 1)

ElementFields(m) == SelectSeq([i \in DOMAIN m.fields |-> i], LAMBDA i : m.fields[i].kind \in {"Element", "Wildcard"})
AttrFields(m)    == SelectSeq([i \in DOMAIN m.fields |-> i], LAMBDA i : m.fields[i].kind = "Attribute")

\* element children of the root, in field order, sequence groups interleaved
RECURSIVE ChildOccs(_, _, _)
ChildOccs(m, inst, idxs) ==
  IF idxs = <<>> THEN <<>>
  ELSE LET i == Head(idxs)  f == m.fields[i]
       IN IF f.seq = 0 THEN FieldOccs(m, f, inst[i]) \o ChildOccs(m, inst, Tail(idxs))
          ELSE LET grp  == SelectSeq(idxs, LAMBDA j : m.fields[j].seq = f.seq)
                   rest == SelectSeq(idxs, LAMBDA j : m.fields[j].seq # f.seq)
               IN Parallel(FoldLeft(LAMBDA acc, j : Append(acc, FieldOccs(m, m.fields[j], inst[j])), <<>>, grp), 1)
                  \o ChildOccs(m, inst, rest)

AttrOf(f, v) ==
  IF v.t = "list" THEN FoldLeft(LAMBDA acc, x : Append(acc, Lex(x)), <<>>, v.items) ELSE <<Lex(v)>>

\* Prescribed(model, instance): the document the metadata prescribes.  inst[i] is the value
\* of field i.
Prescribed(m, inst) ==
  LET attrs == FoldLeft(LAMBDA acc, i :
                  LET f == m.fields[i]  v == inst[i]
                  IN IF IsNone(v) \/ (v.t = "list" /\ v.items = <<>>) THEN acc
                     ELSE Append(acc, << <<AttrNsOf(f), f.name>>, AttrOf(f, v) >>),
                  <<>>, AttrFields(m))
      any   == FoldLeft(LAMBDA acc, i : IF m.fields[i].kind = "Attributes" THEN acc \o inst[i].attrs ELSE acc,
                        <<>>, [i \in DOMAIN m.fields |-> i])
      txt   == FoldLeft(LAMBDA acc, i :
                  IF m.fields[i].kind = "Text" /\ ~IsNone(inst[i]) /\ ~(inst[i].t = "str" /\ inst[i].s = "")
                     /\ ~(inst[i].t = "list" /\ inst[i].items = <<>>)
                  THEN Append(acc, TextItem(AttrOf(m.fields[i], inst[i]))) ELSE acc,
                  <<>>, [i \in DOMAIN m.fields |-> i])
      kids  == ChildOccs(m, inst, ElementFields(m))
  IN El(RootName(m), attrs \o any, txt \o FoldLeft(LAMBDA acc, o : Append(acc, [el |-> o]), <<>>, kids))

\* ---------------------------------------------------------------------------
\* The parser's node stack.
\*   node kinds: "element" (a model-bound element), "primitive", "wildcard", "skip", "wrapper"
\*   p = [queue |-> Seq(node), nobj |-> Nat, st |-> "run" | "done" | "err", err |-> kind,
\*        warn |-> Nat]
\*   node = [k, cls \in {"Root","Kid","Base","Derived","-"}, assigned |-> set of field names,
\*           pos |-> Nat, fld |-> field name | "-", wrap |-> wrapper name | "-"]
\* cfg = [unknownProps, unknownAttrs, convWarnings \in BOOLEAN]  (the three fail_on_* options)
PInit == [queue |-> <<>>, nobj |-> 0, st |-> "run", err |-> NONE, warn |-> 0]
Node(k, cls, pos, fld) == [k |-> k, cls |-> cls, assigned |-> {}, pos |-> pos, fld |-> fld, wrap |-> "-"]
PErr(p, kind) == [p EXCEPT !.st = "err", !.err = kind]
Push(p, n) == [p EXCEPT !.queue = Append(p.queue, n)]
TopN(p) == p.queue[Len(p.queue)]

\* element-ish fields of a class as [name |-> <<uri, local>>, f |-> field record]
ClassVars(m, cls) ==
  CASE cls = "Root" -> FoldLeft(LAMBDA acc, i : Append(acc, [name |-> <<ElemNs(m, m.fields[i]), m.fields[i].name>>, f |-> m.fields[i]]),
                                <<>>, ElementFields(m))
    [] cls = "Kid"  -> << [name |-> <<KidNs(m), "v">>, f |-> [name |-> "v", kind |-> "Element", tp |-> "str", ns |-> NONE, card |-> "opt", nillable |-> FALSE, wrapper |-> FALSE, seq |-> 0]] >>
    [] cls = "Base" -> << [name |-> <<BaseNs, "x">>, f |-> [name |-> "x", kind |-> "Element", tp |-> "int", ns |-> NONE, card |-> "opt", nillable |-> FALSE, wrapper |-> FALSE, seq |-> 0]] >>
    [] cls = "Derived" -> << [name |-> <<BaseNs, "x">>, f |-> [name |-> "x", kind |-> "Element", tp |-> "int", ns |-> NONE, card |-> "opt", nillable |-> FALSE, wrapper |-> FALSE, seq |-> 0]],
                             [name |-> <<BaseNs, "y">>, f |-> [name |-> "y", kind |-> "Element", tp |-> "str", ns |-> NONE, card |-> "opt", nillable |-> FALSE, wrapper |-> FALSE, seq |-> 0]] >>
    [] OTHER -> <<>>

Wrappers(m, cls) ==
  IF cls # "Root" THEN {}
  ELSE {<<ElemNs(m, m.fields[i]), "wrap">> : i \in {j \in DOMAIN m.fields : m.fields[j].kind = "Element" /\ m.fields[j].wrapper}}

\* XmlVar.match_namespace for a wildcard (##any here)
WildMatches(f, qname) == TRUE

\* ElementNode.child(qname, ..., wrapper): first matching var that may still take a value
ChildOf(p, m, cfg, top, qname, xsiType, xsiNil, wrapper) ==
  LET vars  == ClassVars(m, top.cls)
      cands == SelectSeq(vars, LAMBDA v :
                  /\ (IF v.f.kind = "Wildcard" THEN WildMatches(v.f, qname) ELSE v.name = qname)
                  /\ (wrapper = "-" \/ (v.f.wrapper /\ wrapper = "wrap"))
                  /\ (v.f.kind = "Wildcard" \/ v.f.card \in {"list"} \/ v.f.name \notin top.assigned))
      \* build_node: a model-typed var refuses the element when xsi:nil disagrees with nillable
      usable(v) == IF v.f.tp \in {"kid", "base"} THEN (xsiNil = NONE \/ (xsiNil = "true") = v.f.nillable) ELSE TRUE
      \* XmlMeta.find_children: the element fields with that name first, the wildcards after them
      ok == SelectSeq(cands, LAMBDA v : usable(v) /\ v.f.kind # "Wildcard") \o
            SelectSeq(cands, LAMBDA v : usable(v) /\ v.f.kind = "Wildcard")
  IN IF ok = <<>>
     THEN IF cfg.unknownProps THEN [p |-> PErr(p, "ParserError"), top |-> top]
          ELSE [p |-> Push(p, Node("skip", "-", p.nobj, "-")), top |-> top]
     ELSE LET v == ok[1]
              unique == v.f.kind = "Element" /\ v.f.card # "list"
              top1 == IF unique THEN [top EXCEPT !.assigned = top.assigned \cup {v.f.name}] ELSE top
              node == CASE v.f.kind = "Wildcard" -> Node("wildcard", "-", p.nobj, v.f.name)
                        [] v.f.tp = "kid" -> Node("element", "Kid", p.nobj, v.f.name)
                        [] v.f.tp = "base" -> Node("element", IF xsiType = <<BaseNs, "Derived">> THEN "Derived" ELSE "Base", p.nobj, v.f.name)
                        [] OTHER -> Node("primitive", "-", p.nobj, v.f.name)
          IN [p |-> Push(p, node), top |-> top1]

\* NodeParser.start(qname, attrs):  ev = [name, xsiType (<<uri, local>> | NoQ), xsiNil ("true"|"false"|NONE)]
PStart(p, m, cfg, ev) ==
  IF p.queue = <<>>
  THEN Push(p, Node("element", "Root", 0, "-"))            \* the requested class, whatever the root is called
  ELSE LET top == TopN(p)
       IN CASE top.k = "element" ->
                 IF ev.name \in Wrappers(m, top.cls)
                 THEN Push(p, [Node("wrapper", top.cls, p.nobj, "-") EXCEPT !.wrap = "wrap"])
                 ELSE LET r == ChildOf(p, m, cfg, top, ev.name, ev.xsiType, ev.xsiNil, "-")
                      IN [r.p EXCEPT !.queue = IF r.p.st = "err" THEN r.p.queue
                                               ELSE [r.p.queue EXCEPT ![Len(p.queue)] = r.top]]
            [] top.k = "wrapper" ->
                 \* WrapperNode.child delegates to the parent element node
                 LET parent == p.queue[Len(p.queue) - 1]
                     r == ChildOf(p, m, cfg, parent, ev.name, ev.xsiType, ev.xsiNil, "wrap")
                 IN [r.p EXCEPT !.queue = IF r.p.st = "err" THEN r.p.queue
                                          ELSE [r.p.queue EXCEPT ![Len(p.queue) - 1] = r.top]]
            [] top.k = "primitive" -> PErr(p, "XmlContextError")   \* "Primitive node doesn't support child nodes!"
            [] top.k = "wildcard"  -> Push(p, Node("wildcard", "-", p.nobj, top.fld))
            [] top.k = "skip"      -> Push(p, top)

\* NodeParser.end: pop and bind.  missingReq: the element lacks a required field of its class
PEnd(p, m, cfg, ev) ==
  LET top == TopN(p)
      q   == SubSeq(p.queue, 1, Len(p.queue) - 1)
      done == [p EXCEPT !.queue = q, !.st = IF q = <<>> THEN "done" ELSE "run"]
  IN CASE top.k \in {"skip", "wrapper"} -> done
       [] top.k = "primitive" ->
            IF ev.badValue THEN (IF cfg.convWarnings THEN PErr(p, "ParserError") ELSE [done EXCEPT !.nobj = p.nobj + 1, !.warn = p.warn + 1])
            ELSE [done EXCEPT !.nobj = p.nobj + 1]
       [] top.k = "wildcard" -> [done EXCEPT !.nobj = top.pos + 1]
       [] top.k = "element" ->
            IF ev.unknownAttr /\ cfg.unknownAttrs THEN PErr(p, "ParserError")
            ELSE IF ev.missingReq THEN PErr(p, "ParserError")
            ELSE [done EXCEPT !.nobj = top.pos + 1]

\* structural invariants of the machine
PSlots(p) ==
  /\ p.st = "done" => (p.queue = <<>> /\ p.nobj = 1)
  /\ \A i \in DOMAIN p.queue : p.queue[i].pos <= p.nobj
DocumentedOutcome(p) == p.st # "err" \/ p.err \in {"ParserError", "ConverterError", "XmlContextError", "XmlHandlerError"}
=============================================================================
