--------------------------- MODULE Trace_ContextT ---------------------------
(***************************************************************************)
(* Trace validation for C19: each line of TRACE_FILE is one execution of    *)
(* real threads on one real XmlContext under the deterministic scheduler:   *)
(*   [id, warm, progs |-> Seq(Seq(op)), steps |-> Seq([t, label]),          *)
(*    results |-> Seq(Seq(result))]                                         *)
(* progs are the context operations each thread was observed to perform,    *)
(* steps the yield points in execution order.  A step is accepted iff the   *)
(* specification's thread t is at the same label; at the end the results    *)
(* must be the specification's.  SameAsAlone is evaluated in every state.   *)
(***************************************************************************)
EXTENDS Context, Json, IOUtils, TLCExt

Traces == ndJsonDeserialize(IOEnv.TRACE_FILE)

MCClasses == <<
  [id |-> 1, ownNs |-> "urn:a", target |-> "{urn:a}Base",    base |-> 0, module |-> 1, broken |-> FALSE],
  [id |-> 2, ownNs |-> "urn:a", target |-> "{urn:a}Derived", base |-> 1, module |-> 1, broken |-> FALSE],
  [id |-> 3, ownNs |-> "urn:b", target |-> "{urn:b}Other",   base |-> 0, module |-> 1, broken |-> FALSE] >>
MCVars == <<>>
MCQNs == {"{urn:a}Base", "{urn:a}Derived", "{urn:b}Other", "{urn:x}Unknown"}

VARIABLES tid, i, s, th
tvars == <<tid, i, s, th>>

WarmState == SeqFindTypes(SeqBuild(SeqBuild(FreshState(1), 1, NONE).s, 3, NONE).s, "{urn:a}Base").s

TInit ==
  /\ tid \in 1..Len(Traces)
  /\ i = 0
  /\ s = IF Traces[tid].warm THEN WarmState ELSE FreshState(1)
  /\ th = FoldLeft(LAMBDA acc, p : Append(acc, TInitThread(p)), <<>>, Traces[tid].progs)

TNext ==
  /\ i < Len(Traces[tid].steps)
  /\ LET st  == Traces[tid].steps[i + 1]
         t   == st.t
         lbl == IF th[t].pc = "begin" THEN Begin(th[t]).pc ELSE th[t].pc
         r   == TStep(s, th[t])
     IN /\ ~Finished(th[t])
        /\ lbl = st.label
        /\ s' = r.s
        /\ th' = [th EXCEPT ![t] = r.th]
  /\ i' = i + 1
  /\ tid' = tid

ResOk(t) ==
  /\ Len(th[t].res) = Len(Traces[tid].results[t])
  /\ \A j \in DOMAIN th[t].res : Norm(th[t].res[j]) = Norm(Traces[tid].results[t][j])

Alone ==
  \A t \in DOMAIN th : \A j \in DOMAIN th[t].res :
     Norm(th[t].res[j]) = Norm(AloneResult(th[t].prog[j], s.loaded))

Progress ==
  /\ TLCSet(tid, IF i > TLCGet(tid) THEN i ELSE TLCGet(tid))
  /\ ~Alone => PrintT(<<"BAD", ToJson([id |-> Traces[tid].id, step |-> i, bad |-> "SameAsAlone"])>>)
  /\ (i = Len(Traces[tid].steps) /\ ~(\A t \in DOMAIN th : ResOk(t))) =>
        PrintT(<<"RESDIFF", ToJson([id |-> Traces[tid].id, spec |-> [t \in DOMAIN th |-> th[t].res]])>>)

InitRegs == \A t \in 1..Len(Traces) : TLCSet(t, 0)
TSpecR == (InitRegs /\ TInit) /\ [][TNext]_tvars

Accepted ==
  \A t \in 1..Len(Traces) :
     IF TLCGet(t) = Len(Traces[t].steps) THEN TRUE
     ELSE PrintT(<<"REJECT", ToJson([id |-> Traces[t].id, matched |-> TLCGet(t), of |-> Len(Traces[t].steps)])>>)
=============================================================================
