SPECIFICATION TSpecR
CONSTANTS
  PrefixPolicy = "fresh"
  AttrPolicy = "prefixed"
  ResetPolicy = "start"
CONSTRAINT Progress
POSTCONDITION Accepted
CHECK_DEADLOCK FALSE
