------------------------------- MODULE Names -------------------------------
(***************************************************************************)
(* xsdata/utils/namespaces.py as pure operators over ORDERED prefix->URI    *)
(* maps.  A Python dict is modelled as a sequence of <<key, value>> pairs   *)
(* because iteration order is observable here: load_prefix returns the      *)
(* FIRST prefix bound to a URI and generate_prefix derives the new prefix   *)
(* from len(ns_map).                                                        *)
(*                                                                         *)
(* Python None as a *prefix* is NoPrefix (the empty string): after          *)
(* clean_prefixes no empty-string prefix survives, so the two never meet.   *)
(* Python None as a *namespace* (unqualified name) is the empty string.     *)
(***************************************************************************)
EXTENDS Naturals, Sequences, SequencesExt, FiniteSets, TLC

NONE     == "__none__"
NoPrefix == ""
NoNs     == ""

XS    == "http://www.w3.org/2001/XMLSchema"
XMLNS == "http://www.w3.org/XML/1998/namespace"
XSI   == "http://www.w3.org/2001/XMLSchema-instance"
XLINK == "http://www.w3.org/1999/xlink"
XHTML == "http://www.w3.org/1999/xhtml"
MATHML == "http://www.w3.org/1998/Math/MathML"
SOAP11 == "http://schemas.xmlsoap.org/wsdl/soap/"
SOAP12 == "http://schemas.xmlsoap.org/wsdl/soap12/"
SOAPENV == "http://schemas.xmlsoap.org/soap/envelope/"
SOAPENC == "http://schemas.xmlsoap.org/soap/encoding/"

\* models/enums.py  Namespace.get_enum(uri).prefix
KnownPrefix(uri) ==
  CASE uri = XS      -> "xs"
    [] uri = XMLNS   -> "xml"
    [] uri = XSI     -> "xsi"
    [] uri = MATHML  -> "mathml3"
    [] uri = XLINK   -> "xlink"
    [] uri = XHTML   -> "xhtml"
    [] uri = SOAP11  -> "soap"
    [] uri = SOAP12  -> "soap12"
    [] uri = SOAPENV -> "soapenv"
    [] uri = SOAPENC -> "soapenc"
    [] OTHER         -> NONE

---------------------------------------------------------------------------
\* ordered maps
Has(m, k)      == \E i \in DOMAIN m : m[i][1] = k
Get(m, k)      == IF Has(m, k) THEN m[CHOOSE i \in DOMAIN m : m[i][1] = k][2] ELSE NONE
\* (sequences are rebuilt with FoldLeft/Append so that TLC stores plain tuples, never
\*  lazily evaluated function values, in its states)
Put(m, k, v)   == IF Has(m, k)
                  THEN FoldLeft(LAMBDA acc, e : Append(acc, IF e[1] = k THEN <<k, v>> ELSE e), <<>>, m)
                  ELSE Append(m, <<k, v>>)
Del(m, k)      == SelectSeq(m, LAMBDA e : e[1] # k)
HasValue(m, v) == \E i \in DOMAIN m : m[i][2] = v
FirstKeyOf(m, v) ==
  m[CHOOSE i \in DOMAIN m : m[i][2] = v /\ \A j \in 1..(i-1) : m[j][2] # v][1]
KeysOf(m)      == {m[i][1] : i \in DOMAIN m}

---------------------------------------------------------------------------
\* generate_prefix(uri, ns_map): returns <<prefix, ns_map'>>
\* NOTE (calibration to the code): the generated prefix is "ns" + len(ns_map)
\* whether or not that prefix is already a key of the map; when it is, the
\* existing binding is overwritten (Put).  PrefixPolicy selects the variant:
\*   "len"   - the code as shipped at the pinned commit
\*   "fresh" - the well-known prefix if it is free, else the smallest ns<k>,
\*             k >= len(ns_map), that is not yet a key
RECURSIVE FreshFrom(_, _)
FreshFrom(m, k) == IF Has(m, "ns" \o ToString(k)) THEN FreshFrom(m, k + 1) ELSE "ns" \o ToString(k)

GeneratePrefixP(uri, m, policy) ==
  LET k == KnownPrefix(uri)
      p == IF policy = "fresh"
           THEN IF k # NONE /\ ~Has(m, k) THEN k ELSE FreshFrom(m, Len(m))
           ELSE IF k # NONE THEN k ELSE "ns" \o ToString(Len(m))
  IN <<p, Put(m, p, uri)>>

\* load_prefix(uri, ns_map): first prefix bound to uri, else generate one
LoadPrefixP(uri, m, policy) ==
  IF HasValue(m, uri) THEN <<FirstKeyOf(m, uri), m>> ELSE GeneratePrefixP(uri, m, policy)

PrefixExists(uri, m) == HasValue(m, uri)
IsDefault(uri, m)    == \E i \in DOMAIN m : m[i][2] = uri /\ m[i][1] = NoPrefix

\* clean_prefixes(ns_map).  The raw user map may use Python None (NONE here) or ""
\* as the default-namespace key; both become NoPrefix, the first one wins; entries
\* with an empty URI are dropped; the default namespace is dropped when the same URI
\* also has a real prefix.
RECURSIVE CleanAcc(_, _)
CleanAcc(raw, acc) ==
  IF raw = <<>> THEN acc
  ELSE LET e == Head(raw)
           p == IF e[1] = NONE THEN NoPrefix ELSE e[1]
       IN CleanAcc(Tail(raw),
                   IF e[2] # "" /\ ~Has(acc, p) THEN Append(acc, <<p, e[2]>>) ELSE acc)

CleanPrefixes(raw) ==
  LET r == CleanAcc(raw, <<>>)
      d == Get(r, NoPrefix)
  IN IF d # NONE /\ \E i \in DOMAIN r : r[i][1] # NoPrefix /\ r[i][2] = d
     THEN Del(r, NoPrefix)
     ELSE r

=============================================================================
