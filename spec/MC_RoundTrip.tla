---------------------------- MODULE MC_RoundTrip ----------------------------
(***************************************************************************)
(* Exploring specification over a universe of small binding models:         *)
(* a root class with 1..MaxFields fields from a catalogue of field kinds,   *)
(* class and field namespaces, every instance over small value sets, an     *)
(* optional single fault applied to the prescribed document, and the eight  *)
(* combinations of the fail_on_* options.  Each behaviour pushes the events *)
(* of the (possibly faulted) document through the parser's node stack.      *)
(***************************************************************************)
EXTENDS RoundTrip, Json

CONSTANTS MaxFields, Faults, RootNss, KidNss, CatIds, Cfgs, MissingReqPolicy

VARIABLES m, inst, fault, cfg, evs, i, p, ptrace
vars == <<m, inst, fault, cfg, evs, i, p, ptrace>>

F(name, kind, tp, ns, card, nil, wrap, seq) ==
  [name |-> name, kind |-> kind, tp |-> tp, ns |-> ns, card |-> card, nillable |-> nil, wrapper |-> wrap, seq |-> seq]

Catalogue == <<
  F("e1", "Element", "str",   NONE,    "opt",    FALSE, FALSE, 0),   \* 1
  F("e2", "Element", "str",   NONE,    "req",    FALSE, FALSE, 0),   \* 2
  F("e3", "Element", "int",   NONE,    "list",   FALSE, FALSE, 0),   \* 3
  F("e4", "Element", "bool",  NONE,    "opt",    FALSE, FALSE, 0),   \* 4
  F("e5", "Element", "qname", NONE,    "opt",    FALSE, FALSE, 0),   \* 5
  F("e6", "Element", "str",   NONE,    "opt",    TRUE,  FALSE, 0),   \* 6  nillable
  F("e7", "Element", "int",   NONE,    "tokens", FALSE, FALSE, 0),   \* 7
  F("e8", "Element", "kid",   NONE,    "opt",    FALSE, FALSE, 0),   \* 8
  F("e9", "Element", "kid",   NONE,    "list",   FALSE, FALSE, 0),   \* 9
  F("eA", "Element", "base",  NONE,    "opt",    FALSE, FALSE, 0),   \* 10 may hold Derived (xsi:type)
  F("eB", "Element", "str",   "urn:b", "opt",    FALSE, FALSE, 0),   \* 11 namespace override
  F("eC", "Element", "str",   "",      "opt",    FALSE, FALSE, 0),   \* 12 no namespace
  F("eD", "Element", "int",   NONE,    "list",   FALSE, TRUE,  0),   \* 13 wrapper
  F("eE", "Element", "int",   NONE,    "list",   FALSE, FALSE, 1),   \* 14 sequence group 1
  F("eF", "Element", "str",   NONE,    "list",   FALSE, FALSE, 1),   \* 15 sequence group 1
  F("a1", "Attribute", "str", NONE,    "opt",    FALSE, FALSE, 0),   \* 16
  F("a2", "Attribute", "int", NONE,    "req",    FALSE, FALSE, 0),   \* 17
  F("a3", "Attribute", "qname", NONE,  "opt",    FALSE, FALSE, 0),   \* 18
  F("a4", "Attribute", "int", NONE,    "tokens", FALSE, FALSE, 0),   \* 19
  F("a5", "Attribute", "str", "urn:b", "opt",    FALSE, FALSE, 0),   \* 20
  F("t1", "Text",    "str",   NONE,    "opt",    FALSE, FALSE, 0),   \* 21
  F("t2", "Text",    "int",   NONE,    "req",    FALSE, FALSE, 0),   \* 22
  F("t3", "Text",    "qname", NONE,    "tokens", FALSE, FALSE, 0),   \* 23
  F("w1", "Wildcard", "any",  NONE,    "opt",    FALSE, FALSE, 0),   \* 24
  F("w2", "Wildcard", "any",  NONE,    "list",   FALSE, FALSE, 0),   \* 25
  F("e6l", "Element", "str",  NONE,    "list",   TRUE,  FALSE, 0),   \* 26 nillable list
  F("e5t", "Element", "qname", NONE,   "tokens", FALSE, FALSE, 0),   \* 27 QName tokens
  F("eG", "Element", "int",   NONE,    "list",   FALSE, FALSE, 2),   \* 28 sequence group 2
  F("eH", "Element", "str",   NONE,    "list",   FALSE, FALSE, 2)    \* 29 sequence group 2
>>

VStr(s) == [t |-> "str", s |-> s]
VInt(n) == [t |-> "int", n |-> n]
VBool(b) == [t |-> "bool", b |-> b]
VQ(u, l) == [t |-> "qname", uri |-> u, local |-> l]
VList(x) == [t |-> "list", items |-> x]
Scalars(tp, kind, card, nil) ==
  CASE tp = "str"   -> IF kind = "Element" /\ card = "req" THEN {VStr("t"), VStr(""), VStr(" a b ")}
                       ELSE IF nil THEN {VStr("t"), VStr("")} ELSE {VStr("t"), VStr("<&>\"")}
    [] tp = "int"   -> {VInt(0), VInt(0 - 7)}
    [] tp = "bool"  -> {VBool(TRUE), VBool(FALSE)}
    [] tp = "qname" -> {VQ("urn:c-d", "q"), VQ("urn:a", "n")}
    [] tp = "kid"   -> {[t |-> "kid", v |-> VNone, k |-> VNone], [t |-> "kid", v |-> VStr("t"), k |-> VInt(5)]}
    [] tp = "base"  -> {[t |-> "base", x |-> VInt(1)], [t |-> "derived", x |-> VNone, y |-> VStr("d")],
                        [t |-> "derived", x |-> VInt(2), y |-> VNone]}
    [] tp = "any"   -> {[t |-> "any", name |-> <<"urn:c", "w">>, text |-> "t", attrs |-> <<>>, kids |-> <<>>],
                        [t |-> "any", name |-> <<"", "w">>, text |-> "", attrs |-> << <<<<"", "k">>, <<[s |-> "v"]>>>> >>,
                         kids |-> << [t |-> "any", name |-> <<"urn:a", "in">>, text |-> "x", attrs |-> <<>>, kids |-> <<>>] >>]}

Values(f) ==
  LET sc == Scalars(f.tp, f.kind, f.card, f.nillable)
      one == CHOOSE x \in sc : TRUE
  IN CASE f.card = "req"    -> sc
       [] f.card = "opt"    -> sc \cup {VNone}
       [] f.card = "tokens" -> {VList(<<>>), VList(<<one>>)} \cup {VList(<<a, b>>) : a \in {one}, b \in sc}
       [] f.card = "list"   -> {VList(<<>>), VList(<<one>>)} \cup {VList(<<a, b>>) : a \in sc, b \in {one}}
                               \cup (IF f.nillable THEN {VList(<<VNone, one>>)} ELSE {})

\* a model may not mix a Text field with element content, nor repeat a field
ValidFields(fs) ==
  /\ \A a, b \in DOMAIN fs : a # b => fs[a].name # fs[b].name
  /\ Cardinality({a \in DOMAIN fs : fs[a].kind = "Text"}) <= 1
  /\ ((\E a \in DOMAIN fs : fs[a].kind = "Text") => \A a \in DOMAIN fs : fs[a].kind \in {"Text", "Attribute"})
  /\ Cardinality({a \in DOMAIN fs : fs[a].kind = "Wildcard"}) <= 1
  /\ \A a, b \in DOMAIN fs : a < b => (fs[a].seq = 0 \/ fs[b].seq # 0 \/ TRUE)

FieldSeqs == UNION {[1..n -> CatIds] : n \in 1..MaxFields}
Models == {[ns |-> rn, nillable |-> FALSE, kidNs |-> kn, fields |-> [k \in DOMAIN ids |-> Catalogue[ids[k]]]] :
              rn \in RootNss, kn \in KidNss, ids \in {s \in FieldSeqs : \A a, b \in DOMAIN s : a < b => s[a] < s[b]}}

\* ---------------------------------------------------------------------------
\* events of a document
XsiTypeOf(e) == LET hit == SelectSeq(e.attrs, LAMBDA a : a[1] = <<XSI, "type">>) IN IF hit = <<>> THEN NoQ ELSE hit[1][2][1].q
XsiNilOf(e)  == LET hit == SelectSeq(e.attrs, LAMBDA a : a[1] = <<XSI, "nil">>) IN IF hit = <<>> THEN NONE ELSE hit[1][2][1].s

RECURSIVE Flatten(_)
Flatten(e) ==
  << [e |-> "start", name |-> e.name, xsiType |-> XsiTypeOf(e), xsiNil |-> XsiNilOf(e)] >>
  \o FoldLeft(LAMBDA acc, c : IF "el" \in DOMAIN c THEN acc \o Flatten(c.el) ELSE acc, <<>>, e.content)
  \o << [e |-> "end", name |-> e.name, badValue |-> FALSE, unknownAttr |-> FALSE, missingReq |-> FALSE] >>

Unknown == <<"urn:zzz", "unknown">>
UnknownSub == << [e |-> "start", name |-> Unknown, xsiType |-> NoQ, xsiNil |-> NONE],
                 [e |-> "start", name |-> <<"", "e1">>, xsiType |-> NoQ, xsiNil |-> NONE],
                 [e |-> "end", name |-> <<"", "e1">>, badValue |-> FALSE, unknownAttr |-> FALSE, missingReq |-> FALSE],
                 [e |-> "end", name |-> Unknown, badValue |-> FALSE, unknownAttr |-> FALSE, missingReq |-> FALSE] >>

\* faulted event sequences
HasWild(mm) == \E k \in DOMAIN mm.fields : mm.fields[k].kind \in {"Wildcard", "Attributes"}
HasText(mm) == \E k \in DOMAIN mm.fields : mm.fields[k].kind = "Text"
HasReqElem(mm) == \E k \in DOMAIN mm.fields : mm.fields[k].kind = "Element" /\ mm.fields[k].card = "req"
IntElemPositions(mm, es) ==
  {k \in DOMAIN es : es[k].e = "end" /\ \E j \in DOMAIN mm.fields :
        mm.fields[j].kind = "Element" /\ mm.fields[j].tp = "int" /\ mm.fields[j].card = "list" /\ ~mm.fields[j].wrapper
        /\ es[k].name = <<ElemNs(mm, mm.fields[j]), mm.fields[j].name>>}
PrimEndPositions(mm, es) ==
  {k \in DOMAIN es : k > 1 /\ es[k].e = "end" /\ es[k-1].e = "start" /\ \E j \in DOMAIN mm.fields :
        mm.fields[j].kind = "Element" /\ mm.fields[j].tp \in {"str", "int", "bool"} /\ ~mm.fields[j].wrapper
        /\ es[k].name = <<ElemNs(mm, mm.fields[j]), mm.fields[j].name>>}

FaultedEvents(mm, es, ft) ==
  CASE ft = "none" -> {es}
    \* (an element is unknown only to a model that has no wildcard to capture it)
    \* (an element put in front of existing text would displace that text: not done, C10 says
    \*  "without splitting existing text")
    [] ft = "unknownFirst" -> IF HasWild(mm) \/ HasText(mm) THEN {} ELSE {<<es[1]>> \o UnknownSub \o SubSeq(es, 2, Len(es))}
    [] ft = "unknownLast"  -> IF HasWild(mm) THEN {} ELSE {SubSeq(es, 1, Len(es) - 1) \o UnknownSub \o <<es[Len(es)]>>}
    \* an element whose name IS known - as an unwrapped field of the same class - placed inside a
    \* wrapper element, where only the wrapped field is expected: unknown there
    [] ft = "siblingInWrapper" ->
         {SubSeq(es, 1, k) \o << [e |-> "start", name |-> nm, xsiType |-> NoQ, xsiNil |-> NONE],
                                 [e |-> "end", name |-> nm, badValue |-> FALSE, unknownAttr |-> FALSE, missingReq |-> FALSE] >>
          \o SubSeq(es, k + 1, Len(es)) :
            k \in {j \in DOMAIN es : es[j].e = "start" /\ es[j].name[2] = "wrap"},
            nm \in {<<ElemNs(mm, mm.fields[j]), mm.fields[j].name>> : j \in {jj \in DOMAIN mm.fields :
                        mm.fields[jj].kind = "Element" /\ ~mm.fields[jj].wrapper /\ mm.fields[jj].tp \in {"str", "int", "bool"}}}}
    [] ft = "unknownAttr"  -> {[es EXCEPT ![Len(es)].unknownAttr = TRUE]}
    [] ft = "xsiAttr"      -> {es}     \* an attribute in the XSI namespace is always tolerated
    [] ft = "badValue"     -> {[es EXCEPT ![k].badValue = TRUE] : k \in IntElemPositions(mm, es)}
    [] ft = "childInPrimitive" ->
         {SubSeq(es, 1, k - 1) \o <<[e |-> "start", name |-> Unknown, xsiType |-> NoQ, xsiNil |-> NONE],
                                    [e |-> "end", name |-> Unknown, badValue |-> FALSE, unknownAttr |-> FALSE, missingReq |-> FALSE]>>
          \o SubSeq(es, k, Len(es)) : k \in PrimEndPositions(mm, es)}
    [] ft = "missingReq" ->
         IF HasReqElem(mm)
         THEN {[SelectSeq(es, LAMBDA x : ~(\E j \in DOMAIN mm.fields : mm.fields[j].kind = "Element" /\ mm.fields[j].card = "req"
                                              /\ x.name = <<ElemNs(mm, mm.fields[j]), mm.fields[j].name>>))
                EXCEPT ![Len(es) - 2].missingReq = TRUE]}
         ELSE {}

StrictOnly == {[unknownProps |-> TRUE, unknownAttrs |-> TRUE, convWarnings |-> TRUE]}
LenientOnly == {[unknownProps |-> FALSE, unknownAttrs |-> FALSE, convWarnings |-> FALSE]}
CornerCfgs == StrictOnly \cup LenientOnly
AllCfgs == {[unknownProps |-> a, unknownAttrs |-> b, convWarnings |-> c] : a, b, c \in BOOLEAN}

Init ==
  /\ m \in {x \in Models : ValidFields(x.fields)}
  /\ inst \in {s \in [DOMAIN m.fields -> UNION {Values(m.fields[k]) : k \in DOMAIN m.fields}] :
                  \A k \in DOMAIN m.fields : s[k] \in Values(m.fields[k])}
  /\ fault \in Faults
  /\ cfg \in Cfgs
  /\ evs \in FaultedEvents(m, Flatten(Prescribed(m, inst)), fault)
  /\ i = 0 /\ p = PInit /\ ptrace = <<>>

Step ==
  /\ p.st = "run" /\ i < Len(evs)
  /\ LET ev == evs[i + 1]
         p1 == IF ev.e = "start" THEN PStart(p, m, cfg, ev)
               ELSE IF ev.e = "end" /\ ev.missingReq /\ MissingReqPolicy = "TypeError" THEN PErr(p, "TypeError")
               ELSE PEnd(p, m, cfg, ev)
     IN /\ p' = p1
        /\ ptrace' = Append(ptrace, [e |-> ev.e, name |-> ev.name, st |-> p1.st, err |-> p1.err,
                                     top |-> IF p1.queue = <<>> THEN "-" ELSE TopN(p1).k,
                                     qlen |-> Len(p1.queue), nobj |-> p1.nobj])
  /\ i' = i + 1
  /\ UNCHANGED <<m, inst, fault, cfg, evs>>

Spec == Init /\ [][Step]_vars
View == <<m, inst, fault, cfg, evs, i, p>>

Terminal == p.st # "run" \/ i = Len(evs)

\* ---- properties ------------------------------------------------------------
InvSlots == PSlots(p)
\* C15: only documented outcomes, and the machine never gets stuck before the end
InvDocumented == DocumentedOutcome(p)
InvProgress == (i = Len(evs) /\ p.st = "run") => FALSE
\* C01 / C02-ish: the prescribed document of a valid instance is accepted under the strictest options
InvValidAccepted == (fault = "none" /\ Terminal) => p.st = "done"
\* C10
InvStrictUnknown ==
  (fault \in {"unknownFirst", "unknownLast", "siblingInWrapper"} /\ Terminal) =>
      IF cfg.unknownProps THEN p.st = "err" /\ p.err = "ParserError" ELSE p.st = "done"
InvXsiAttr == (fault = "xsiAttr" /\ Terminal) => p.st = "done"
InvUnknownAttr ==
  (fault = "unknownAttr" /\ Terminal) =>
      IF cfg.unknownAttrs THEN p.st = "err" /\ p.err = "ParserError" ELSE p.st = "done"
InvBadValue ==
  (fault = "badValue" /\ Terminal) =>
      IF cfg.convWarnings THEN p.st = "err" /\ p.err = "ParserError" ELSE p.st = "done" /\ p.warn = 1

EmitCase ==
  Terminal => PrintT(<<"RT", ToJson([m |-> m, inst |-> inst, fault |-> fault, cfg |-> cfg,
                                      doc |-> Prescribed(m, inst), evs |-> evs, ptrace |-> ptrace,
                                      st |-> p.st, err |-> p.err, warn |-> p.warn])>>)
=============================================================================
