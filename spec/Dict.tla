-------------------------------- MODULE Dict --------------------------------
(***************************************************************************)
(* serializers/dict.py DictEncoder and parsers/dict.py DictDecoder over the *)
(* abstract models of RoundTrip: what a model instance encodes to (the      *)
(* documented dictionary form: one key per field under its local name, or   *)
(* under the wrapper name holding a one-key object; lists as arrays; models *)
(* as objects; everything else as the converter's string or a JSON scalar)  *)
(* and what that decodes back to.                                           *)
(*                                                                         *)
(* JSON values:  [j |-> "null"] [j |-> "str", s] [j |-> "num", n]           *)
(*               [j |-> "bool", b] [j |-> "arr", items] [j |-> "obj", kv]   *)
(*               kv = Seq(<<key, value>>)                                   *)
(***************************************************************************)
EXTENDS RoundTrip

JNull == [j |-> "null"]
JStr(s) == [j |-> "str", s |-> s]
JArr(xs) == [j |-> "arr", items |-> xs]
JObj(kv) == [j |-> "obj", kv |-> kv]

Clark(u, l) == IF u = "" THEN l ELSE "{" \o u \o "}" \o l

RECURSIVE EncAny(_)
EncAny(v) ==
  JObj(<< <<"qname", JStr(Clark(v.name[1], v.name[2]))>>, <<"text", JStr(v.text)>>, <<"tail", JNull>>,
          <<"children", JArr(FoldLeft(LAMBDA acc, k : Append(acc, EncAny(k)), <<>>, v.kids))>>,
          <<"attributes", JObj(FoldLeft(LAMBDA acc, a : Append(acc, <<Clark(a[1][1], a[1][2]), JStr(a[2][1].s)>>), <<>>, v.attrs))>> >>)

\* DictEncoder.encode for one value of a field
RECURSIVE EncVal(_)
EncVal(v) ==
  CASE v.t = "none"  -> JNull
    [] v.t = "str"   -> JStr(v.s)
    [] v.t = "int"   -> [j |-> "num", n |-> v.n]
    [] v.t = "bool"  -> [j |-> "bool", b |-> v.b]
    [] v.t = "qname" -> JStr(Clark(v.uri, v.local))               \* converter.serialize without ns_map
    [] v.t = "list"  -> JArr(FoldLeft(LAMBDA acc, x : Append(acc, EncVal(x)), <<>>, v.items))
    [] v.t = "kid"   -> JObj(<< <<"v", EncVal(v.v)>>, <<"k", EncVal(v.k)>> >>)
    [] v.t = "base"  -> JObj(<< <<"x", EncVal(v.x)>> >>)
    [] v.t = "derived" -> JObj(<< <<"x", EncVal(v.x)>>, <<"y", EncVal(v.y)>> >>)
    [] v.t = "any"   -> EncAny(v)

\* next_value: key = wrapper name (object with the local name inside) or local name
EncField(f, v) ==
  IF f.wrapper /\ f.kind = "Element" /\ ~IsNone(v) THEN <<"wrap", JObj(<< <<f.name, EncVal(v)>> >>)>>
  ELSE IF f.wrapper /\ f.kind = "Element" THEN <<"wrap", JNull>>
  ELSE <<f.name, EncVal(v)>>

Encode(m, inst) == JObj(FoldLeft(LAMBDA acc, i : Append(acc, EncField(m.fields[i], inst[i])), <<>>, [i \in DOMAIN m.fields |-> i]))

\* the None-filtering factory drops keys whose value is null (at every level)
RECURSIVE FilterNone(_)
FilterNone(j) ==
  CASE j.j = "obj" -> JObj(FoldLeft(LAMBDA acc, e : IF e[2].j = "null" THEN acc ELSE Append(acc, <<e[1], FilterNone(e[2])>>), <<>>, j.kv))
    [] j.j = "arr" -> JArr(FoldLeft(LAMBDA acc, x : Append(acc, FilterNone(x)), <<>>, j.items))
    [] OTHER -> j

\* properties of the encoded form
RECURSIVE JsonNative(_)
JsonNative(j) ==
  CASE j.j = "obj" -> /\ \A a, b \in DOMAIN j.kv : a # b => j.kv[a][1] # j.kv[b][1]     \* keys are unique
                      /\ \A a \in DOMAIN j.kv : JsonNative(j.kv[a][2])
    [] j.j = "arr" -> \A a \in DOMAIN j.items : JsonNative(j.items[a])
    [] OTHER -> j.j \in {"null", "str", "num", "bool"}

\* DictDecoder.find_var: a key is bound to the field with that local name whose list-ness
\* matches the value (or whose wrapper is the key); every key of a valid encoding must find
\* exactly the field it came from
KeyOf(f) == IF f.wrapper /\ f.kind = "Element" THEN "wrap" ELSE f.name
IsListField(f) == f.card \in {"list", "tokens"}
Decodable(m, inst) ==
  \A i \in DOMAIN m.fields :
     LET f == m.fields[i]
         cands == {k \in DOMAIN m.fields : KeyOf(m.fields[k]) = KeyOf(f)}
     IN cands = {i}
=============================================================================
