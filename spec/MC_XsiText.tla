----------------------------- MODULE MC_XsiText -----------------------------
(***************************************************************************)
(* C11, typed character data: an element captured by a wildcard whose       *)
(* xsi:type names a built-in type keeps its TYPED value (Generic.tla keeps   *)
(* xsi:type attribute values in the value space; this module does the same   *)
(* for the element's text).  For xs:QName the value is a (namespace, local)  *)
(* pair: its prefix is resolved where the document declares it - on the      *)
(* element itself or on the root - and the namespace it names  *)
(* may occur NOWHERE else in the document ("fresh"), be the namespace of the  *)
(* element that carries it, or of a sibling.  Whatever the placement, the     *)
(* serializer has to emit a declaration for the namespace of the value,       *)
(* reachable from the text that uses it.                                      *)
(***************************************************************************)
EXTENDS Naturals, Sequences, TLC, Json

Prims == {"int", "boolean", "decimal", "string", "double", "long", "date", "dateTime", "duration", "hexBinary", "base64Binary", "float"}
DeclAt == {"self", "root"}     \* the typed element is a CHILD of the root (deeper generic content stays untyped text)
Uris == {"fresh", "ownElement", "sibling", "none"}
Placements == {"list", "single", "mixed"}

VARIABLES tp, decl, uri, place
vars == <<tp, decl, uri, place>>
Init == /\ tp \in Prims \cup {"QName"} /\ decl \in DeclAt /\ uri \in Uris /\ place \in Placements
        /\ (tp # "QName" => decl = "self" /\ uri = "none")
Next == UNCHANGED vars
Spec == Init /\ [][Next]_vars
\* the expected value space: a QName without prefix has no namespace (unqualified), whatever default namespace is in scope is
\* irrelevant here because the documents of this family declare none
ExpectedNs == IF uri = "none" THEN "" ELSE uri
InvTotal == tp = "QName" \/ (decl = "self" /\ uri = "none")
Emit == PrintT(<<"XSITEXT", ToJson([type |-> tp, decl |-> decl, uri |-> uri, placement |-> place, ns |-> ExpectedNs])>>)
=============================================================================
