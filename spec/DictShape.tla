----------------------------- MODULE DictShape -----------------------------
(***************************************************************************)
(* The dictionary / JSON decoder (formats/dataclass/parsers/dict.py         *)
(* DictDecoder.bind_value and friends) as a SHAPE matrix: every kind of     *)
(* field the metadata can describe against every shape a JSON value can     *)
(* have, at three positions (a field of the root object, a field of a       *)
(* nested object, a field of an object inside a list).                      *)
(*                                                                         *)
(* Canonical(kind, shape) says which shapes the documented dictionary form  *)
(* (Dict.tla: what DictEncoder produces) uses for that kind of field: those *)
(* MUST decode.  Every other pair is a document that does not fit the       *)
(* model: the decoder may bind it leniently or refuse it, but only with a   *)
(* documented error (C15) - and the verdict for a canonical shape must not  *)
(* depend on the position (C04).                                            *)
(***************************************************************************)
EXTENDS Naturals, Sequences, FiniteSets, TLC

Kinds == {"int", "intList", "tokens", "tokenLists", "model", "modelList", "modelUnion", "anyType", "wildcardList",
          "attributes", "primUnion", "compound", "enum", "nillableInt", "requiredInt",
          "hierarchy", "hierarchyList", "qname",
          "wrappedInt", "wrappedIntList", "wrappedModel",      \* fields with a WRAPPER element: {"w": {"x": value}}, or {"w": null} for no value
          "enumTokens",                     \* an enumeration of xs:list values: every member value is an array
          "compoundIntBool"}                \* a compound field whose choices are int THEN bool (bool is a subclass of int in Python)     \* a field typed with the BASE of a chain H0 <- H1 <- H2 <- H3 (each level adds a required field)

\* JSON shapes (the harness materialises them; names are self-describing)
Shapes == {"null", "true", "int", "float", "str", "numstr", "emptyList", "intList", "strList", "listOfIntLists", "listOfEmptyList",
           "emptyObj", "leafObj", "unknownKeyObj", "listOfLeafObj", "listOfEmptyObj", "listOfNull", "anyElementObj", "derivedObj",
           "strDict", "nestedList3",
           "h0Obj", "h1Obj", "h2Obj", "h3Obj", "listOfHObjs",
           "clarkStr", "clarkBrokenStr", "boolList", "intBoolList",
           "derivedTypedObj", "listOfDerived"}   \* the envelope {qname, value, type} with a model value and its type name; a list of envelopes  \* objects with exactly the fields of level n of the chain; one of each

Positions == {"root", "nested", "inList"}

\* what DictEncoder writes for a value of that kind (the shapes that MUST decode)
Canonical(k, s) ==
  CASE k = "int"          -> s \in {"null", "int"}
    [] k = "nillableInt"  -> s \in {"null", "int"}
    [] k = "requiredInt"  -> s \in {"int"}
    [] k = "intList"      -> s \in {"emptyList", "intList"}
    [] k = "tokens"       -> s \in {"emptyList", "intList"}
    [] k = "tokenLists"   -> s \in {"emptyList", "listOfIntLists"}
    [] k = "model"        -> s \in {"null", "leafObj", "emptyObj"}
    [] k = "modelList"    -> s \in {"emptyList", "listOfLeafObj", "listOfEmptyObj"}
    [] k = "modelUnion"   -> s \in {"null", "leafObj"}
    \* (a DerivedElement - the value together with the element name and the xsi:type it was announced with - is written as an envelope)
    [] k = "anyType"      -> s \in {"null", "int", "str", "true", "float", "derivedObj", "derivedTypedObj"}
    [] k = "wildcardList" -> s \in {"emptyList", "listOfDerived"}
    [] k = "attributes"   -> s \in {"emptyObj", "strDict"}
    [] k = "primUnion"    -> s \in {"null", "int", "str"}
    [] k = "compound"     -> s \in {"emptyList", "intList", "listOfLeafObj", "listOfDerived"}
    [] k = "enum"         -> s \in {"null", "str"}
    \* no type marker in the dictionary form: the decoder has to find the one class of the hierarchy whose fields fit
    [] k = "hierarchy"     -> s \in {"null", "h0Obj", "h1Obj", "h2Obj", "h3Obj"}
    [] k = "hierarchyList" -> s \in {"emptyList", "listOfHObjs"}
    [] k = "qname"         -> s \in {"null", "str", "clarkStr"}
    [] k = "compoundIntBool" -> s \in {"emptyList", "intList", "boolList", "intBoolList"}
    [] k = "enumTokens"    -> s \in {"null", "intList"}
    [] k = "wrappedInt"     -> s \in {"null", "int"}
    [] k = "wrappedIntList" -> s \in {"emptyList", "intList"}
    [] k = "wrappedModel"   -> s \in {"null", "leafObj", "emptyObj"}

\* C10: a scalar the declared type has no lexical form for.  The decoder keeps it (as its lexical form) with a
\* ConverterWarning, or fails with ParserError when conversion warnings are configured to fail.
Unconvertible(k, s) ==
  CASE k \in {"int", "nillableInt", "requiredInt", "wrappedInt"} -> s \in {"true", "float", "str"}
    [] k \in {"intList", "tokens", "wrappedIntList"} -> s \in {"strList"}
    [] k = "enum"                                   -> s \in {"true", "int", "float", "numstr"}
    [] k = "enumTokens"                             -> s \in {"int", "str", "numstr"}     \* ("int" is a proper PREFIX of a member)
    [] OTHER                                        -> FALSE

\* sanity of the table itself (checked by TLC): every kind has a canonical shape, required fields never accept null
TableSane == /\ \A k \in Kinds : \E s \in Shapes : Canonical(k, s)
             /\ ~Canonical("requiredInt", "null")
             /\ \A k \in Kinds, s \in Shapes : ~(Canonical(k, s) /\ Unconvertible(k, s))
             /\ \A k \in {"intList", "tokens", "tokenLists", "modelList", "wildcardList", "compound", "hierarchyList", "compoundIntBool", "wrappedIntList"} : Canonical(k, "emptyList") /\ ~Canonical(k, "null")
=============================================================================
