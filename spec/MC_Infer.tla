------------------------------ MODULE MC_Infer ------------------------------
(***************************************************************************)
(* C13: classes generated directly from sample documents.  A hidden regular *)
(* model (a particle of Schema over consistently used names, values spelled *)
(* canonically) yields 1..4 sample documents.  The mapper is modelled by    *)
(* its CONTRACT (codegen/mappers/element.py, mixins.py, ClassUtils merge):  *)
(* per element name the merged field admits between the smallest and the    *)
(* largest number of occurrences seen in any parent instance (0 when some   *)
(* sample lacks it), and its type is the set of inferred types of all the   *)
(* values seen (inference = first explicit type, in documented order, whose *)
(* strict test accepts the literal; else string).  Invariant: every sample  *)
(* is accepted by the merged model.                                         *)
(***************************************************************************)
EXTENDS Schema, Json
CONSTANTS MaxDocIdx, MultiSample
VARIABLE parts

IOccs == {<<1, 1>>, <<0, 1>>, <<0, U>>, <<1, U>>}
ITypes == {"int", "boolean", "decimal", "date", "string"}
IItemA == {El("a", tp, o[1], o[2]) : tp \in ITypes, o \in IOccs}
IItemB == {El("b", tp, o[1], o[2]) : tp \in {"string", "Kid", "int"}, o \in IOccs}
IItemC == {[k |-> "none"]} \cup {Grp(k, o[1], o[2], <<El("c", "int", 1, 1), El("d", "string", m, 1)>>) :
                                   k \in {"seq", "choice"}, o \in {<<1, 1>>, <<0, 1>>, <<1, U>>}, m \in {0, 1}}
More == IF MultiSample THEN (0 - 1)..MaxDocIdx ELSE {0 - 1}
Slots == << {"seq", "choice"}, {<<1, 1>>, <<1, U>>}, IItemA, IItemB, IItemC, {NONE, "urn:t", "urn:t|alt", "urn:t|kids"}, {1, 2, 3, 4},
            0..MaxDocIdx, More, More, More >>
NSlots == Len(Slots)
Init == parts = <<>>
Next == Len(parts) < NSlots /\ \E c \in Slots[Len(parts) + 1] : parts' = Append(parts, c)
Spec == Init /\ [][Next]_parts
Complete == Len(parts) = NSlots

Root == Grp(parts[1], parts[2][1], parts[2][2], <<parts[3], parts[4]>> \o (IF parts[5].k = "none" THEN <<>> ELSE <<parts[5]>>))
Docs == DocsOf(Root)
Pick(i) == Docs[(i % Len(Docs)) + 1]
Samples == FoldLeft(LAMBDA acc, k : IF parts[k] < 0 THEN acc ELSE Append(acc, Pick(parts[k])), <<>>, <<8, 9, 10, 11>>)

\* --- the mapper's contract -------------------------------------------------
\* inference of a canonical literal: first explicit type whose strict test accepts it
InferType(tp) == IF tp = "string" THEN "string" ELSE tp
Count(d, n) == Cardinality({i \in DOMAIN d : d[i].name = n})
NamesIn(ds) == UNION {{ds[k][i].name : i \in DOMAIN ds[k]} : k \in DOMAIN ds}
Merged(ds) ==
  [n \in NamesIn(ds) |->
     [min |-> CHOOSE m \in {Count(ds[k], n) : k \in DOMAIN ds} : \A k \in DOMAIN ds : m <= Count(ds[k], n),
      max |-> CHOOSE m \in {Count(ds[k], n) : k \in DOMAIN ds} : \A k \in DOMAIN ds : m >= Count(ds[k], n),
      types |-> UNION {{InferType(ds[k][i].tp) : i \in {j \in DOMAIN ds[k] : ds[k][j].name = n}} : k \in DOMAIN ds}]]
AcceptedBy(mm, d) ==
  /\ \A i \in DOMAIN d : d[i].name \in DOMAIN mm /\ InferType(d[i].tp) \in mm[d[i].name].types
  /\ \A n \in DOMAIN mm : Count(d, n) >= mm[n].min /\ (mm[n].max <= 1 => Count(d, n) <= mm[n].max)
InvSamplesAccepted == Complete => \A k \in DOMAIN Samples : AcceptedBy(Merged(Samples), Samples[k])

\* the names the HIDDEN model lets repeat (in JSON such a member is an array even when a sample shows one item)
RECURSIVE MultiNames(_, _)
MultiNames(p, rep) == IF p.k = "el" THEN (IF rep \/ p.max > 1 THEN {p.name} ELSE {})
                      ELSE UNION {MultiNames(p.items[i], rep \/ p.max > 1) : i \in DOMAIN p.items}
Emit == Complete => PrintT(<<"SAMPLES", ToJson([tns |-> parts[6], attrs |-> parts[7], samples |-> Samples, hiddenMulti |-> MultiNames(Root, FALSE),
                                                 merged |-> [n \in NamesIn(Samples) |-> [min |-> Merged(Samples)[n].min, max |-> Merged(Samples)[n].max]]])>>)
=============================================================================
