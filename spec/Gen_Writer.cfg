SPECIFICATION Spec
CONSTANTS
  PrefixPolicy = "fresh"
  AttrPolicy = "prefixed"
  ResetPolicy = "start"
  MaxDepth = 2
  MaxEvents = 5
  MaxAttrs = 1
  Indents = {FALSE}
  MapIds = {1,2,3,4,5,6,7,8,9,10,11,12}
  Tolerated = {"text-outside-root"}
VIEW View
CONSTRAINT EmitDone
CHECK_DEADLOCK FALSE
