SPECIFICATION Spec
CONSTANTS
  AnyAttrPolicy = "expand"
  MaxKids = 1
  LeafTexts = {"", "t"}
  KnownF18 = FALSE
INVARIANT InvFaithful
CHECK_DEADLOCK FALSE
