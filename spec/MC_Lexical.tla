----------------------------- MODULE MC_Lexical -----------------------------
(* Exploring specification for C05: literals / produced strings / candidate type lists /
   QName resolution, assembled from the grids of the generated module LXGrid. *)
EXTENDS Lexical, Json, LXGrid

CONSTANTS Kind,   \* "boolean" | "integer" | "decimal" | "float" | "hex" | "base64"
          Mode    \* "lex" | "out" | "prio" | "qname"

VARIABLE parts
Slots == CASE Mode = "lex" -> LexSlots(Kind) [] Mode = "out" -> OutSlots(Kind)
           [] Mode = "prio" -> PrioSlots [] Mode = "qname" -> QNameSlots
Init == parts = <<>>
Next == Len(parts) < Len(Slots) /\ \E c \in Slots[Len(parts) + 1] : parts' = Append(parts, c)
Spec == Init /\ [][Next]_parts
Complete == Len(parts) = Len(Slots)
Lit == FoldLeft(LAMBDA acc, p : acc \o p, <<>>, parts)

Ref(k, s) == CASE k = "boolean" -> XBoolean(s) [] k = "integer" -> XInteger(s) [] k = "decimal" -> XDecimal(s)
               [] k = "float" -> XFloat(s) [] k = "hex" -> XHex(s) [] k = "base64" -> XBase64(s)

\* sanity of the reference itself: canonical numerals are accepted, padding does not matter
InvPadding == (Complete /\ Mode = "lex") => Ref(Kind, Lit).ok = Ref(Kind, <<" ">> \o Lit \o <<"\n">>).ok
\* the priority order is total on the candidate types and "str" always catches
InvWinner == (Complete /\ Mode = "prio") =>
   LET w == Winner(parts[1], parts[2]) IN (\E k \in DOMAIN parts[1] : parts[1][k] = "str") => w # "none"

Emit ==
  Complete =>
    CASE Mode \in {"lex", "out"} -> PrintT(<<"LEX", ToJson([kind |-> Kind, lit |-> Lit, ref |-> Ref(Kind, Lit)])>>)
      [] Mode = "prio" -> PrintT(<<"PRIO", ToJson([types |-> parts[1], sorted |-> SortTypes(parts[1]), lit |-> parts[2],
                                                    winner |-> Winner(parts[1], parts[2])])>>)
      [] Mode = "qname" -> PrintT(<<"QN", ToJson([map |-> parts[1], lit |-> parts[2], res |-> QResolve(parts[2], parts[1])])>>)
=============================================================================
