------------------------------ MODULE Container ------------------------------
(***************************************************************************)
(* codegen/container.py ClassContainer: the per-class Status and the way    *)
(* handlers pull their dependencies through `find`, which processes a class *)
(* on demand (re-entering process_class) unless it has reached the current  *)
(* step or is being processed.  Explicit call stack; one action per call /  *)
(* return.  Properties: statuses only grow, no class is entered twice in a  *)
(* step, the stack never holds a class twice (termination for cyclic and    *)
(* self-referential graphs), and after process_classes(step) every class    *)
(* has completed the step.                                                  *)
(***************************************************************************)
EXTENDS Naturals, Sequences, SequencesExt, FiniteSets, TLC

CONSTANTS Steps     \* e.g. <<10, 20, 30>>

\* cs = [status: class -> Nat, step, si (index into Steps), stack: Seq([c, pos]), entered: set of <<c, step>>, done]
CInit(classes) == [status |-> [c \in classes |-> 0], step |-> 0, si |-> 0, stack |-> <<>>, entered |-> {}, done |-> FALSE]
TopF(cs) == cs.stack[Len(cs.stack)]

\* process_classes(step): start the next step
BeginStep(cs) == [cs EXCEPT !.si = cs.si + 1, !.step = Steps[cs.si + 1]]
\* process_class(target, step): status = step (in progress)
Enter(cs, c) == [cs EXCEPT !.status[c] = cs.step, !.stack = Append(cs.stack, [c |-> c, pos |-> 0]),
                           !.entered = cs.entered \cup {<<c, cs.step>>}]
\* a handler of the class on top calls container.find(dep)
NeedsProcessing(cs, dep) == cs.status[dep] < cs.step
\* return from process_class: status = step + 1
Exit(cs) == [cs EXCEPT !.status[TopF(cs).c] = cs.step + 1, !.stack = SubSeq(cs.stack, 1, Len(cs.stack) - 1)]
Advance(cs) == [cs EXCEPT !.stack[Len(cs.stack)].pos = TopF(cs).pos + 1]

NoReentry(cs) == \A i, j \in DOMAIN cs.stack : i # j => cs.stack[i].c # cs.stack[j].c
StatusSane(cs) == \A c \in DOMAIN cs.status : cs.status[c] = 0 \/ \E k \in DOMAIN Steps : cs.status[c] \in {Steps[k], Steps[k] + 1}
OnStackInProgress(cs) == \A i \in DOMAIN cs.stack : cs.status[cs.stack[i].c] = cs.step
=============================================================================
