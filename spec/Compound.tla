------------------------------ MODULE Compound ------------------------------
(***************************************************************************)
(* Compound ("Elements") fields, as documented (docs/models/fields: a field *)
(* of type Elements holds values of several element declarations - the      *)
(* choices - in document order).  This is the binding CONTRACT, written     *)
(* from the documentation, not from serializers/mixins.py:                  *)
(*                                                                         *)
(*   * a model has one compound field (a list, or a single optional value)  *)
(*     with up to three choices  [name, ns, tp, nillable]  of pairwise      *)
(*     different types (the context refuses ambiguous types);               *)
(*   * a value belongs to the choice whose type is EXACTLY the value's type *)
(*     (a bool is not an int, an int is not a float, a str that looks like  *)
(*     a number stays a str, an enum member is not its str value), an       *)
(*     instance of a subclass belongs to the choice of its base class and   *)
(*     is marked with xsi:type, None / [] belong to the first nillable choice, *)
(*     a value wrapped as DerivedElement(qname, v) is written as qname;     *)
(*   * Prescribed(m, inst) is the sequence of elements in list order.       *)
(*                                                                         *)
(* TLC checks that the contract is one a round trip can honour at all:      *)
(* Prescribed is injective on the instances of every model (Injective), so  *)
(* the document determines the value list, and every prescribed element     *)
(* names exactly one choice (Determined).                                   *)
(***************************************************************************)
EXTENDS Naturals, Sequences, SequencesExt, FiniteSets, TLC

NONE == "__none__"

\* value types and, per type, two lexical spellings (index 1, 2); "Leaf"/"Sub" are models
PrimTypes == {"int", "str", "bool", "float", "decimal", "Color", "ints"}
Types == PrimTypes \cup {"Leaf", "Sub"}        \* Sub is a subclass of Leaf
Lex(tp, i) ==
  CASE tp = "int"     -> IF i = 1 THEN "1" ELSE "-7"
    [] tp = "str"     -> IF i = 1 THEN "1" ELSE "true"        \* strings that LOOK like other types
    [] tp = "bool"    -> IF i = 1 THEN "true" ELSE "false"
    [] tp = "float"   -> IF i = 1 THEN "1.0" ELSE "2.5"       \* 1.0 == 1 in Python, but a float is not an int
    [] tp = "decimal" -> IF i = 1 THEN "1" ELSE "2.50"
    [] tp = "Color"   -> IF i = 1 THEN "red" ELSE "1"         \* enum with a member whose value is "1"
    [] tp = "ints"    -> IF i = 1 THEN "1 2" ELSE "3"         \* tokens
    [] tp = "Leaf"    -> IF i = 1 THEN "leaf" ELSE "sub"      \* an instance of Leaf / of its subclass Sub
    [] tp = "Sub"     -> IF i = 1 THEN "sub" ELSE "sub2"      \* two instances of Sub

\* an item of the value list: [c: index of its choice, i: which value, nil: BOOL, wrapped: BOOL]
\*   nil     - the value is None (only for a nillable choice; it is written by the FIRST nillable choice)
\*   wrapped - the value is DerivedElement(qname of choice c, value)
Item(c, i, nil, wrapped) == [c |-> c, i |-> i, nil |-> nil, wrapped |-> wrapped]

ChoiceNs(m, ch) == IF ch.ns = NONE THEN m.ns ELSE ch.ns
\* None is written by the first nillable choice that is not a tokens choice, an EMPTY tokens list by the
\* first nillable tokens choice (the documentation only says "nillable"; the split follows the code)
FirstNillableOf(m, tokens) == LET S == {k \in DOMAIN m.choices : m.choices[k].nillable /\ (m.choices[k].tp = "ints") = tokens} IN
                              IF S = {} THEN 0 ELSE CHOOSE k \in S : \A j \in S : k <= j
\* (what an EMPTY tokens list means inside a compound list is not documented and not demanded: the
\*  code writes it as the nil form of the first nillable tokens choice and reads that back as None)
NilChoices(m) == {FirstNillableOf(m, FALSE)} \ {0}

IsModel(tp) == tp \in {"Leaf", "Sub"}
XAttr(tp, i) == IF tp = "Leaf" THEN (IF i = 1 THEN "5" ELSE "6") ELSE (IF i = 1 THEN "6" ELSE "7")
HasChoiceOf(m, tp) == \E k \in DOMAIN m.choices : m.choices[k].tp = tp

\* the element the documentation prescribes for one item
ElemOf(m, it) ==
  LET ch == m.choices[it.c] IN
  \* (the documentation does not say what a nillable choice writes for a model WITHOUT element content; the
  \*  code marks it xsi:nil="true" next to its attributes, like a nillable element field does - followed here)
  [ns |-> ChoiceNs(m, ch), name |-> ch.name, nil |-> it.nil \/ (ch.nillable /\ IsModel(ch.tp)),
   text |-> IF it.nil \/ IsModel(ch.tp) THEN "" ELSE Lex(ch.tp, it.i),
   attrs |-> IF ~it.nil /\ IsModel(ch.tp) THEN << [name |-> "x", v |-> XAttr(ch.tp, it.i)] >> ELSE <<>>,
   \* a Sub instance under the choice of its BASE class is marked with xsi:type; under its own choice it is not
   xsitype |-> IF ~it.nil /\ ch.tp = "Leaf" /\ it.i = 2 THEN "Sub" ELSE NONE]
Prescribed(m, inst) == [k \in DOMAIN inst |-> ElemOf(m, inst[k])]

\* which items a model admits
\* (a value belongs to the choice that names its class EXACTLY; only without such a choice does a Sub instance
\*  go under the choice of its base class: wherever the base choice stands in the list)
ItemsOf(m) == {it \in {Item(c, i, FALSE, w) : c \in DOMAIN m.choices, i \in 1..2, w \in BOOLEAN} :
                 ~(m.choices[it.c].tp = "Leaf" /\ it.i = 2 /\ HasChoiceOf(m, "Sub"))} \cup
              \* (None in a single optional field means "absent", only a list can hold an explicit nil)
              {Item(c, 1, TRUE, FALSE) : c \in IF m.list THEN NilChoices(m) ELSE {}}
\* (a wrapped primitive is written with an xsi:type naming its XSD type; the harness materialises
\*  wrapping only where the model needs it, see compound_rt)
InstancesOf(m, maxLen) == UNION {[1..n -> ItemsOf(m)] : n \in 0..(IF m.list THEN maxLen ELSE 1)}

\* the context refuses choices whose item types coincide: a tokens choice of ints and an int choice clash
ItemType(tp) == IF tp = "ints" THEN "int" ELSE tp
WellFormed(m) == /\ \A a, b \in DOMAIN m.choices : a # b => /\ ItemType(m.choices[a].tp) # ItemType(m.choices[b].tp)
                                                            /\ <<m.choices[a].name, ChoiceNs(m, m.choices[a])>> # <<m.choices[b].name, ChoiceNs(m, m.choices[b])>>
\* the unwrapped/wrapped distinction is not visible in the document (documented: DerivedElement is
\* only produced by the parser where the name is needed to tell values apart), so injectivity is
\* stated modulo wrapping
Unwrap(inst) == [k \in DOMAIN inst |-> [inst[k] EXCEPT !.wrapped = FALSE]]
Injective(m, maxLen) == \A a, b \in InstancesOf(m, maxLen) : Prescribed(m, a) = Prescribed(m, b) => Unwrap(a) = Unwrap(b)
\* the reader's side: an element names exactly one choice
ChoicesFor(m, e) == {k \in DOMAIN m.choices : m.choices[k].name = e.name /\ ChoiceNs(m, m.choices[k]) = e.ns}
Determined(m, maxLen) == \A a \in InstancesOf(m, maxLen) : \A k \in DOMAIN a : ChoicesFor(m, Prescribed(m, a)[k]) = {a[k].c}
=============================================================================
