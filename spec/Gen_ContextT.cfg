SPECIFICATION Spec
CONSTANTS
  Classes <- MCClasses
  QNs <- MCQNs
  XsiPolicy = "publish"
  CachePolicy = "class"
  Vars <- MCVars
  MemoPolicy = "qname"
  NThreads = 2
  ProgIds = {1, 2, 3, 4}
  Warmth = {"cold", "warm"}
VIEW View
CONSTRAINT EmitDone
CHECK_DEADLOCK FALSE
