----------------------------- MODULE MC_Writer -----------------------------
(***************************************************************************)
(* Exploring specification for the writer: ALL well-nested receiver-call    *)
(* sequences (single root, depth <= MaxDepth, <= MaxEvents calls) over a    *)
(* small alphabet of names and values x a hostile set of user prefix maps x *)
(* indentation on/off.  Environment assumptions (what EventGenerator        *)
(* guarantees, checked separately on recorded traces): attributes only      *)
(* while the start tag is pending; QName-valued data only while pending.    *)
(***************************************************************************)
EXTENDS Writer, Json

CONSTANTS MaxDepth, MaxEvents, MaxAttrs, Indents, MapIds,
          Tolerated   \* failure tags of open known findings (known_findings.json)

VARIABLES w, open, n, um, hist

vars == <<w, open, n, um, hist>>

\* hostile user prefix maps (raw, before clean_prefixes)
UserMaps ==
  << <<>>,                                            \* 1 none
     << <<NONE, "a">> >>,                             \* 2 default = a
     << <<NONE, "b">> >>,                             \* 3 default = b
     << <<"ns1", "a">> >>,                            \* 4 collides with a generated prefix
     << <<"ns0", "b">>, <<"p", "a">> >>,              \* 5 ns0 taken, a prefixed
     << <<"p", "a">>, <<"q", "a">> >>,                \* 6 two prefixes, one URI
     << <<NONE, "a">>, <<"p", "a">> >>,               \* 7 default and prefix for one URI
     << <<"", "a">>, <<NONE, "b">> >>,                \* 8 empty-string key and None key
     << <<"xsi", "a">> >>,                            \* 9 xsi remapped
     << <<"p", "">>, <<"u", "c">> >>,                 \* 10 empty URI, unused entry
     << <<"ns2", "c">>, <<"ns1", "b">> >>,            \* 11 generated-looking prefixes, out of order
     << <<NONE, XSI>> >>,                             \* 12 default = xsi namespace
     << <<"p", "a">>, <<"", "a">> >>,                 \* 13 a prefix, THEN the default spelled "" for the same URI
     << <<"", "b">>, <<"q", "b">>, <<"p", "a">> >>    \* 14 the default spelled "" first, then a prefix for the same URI
  >>

ElemNames == {<<NoNs, "e">>, <<"a", "e">>, <<"b", "e">>}
AttrChoices ==
  {[name |-> <<NoNs, "k">>, value |-> VStr("v")],
   [name |-> <<"a", "k">>,  value |-> VStr("v")],
   [name |-> <<"b", "k">>,  value |-> VQName("a", "q")],
   [name |-> <<NoNs, "k">>, value |-> VQName(NoNs, "q")],
   [name |-> XSI_NIL,       value |-> VStr("true")],
   [name |-> XSI_TYPE,      value |-> VQName("b", "T")],
   [name |-> <<NoNs, "j">>, value |-> VClark(XS, "int", TRUE)],
   [name |-> <<NoNs, "j">>, value |-> VClark("a", "x", FALSE)]}
PlainData == {VNone, VStr(""), VStr("t")}
QData     == {VQName("a", "q"), VQName("b", "q"), VList(<<VStr("t"), VQName("b", "q")>>), VList(<<>>)}

Init ==
  /\ um \in MapIds
  /\ \E ind \in Indents : w = WInit(UserMaps[um], ind)
  /\ open = <<>> /\ n = 0 /\ hist = <<>>

Do(e) == w' = WStep(w, e) /\ hist' = Append(hist, e) /\ n' = n + 1 /\ um' = um

Next ==
  /\ n < MaxEvents /\ w.err = NONE /\ (open = <<>> => n = 0)
  /\ \/ /\ Len(open) < MaxDepth
        /\ \E nm \in ElemNames : Do([ev |-> "start", name |-> nm]) /\ open' = Append(open, nm)
     \/ /\ w.pendingTag # NoTag /\ Len(w.attrs) < MaxAttrs
        /\ \E a \in AttrChoices : Do([ev |-> "attr", name |-> a.name, value |-> a.value])
        /\ UNCHANGED open
     \/ /\ open # <<>>
        /\ \E v \in PlainData \cup (IF w.pendingTag # NoTag THEN QData ELSE {}) :
              Do([ev |-> "data", value |-> v])
        /\ UNCHANGED open
     \/ /\ open # <<>>
        /\ Do([ev |-> "end", name |-> Top(open)]) /\ open' = Pop(open)

Spec == Init /\ [][Next]_vars

\* what distinguishes states for the search: everything except the histories
View == <<[w EXCEPT !.out = <<>>], open, n, um>>

---------------------------------------------------------------------------
InvNative  == w.g.bad \subseteq Tolerated
InvLxml    == w.l.bad \subseteq Tolerated
InvSlots   == Slots(w)
InvNoCrash == w.err \in {NONE, "XmlWriterError"}
\* the two back ends are driven by the same SAX calls; they must agree on whether the
\* document is right
InvAgree   == (w.g.bad = {}) <=> (w.l.bad = {})

Done == open = <<>> /\ n > 0

\* behaviour emission (Gen configuration): one JSON line per completed document
EmitDone ==
  Done => PrintT(<<"CASE", ToJson([um |-> um, raw |-> UserMaps[um], indent |-> w.indent,
                                    events |-> hist, out |-> w.out,
                                    gbad |-> w.g.bad, lbad |-> w.l.bad])>>)
=============================================================================
