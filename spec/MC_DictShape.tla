---------------------------- MODULE MC_DictShape ----------------------------
(* Every (kind, shape, position) of DictShape.tla. *)
EXTENDS DictShape, Json
VARIABLES k, s, p
Init == k \in Kinds /\ s \in Shapes /\ p \in Positions
Next == UNCHANGED <<k, s, p>>
Spec == Init /\ [][Next]_<<k, s, p>>
InvTableSane == TableSane
Emit == PrintT(<<"SHAPE", ToJson([kind |-> k, shape |-> s, pos |-> p, canonical |-> Canonical(k, s), unconvertible |-> Unconvertible(k, s)])>>)
=============================================================================
