--------------------------- MODULE Trace_Container ---------------------------
(***************************************************************************)
(* Trace validation for the class container: every line of TRACE_FILE is    *)
(* one real generation, recorded around ClassContainer.process_classes      *)
(* ("begin", step) and process_class ("enter", class, step / "exit", class).*)
(* A trace is accepted iff every event is one the Container discipline      *)
(* allows: a class is entered only for the current step, only if it has not *)
(* reached it yet and is not already on the stack; returns are well nested; *)
(* a step begins with an empty stack and a larger number.                   *)
(***************************************************************************)
EXTENDS Naturals, Sequences, SequencesExt, FiniteSets, TLC, Json, IOUtils, TLCExt

Traces == ndJsonDeserialize(IOEnv.TRACE_FILE)
VARIABLES tid, i, st
tvars == <<tid, i, st>>

Has(m, k) == \E j \in DOMAIN m : m[j][1] = k
Get(m, k) == IF Has(m, k) THEN m[CHOOSE j \in DOMAIN m : m[j][1] = k][2] ELSE 0
Put(m, k, v) == IF Has(m, k) THEN FoldLeft(LAMBDA acc, e : Append(acc, IF e[1] = k THEN <<k, v>> ELSE e), <<>>, m) ELSE Append(m, <<k, v>>)

TInit == tid \in 1..Len(Traces) /\ i = 0 /\ st = [status |-> <<>>, step |-> 0, stack |-> <<>>]
Allowed(s, e) ==
  CASE e.ev = "begin" -> s.stack = <<>> /\ e.step > s.step
    [] e.ev = "enter" -> e.step = s.step /\ Get(s.status, e.c) < s.step /\ ~(\E j \in DOMAIN s.stack : s.stack[j] = e.c)
    [] e.ev = "exit"  -> s.stack # <<>> /\ s.stack[Len(s.stack)] = e.c /\ Get(s.status, e.c) = s.step
Apply(s, e) ==
  CASE e.ev = "begin" -> [s EXCEPT !.step = e.step]
    [] e.ev = "enter" -> [s EXCEPT !.status = Put(s.status, e.c, s.step), !.stack = Append(s.stack, e.c)]
    [] e.ev = "exit"  -> [s EXCEPT !.status = Put(s.status, e.c, s.step + 1), !.stack = SubSeq(s.stack, 1, Len(s.stack) - 1)]
TNext == /\ i < Len(Traces[tid].steps)
         /\ Allowed(st, Traces[tid].steps[i + 1])
         /\ st' = Apply(st, Traces[tid].steps[i + 1])
         /\ i' = i + 1 /\ tid' = tid
Progress == TLCSet(tid, IF i > TLCGet(tid) THEN i ELSE TLCGet(tid))
InitRegs == \A t \in 1..Len(Traces) : TLCSet(t, 0)
TSpecR == (InitRegs /\ TInit) /\ [][TNext]_tvars
Accepted == \A t \in 1..Len(Traces) :
   IF TLCGet(t) = Len(Traces[t].steps) THEN TRUE
   ELSE PrintT(<<"REJECT", ToJson([id |-> Traces[t].id, matched |-> TLCGet(t), of |-> Len(Traces[t].steps)])>>)
=============================================================================
