-------------------------------- MODULE Wsdl --------------------------------
(***************************************************************************)
(* WSDL 1.1 with SOAP 1.1 bindings as a source language, the service        *)
(* description and envelopes a definition PRESCRIBES (the contract the      *)
(* generated code is held to), and formats/dataclass/client.py Client.send  *)
(* as four actions: prepare_payload, prepare_headers, post, parse.          *)
(*                                                                         *)
(* A definition:  [tns, bindingStyle, ops |-> Seq(Op), location, transport] *)
(* An operation:  [name, style ("" = inherit the binding's), parts          *)
(*                 ("element" | "type"), action, header, fault,             *)
(*                 nparts (rpc: 1 or 2 simple parts), complexPart (rpc: one *)
(*                 more part of a complex type)]                            *)
(* The header message has two parts (au: Audit, auth: Auth); soap:header     *)
(* selects part="auth", so the Header holds the Auth element only.          *)
(* d.types: "inline" | "imported" (the schema of wsdl:types lives in a      *)
(*                 file of its own, reached by xsd:import) | "wsdl-import"  *)
(*                 (an interface WSDL with its own inline types is imported *)
(*                 by the binding / service WSDL, which has inline types    *)
(*                 too: the schemas of BOTH documents count)                *)
(***************************************************************************)
EXTENDS Naturals, Sequences, SequencesExt, FiniteSets, TLC

SOAPENV  == "http://schemas.xmlsoap.org/soap/envelope/"
SOAPHTTP == "http://schemas.xmlsoap.org/soap/http"
NONE == "__none__"

EffStyle(d, o) == IF o.style = "" THEN d.bindingStyle ELSE o.style

\* the service description one operation prescribes
Service(d, o) ==
  [style |-> EffStyle(d, o), location |-> d.location, transport |-> d.transport,
   soapAction |-> o.action]          \* an empty soapAction may be left out of the description

\* the request envelope: a document [name, kids | text]
Leaf(ns, local, text) == [name |-> <<ns, local>>, text |-> text, kids |-> <<>>]
Node(ns, local, kids) == [name |-> <<ns, local>>, text |-> "", kids |-> kids]
\* the namespace of the rpc wrapper element is the one the soap:body extension NAMES (d.bodyNs = "other": another one than
\* the target namespace of the definitions)
BodyNs(d) == IF d.bodyNs = "other" THEN "urn:svc:body" ELSE d.tns
RequestBody(d, o) ==
  IF EffStyle(d, o) = "rpc"
  THEN \* the operation wrapper in the soap:body namespace, one accessor per message part in part order,
       \* accessors unqualified; a part of a complex type holds that type's (qualified) local elements
       Node(BodyNs(d), o.name, << Leaf("", "a", "7") >>
                           \o (IF o.nparts = 2 THEN << Leaf("", "b", "s") >> ELSE <<>>)
                           \o (IF o.complexPart THEN << Node("", "c", << Leaf(d.tns, "x", "7"), Leaf(d.tns, "y", "s") >>) >> ELSE <<>>))
  ELSE \* document/literal: the part's element itself
       Node(d.tns, o.name \o "Request", << Leaf(d.tns, "a", "7") >>)
\* the header elements may be declared in a SECOND inline schema of <types> that does not say elementFormDefault (so its
\* local elements are unqualified), after a first one that says "qualified": every schema has its own form default
HdrChildNs(d) == IF d.hdrForm = "unqualified" /\ d.types = "inline" THEN "" ELSE d.tns
RequestEnvelope(d, o) ==
  Node(SOAPENV, "Envelope",
       \* d.nhdr = 2: the binding input carries TWO soap:header elements (two parts of one header message): one Header
       \* element holding both header blocks, in the order of the soap:header elements
       (IF o.header THEN << Node(SOAPENV, "Header", << Node(d.tns, "Auth", << Leaf(HdrChildNs(d), "token", "s") >>) >>
                                                       \o (IF d.nhdr = 2 THEN << Node(d.tns, "Audit", << Leaf(HdrChildNs(d), "who", "s") >>) >> ELSE <<>>)) >> ELSE <<>>)
       \o << Node(SOAPENV, "Body", << RequestBody(d, o) >>) >>)

\* --- the client exchange ---------------------------------------------------
\* c = [pc, payload, headers, posted, result, err]
CInit(userHeaders) == [pc |-> "prepare_payload", payload |-> NONE, headers |-> userHeaders, posted |-> <<>>, result |-> NONE, err |-> NONE]
Has(m, k) == \E i \in DOMAIN m : m[i][1] = k
Put(m, k, v) == IF Has(m, k) THEN FoldLeft(LAMBDA acc, e : Append(acc, IF e[1] = k THEN <<k, v>> ELSE e), <<>>, m) ELSE Append(m, <<k, v>>)

CStep(c, d, o, inputOk) ==
  CASE c.pc = "prepare_payload" ->
         IF ~inputOk THEN [c EXCEPT !.pc = "failed", !.err = "ClientValueError"]
         ELSE [c EXCEPT !.pc = "prepare_headers", !.payload = "envelope"]
    [] c.pc = "prepare_headers" ->
         IF d.transport # SOAPHTTP THEN [c EXCEPT !.pc = "failed", !.err = "ClientValueError"]
         ELSE [c EXCEPT !.pc = "post",
                        !.headers = LET h1 == Put(c.headers, "content-type", "text/xml")
                                    IN IF o.action # "" THEN Put(h1, "SOAPAction", o.action) ELSE h1]
    [] c.pc = "post" -> [c EXCEPT !.pc = "parse", !.posted = Append(c.posted, [url |-> d.location, data |-> c.payload, headers |-> c.headers])]
    [] c.pc = "parse" -> [c EXCEPT !.pc = "done", !.result = "output"]
    [] OTHER -> c

\* properties of the exchange
ExchangeOk(c, d, o) ==
  /\ c.pc = "done" => /\ Len(c.posted) = 1
                      /\ c.posted[1].data = "envelope" /\ c.posted[1].url = d.location
                      /\ Has(c.posted[1].headers, "content-type")
                      /\ (o.action # "" <=> Has(c.posted[1].headers, "SOAPAction"))
  /\ c.pc = "failed" => c.posted = <<>>       \* nothing is sent when the call is rejected
=============================================================================
