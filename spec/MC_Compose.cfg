SPECIFICATION Spec
CONSTANTS
  MaxDocIdx = 5
CONSTRAINT MCOnly
INVARIANT InvFixpointIsWalk
INVARIANT InvLegalDerivation
INVARIANT InvHeadsAccepted
INVARIANT InvOccRespected
CHECK_DEADLOCK FALSE
