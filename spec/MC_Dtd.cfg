SPECIFICATION Spec
CONSTANTS
  MaxDocIdx = 0
CONSTRAINT MCOnly
INVARIANT InvConstructionValid
CHECK_DEADLOCK FALSE
