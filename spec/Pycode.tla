------------------------------- MODULE Pycode -------------------------------
(***************************************************************************)
(* serializers/code.py PycodeSerializer and utils/objects.py literal_value: *)
(* a value is rendered as a Python expression plus import lines; executing  *)
(* the text in a fresh namespace must rebuild an equal value.  What matters *)
(* for that is (1) which NAMES the expression mentions and which names the  *)
(* import lines bind, (2) which container kind is written for a collection, *)
(* (3) which fields are elided because they equal their default.            *)
(*                                                                         *)
(* Types live at a home  [mod |-> module, path |-> qualname as a Seq].      *)
(* Values:                                                                  *)
(*   [t |-> "prim", v]                    int/str/bool/None/bytes literals   *)
(*   [t |-> "obj", home, text]            repr() is a call; `text` is the    *)
(*                                         dotted name the repr starts with   *)
(*   [t |-> "enum", home, member]                                           *)
(*   [t |-> "seq", kind, items]           kind in list/tuple                 *)
(*   [t |-> "map", items]                 items: Seq(<<key, value>>)         *)
(*   [t |-> "model", home, fields]        fields: Seq([name, v, dflt])       *)
(*                                         dflt = a value or NoDefault        *)
(***************************************************************************)
EXTENDS Naturals, Sequences, SequencesExt, FiniteSets, TLC

CONSTANTS EnumNamePolicy,  \* "name" (as shipped: str(member) = ClassName.MEMBER) | "qualname"
          SeqPolicy        \* "list" (as shipped: every collection is written as [...]) | "kind"

NoDefault == [t |-> "nodefault"]

\* expressions: [e |-> "lit", v] | [e |-> "name", path, home] | [e |-> "call", path, home, args]
\*            | [e |-> "seq", kind, items]
\* (home rides along as ghost so that Eval can tell WHICH object a resolvable name denotes)
RECURSIVE Render(_)
Render(v) ==
  CASE v.t = "prim" -> [e |-> "lit", v |-> v.v]
    [] v.t = "obj"  -> [e |-> "name", path |-> v.text, home |-> v.home, v |-> v]
    [] v.t = "enum" -> [e |-> "name",
                        path |-> IF EnumNamePolicy = "qualname" THEN Append(v.home.path, v.member)
                                 ELSE <<Last(v.home.path), v.member>>,
                        home |-> v.home, v |-> v]
    [] v.t = "seq"  -> [e |-> "seq", kind |-> IF SeqPolicy = "kind" THEN v.kind ELSE "list",
                        items |-> FoldLeft(LAMBDA acc, x : Append(acc, Render(x)), <<>>, v.items)]
    \* a mapping: keys are rendered like any other object (a QName or an enum member as key needs its import too)
    [] v.t = "map"  -> [e |-> "map", items |-> FoldLeft(LAMBDA acc, kv : Append(acc, <<Render(kv[1]), Render(kv[2])>>), <<>>, v.items)]
    [] v.t = "model" ->
         [e |-> "call", path |-> v.home.path, home |-> v.home,
          args |-> FoldLeft(LAMBDA acc, f : IF f.dflt # NoDefault /\ f.dflt = f.v THEN acc
                                            ELSE Append(acc, [name |-> f.name, x |-> Render(f.v)]),
                            <<>>, v.fields),
          fields |-> v.fields]

\* build_imports: for every type seen, "from <module> import <first component of qualname>"
RECURSIVE Types(_)
Types(v) ==
  CASE v.t = "prim" -> {}
    [] v.t \in {"obj", "enum"} -> {v.home}
    [] v.t = "seq" -> UNION {Types(v.items[i]) : i \in DOMAIN v.items}
    [] v.t = "map" -> UNION {Types(v.items[i][1]) \cup Types(v.items[i][2]) : i \in DOMAIN v.items}
    [] v.t = "model" -> {v.home} \cup UNION {IF v.fields[i].dflt # NoDefault /\ v.fields[i].dflt = v.fields[i].v THEN {} ELSE Types(v.fields[i].v) : i \in DOMAIN v.fields}
Imports(v) == {[mod |-> h.mod, name |-> h.path[1]] : h \in {x \in Types(v) : x.mod # "builtins"}}

\* a dotted name resolves iff its first component was imported from the module where the
\* object lives and the rest is the object's qualified path below that component
Resolves(path, home, imports) ==
  /\ (home.mod = "builtins" \/ [mod |-> home.mod, name |-> path[1]] \in imports)
  /\ \/ path = home.path
     \/ (Len(path) = Len(home.path) + 1 /\ SubSeq(path, 1, Len(home.path)) = home.path)   \* Enum member

\* evaluation in a fresh namespace: [ok, v]
RECURSIVE Eval(_, _)
Eval(x, imports) ==
  CASE x.e = "lit"  -> [ok |-> TRUE, v |-> [t |-> "prim", v |-> x.v]]
    [] x.e = "name" -> IF Resolves(x.path, x.home, imports) THEN [ok |-> TRUE, v |-> x.v] ELSE [ok |-> FALSE, v |-> [t |-> "prim", v |-> "NameError"]]
    [] x.e = "seq"  ->
         LET parts == FoldLeft(LAMBDA acc, i : Append(acc, Eval(i, imports)), <<>>, x.items)
         IN IF \E k \in DOMAIN parts : ~parts[k].ok THEN [ok |-> FALSE, v |-> [t |-> "prim", v |-> "NameError"]]
            ELSE [ok |-> TRUE, v |-> [t |-> "seq", kind |-> x.kind, items |-> FoldLeft(LAMBDA acc, p : Append(acc, p.v), <<>>, parts)]]
    [] x.e = "map"  ->
         LET parts == FoldLeft(LAMBDA acc, kv : Append(acc, <<Eval(kv[1], imports), Eval(kv[2], imports)>>), <<>>, x.items)
         IN IF \E k \in DOMAIN parts : ~parts[k][1].ok \/ ~parts[k][2].ok THEN [ok |-> FALSE, v |-> [t |-> "prim", v |-> "NameError"]]
            ELSE [ok |-> TRUE, v |-> [t |-> "map", items |-> FoldLeft(LAMBDA acc, p : Append(acc, <<p[1].v, p[2].v>>), <<>>, parts)]]
    [] x.e = "call" ->
         IF ~Resolves(x.path, x.home, imports) THEN [ok |-> FALSE, v |-> [t |-> "prim", v |-> "NameError"]]
         ELSE LET given == FoldLeft(LAMBDA acc, a : Append(acc, [name |-> a.name, r |-> Eval(a.x, imports)]), <<>>, x.args)
              IN IF \E k \in DOMAIN given : ~given[k].r.ok THEN [ok |-> FALSE, v |-> [t |-> "prim", v |-> "NameError"]]
                 ELSE [ok |-> TRUE,
                       v |-> [t |-> "model", home |-> x.home,
                              fields |-> FoldLeft(LAMBDA acc, f :
                                  LET hit == SelectSeq(given, LAMBDA g : g.name = f.name)
                                  IN Append(acc, [name |-> f.name, v |-> IF hit = <<>> THEN f.dflt ELSE hit[1].r.v, dflt |-> f.dflt]),
                                  <<>>, x.fields)]]

\* C18 on the specification
EvaluatesBack(v) == LET r == Eval(Render(v), Imports(v)) IN r.ok /\ r.v = v
=============================================================================
