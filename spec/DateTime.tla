------------------------------ MODULE DateTime ------------------------------
(***************************************************************************)
(* xsdata/utils/dates.py (DateTimeParser, the validate and format helpers) and the     *)
(* from_string / __str__ / ordering of models/datatype.py, next to an       *)
(* INDEPENDENT reference: the lexical grammars and validity rules of XML    *)
(* Schema Part 2 (dateTime, date, time, g*, duration) and an exact          *)
(* timeline over the proleptic Gregorian calendar.                          *)
(*                                                                         *)
(* Text is a sequence of one-character strings.  Integers stay far below    *)
(* 2^31 (day numbers, seconds of day, nanoseconds are kept apart).          *)
(*                                                                         *)
(*   Code*  operators transcribe the implementation, step for step          *)
(*   Xsd*   operators are the reference (never derived from the code)       *)
(***************************************************************************)
EXTENDS Naturals, Integers, Sequences, SequencesExt, FiniteSets, TLC

CONSTANTS DatePolicy   \* "shipped": XmlDate.from_string does not validate the calendar
                       \*            date and XmlPeriod validates (month or 1, day or 1)
                       \* "repaired": both validate what they parsed

NoOffset == 100000     \* Python None for the timezone offset
Absent   == 100001     \* Python None for a period component

Digits == {"0", "1", "2", "3", "4", "5", "6", "7", "8", "9"}
IsDigit(c) == c \in Digits
DigitVal(c) ==
  CASE c = "0" -> 0 [] c = "1" -> 1 [] c = "2" -> 2 [] c = "3" -> 3 [] c = "4" -> 4
    [] c = "5" -> 5 [] c = "6" -> 6 [] c = "7" -> 7 [] c = "8" -> 8 [] c = "9" -> 9

Sub(s, a, b) == IF a > b THEN <<>> ELSE SubSeq(s, a, IF b > Len(s) THEN Len(s) ELSE b)
AllDigits(s) == \A i \in DOMAIN s : IsDigit(s[i])

RECURSIVE NumOf(_)
NumOf(s) == IF s = <<>> THEN 0 ELSE NumOf(SubSeq(s, 1, Len(s) - 1)) * 10 + DigitVal(s[Len(s)])

\* ---------------------------------------------------------------------------
\* Python int(str) on short ASCII strings: optional surrounding blanks, optional sign,
\* digits with single underscores between digits.   [ok, v]
Blank(c) == c \in {" ", "\t", "\n", "\r"}
RECURSIVE LStrip(_)
LStrip(s) == IF s # <<>> /\ Blank(s[1]) THEN LStrip(Tail(s)) ELSE s
RECURSIVE RStrip(_)
RStrip(s) == IF s # <<>> /\ Blank(s[Len(s)]) THEN RStrip(SubSeq(s, 1, Len(s) - 1)) ELSE s
Strip(s) == RStrip(LStrip(s))

UnderscoresOk(s) ==
  /\ s # <<>> /\ IsDigit(s[1]) /\ IsDigit(s[Len(s)])
  /\ \A i \in DOMAIN s : IsDigit(s[i]) \/ (s[i] = "_" /\ i > 1 /\ i < Len(s) /\ IsDigit(s[i-1]) /\ IsDigit(s[i+1]))
PyInt(raw) ==
  LET s  == Strip(raw)
      sg == IF s # <<>> /\ s[1] \in {"+", "-"} THEN s[1] ELSE ""
      b  == IF sg = "" THEN s ELSE Tail(s)
  IN IF UnderscoresOk(b)
     THEN LET n == NumOf(SelectSeq(b, IsDigit)) IN [ok |-> TRUE, v |-> IF sg = "-" THEN 0 - n ELSE n]
     ELSE [ok |-> FALSE, v |-> 0]

\* ---------------------------------------------------------------------------
\* The calendar (reference)
IsLeap(y)  == (y % 4 = 0 /\ y % 100 # 0) \/ y % 400 = 0
MDays(y, m) == CASE m \in {1, 3, 5, 7, 8, 10, 12} -> 31 [] m \in {4, 6, 9, 11} -> 30
                 [] m = 2 -> IF IsLeap(y) THEN 29 ELSE 28 [] OTHER -> 0
RealDate(y, m, d) == m \in 1..12 /\ d >= 1 /\ d <= MDays(y, m)
RealTime(h, mi, s, f) ==
  /\ h \in 0..24 /\ mi \in 0..59 /\ s \in 0..59 /\ f \in 0..999999999
  /\ (h = 24 => mi = 0 /\ s = 0 /\ f = 0)

\* days from civil (Hinnant), exact integer arithmetic, any signed year
FloorDiv(a, b) == IF a >= 0 THEN a \div b ELSE 0 - ((0 - a + b - 1) \div b)
DaysFromCivil(y0, m, d) ==
  LET y   == IF m <= 2 THEN y0 - 1 ELSE y0
      era == FloorDiv(y, 400)
      yoe == y - era * 400
      mp  == IF m > 2 THEN m - 3 ELSE m + 9
      doy == (153 * mp + 2) \div 5 + d - 1
      doe == yoe * 365 + yoe \div 4 - yoe \div 100 + doy
  IN era * 146097 + doe - 719468

\* a dateTime value [y, mo, d, h, mi, s, f, off] -> <<day, second of day, nanosecond>> in UTC
\* (a missing offset is taken as UTC, as the library's comparison does; only pairs that both
\*  have or both lack an offset are ever compared)
Timeline(v) ==
  LET off  == IF v.off = NoOffset THEN 0 ELSE v.off
      secs == v.h * 3600 + v.mi * 60 + v.s - off * 60
      dd   == FloorDiv(secs, 86400)
  IN <<DaysFromCivil(v.y, v.mo, v.d) + dd, secs - dd * 86400, v.f>>
TimeOfDayLine(v) ==
  LET off == IF v.off = NoOffset THEN 0 ELSE v.off
  IN <<v.h * 3600 + v.mi * 60 + v.s - off * 60, v.f>>

LexLt(a, b) ==
  \E k \in DOMAIN a : a[k] < b[k] /\ \A j \in 1..(k - 1) : a[j] = b[j]

\* ---------------------------------------------------------------------------
\* DateTimeParser, transcribed.  Scanner state:
\*   [v |-> chars, i |-> vidx (0-based, as in the code), args |-> Seq(Int), err |-> BOOLEAN]
HasMore(sc) == sc.i < Len(sc.v)
Peek(sc)    == sc.v[sc.i + 1]             \* caller guards; IndexError otherwise
Fail(sc)    == [sc EXCEPT !.err = TRUE]
Yield(sc, x) == [sc EXCEPT !.args = Append(sc.args, x)]

\* skip(char)
Skip(sc, c) == IF ~HasMore(sc) \/ Peek(sc) # c THEN Fail(sc) ELSE [sc EXCEPT !.i = sc.i + 1]

\* parse_digits(n): int(value[start:start+n]); vidx moves by n even past the end
ParseDigits(sc, n) ==
  LET r == PyInt(Sub(sc.v, sc.i + 1, sc.i + n))
  IN IF r.ok THEN Yield([sc EXCEPT !.i = sc.i + n], r.v) ELSE Fail(sc)

RECURSIVE DigitRun(_, _)
DigitRun(v, i) == IF i < Len(v) /\ IsDigit(v[i + 1]) THEN DigitRun(v, i + 1) ELSE i

LeadingZeros(raw) ==
  IF \A k \in DOMAIN raw : raw[k] = "0" THEN Len(raw)
  ELSE (CHOOSE k \in DOMAIN raw : raw[k] # "0" /\ \A j \in 1..(k - 1) : raw[j] = "0") - 1

\* parse_year()
ParseYear(sc) ==
  IF ~HasMore(sc) THEN Fail(sc)                        \* peek() raises IndexError
  ELSE LET neg   == Peek(sc) = "-"
           start == IF neg THEN sc.i + 1 ELSE sc.i
           stop  == DigitRun(sc.v, start + 4)          \* vidx += 4, then while isdigit
           raw   == Sub(sc.v, start + 1, stop)
           r     == PyInt(raw)
           lz    == LeadingZeros(raw)
       IN IF ~r.ok THEN Fail(sc)
          ELSE IF (lz = 1 /\ r.v > 999) \/ (lz = 2 /\ r.v > 99) \/ (lz = 3 /\ r.v > 9)
                  \/ (lz = 4 /\ r.v > 0) \/ lz > 4 THEN Fail(sc)
          ELSE Yield([sc EXCEPT !.i = stop], IF neg THEN 0 - r.v ELSE r.v)

RECURSIVE DigitRunMax(_, _, _)
DigitRunMax(v, i, n) == IF n > 0 /\ i < Len(v) /\ IsDigit(v[i + 1]) THEN DigitRunMax(v, i + 1, n - 1) ELSE i
RECURSIVE Pow10(_)
Pow10(n) == IF n = 0 THEN 1 ELSE 10 * Pow10(n - 1)

\* parse_fractional_second(): up to nine digits, right padded with zeros
ParseFraction(sc) ==
  IF HasMore(sc) /\ Peek(sc) = "."
  THEN LET stop == DigitRunMax(sc.v, sc.i + 1, 9)
           ds   == Sub(sc.v, sc.i + 2, stop)
       IN Yield([sc EXCEPT !.i = stop], NumOf(ds) * Pow10(9 - Len(ds)))
  ELSE Yield(sc, 0)

\* parse_offset()
ParseOffset(sc) ==
  IF ~HasMore(sc) THEN Yield(sc, NoOffset)
  ELSE LET c == Peek(sc)
       IN IF c = "Z" THEN Yield([sc EXCEPT !.i = sc.i + 1], 0)
          ELSE IF c \in {"-", "+"}
          THEN LET s1 == ParseDigits([sc EXCEPT !.i = sc.i + 1, !.args = <<>>], 2)
                   s2 == IF s1.err THEN s1 ELSE Skip(s1, ":")
                   s3 == IF s2.err THEN s2 ELSE ParseDigits(s2, 2)
               IN IF s3.err THEN Fail(sc)
                  ELSE LET m == s3.args[1] * 60 + s3.args[2]
                       IN Yield([sc EXCEPT !.i = s3.i], IF c = "-" THEN 0 - m ELSE m)
          ELSE Fail(sc)

\* parse_var(var)
ParseVar(sc, var) ==
  CASE var \in {"%d", "%m", "%H", "%M"} -> ParseDigits(sc, 2)
    [] var = "%Y" -> ParseYear(sc)
    [] var = "%S" -> LET s1 == ParseDigits(sc, 2) IN IF s1.err THEN s1 ELSE ParseFraction(s1)
    [] var = "%z" -> ParseOffset(sc)
    [] OTHER -> Fail(sc)

\* one step of parse(): the next format item
ScanStep(sc, item) == IF Len(item) = 2 THEN ParseVar(sc, item) ELSE Skip(sc, item)

RECURSIVE ScanLoop(_, _)
ScanLoop(sc, fmt) ==
  IF sc.err THEN sc
  ELSE IF fmt = <<>> THEN (IF sc.i # Len(sc.v) THEN Fail(sc) ELSE sc)
  ELSE ScanLoop(ScanStep(sc, Head(fmt)), Tail(fmt))

\* parse_date_args(value, fmt):  value.strip() first
Scan(chars, fmt) == ScanLoop([v |-> Strip(chars), i |-> 0, args |-> <<>>, err |-> FALSE], fmt)

F_DATE        == <<"%Y", "-", "%m", "-", "%d", "%z">>
F_TIME        == <<"%H", ":", "%M", ":", "%S", "%z">>
F_DATE_TIME   == <<"%Y", "-", "%m", "-", "%d", "T", "%H", ":", "%M", ":", "%S", "%z">>
F_G_DAY       == <<"-", "-", "-", "%d", "%z">>
F_G_MONTH     == <<"-", "-", "%m", "%z">>
F_G_MONTH_DAY == <<"-", "-", "%m", "-", "%d", "%z">>
F_G_YEAR      == <<"%Y", "%z">>
F_G_YEAR_MONTH == <<"%Y", "-", "%m", "%z">>

\* validate_date / validate_time (calendar.isleap, monthlen)
CodeValidDate(y, m, d) == m >= 1 /\ m <= 12 /\ d >= 1 /\ d <= MDays(y, m)
CodeValidTime(h, mi, s, f) ==
  /\ h >= 0 /\ h <= 24 /\ ~(h = 24 /\ (mi # 0 \/ s # 0 \/ f # 0))
  /\ mi >= 0 /\ mi <= 59 /\ s >= 0 /\ s <= 59 /\ f >= 0 /\ f <= 999999999

Rejected == [ok |-> FALSE]
\* XmlDate.from_string / XmlTime.from_string / XmlDateTime.from_string
CodeDate(chars) ==
  LET sc == Scan(chars, F_DATE)
  IN IF sc.err THEN Rejected
     ELSE IF DatePolicy = "repaired" /\ ~CodeValidDate(sc.args[1], sc.args[2], sc.args[3]) THEN Rejected
     ELSE [ok |-> TRUE, y |-> sc.args[1], mo |-> sc.args[2], d |-> sc.args[3], off |-> sc.args[4]]
CodeTime(chars) ==
  LET sc == Scan(chars, F_TIME)
  IN IF sc.err THEN Rejected
     ELSE IF ~CodeValidTime(sc.args[1], sc.args[2], sc.args[3], sc.args[4]) THEN Rejected
     ELSE [ok |-> TRUE, h |-> sc.args[1], mi |-> sc.args[2], s |-> sc.args[3], f |-> sc.args[4], off |-> sc.args[5]]
CodeDateTime(chars) ==
  LET sc == Scan(chars, F_DATE_TIME)
  IN IF sc.err THEN Rejected
     ELSE IF ~CodeValidDate(sc.args[1], sc.args[2], sc.args[3])
             \/ ~CodeValidTime(sc.args[4], sc.args[5], sc.args[6], sc.args[7]) THEN Rejected
     ELSE [ok |-> TRUE, y |-> sc.args[1], mo |-> sc.args[2], d |-> sc.args[3], h |-> sc.args[4],
           mi |-> sc.args[5], s |-> sc.args[6], f |-> sc.args[7], off |-> sc.args[8]]

\* XmlPeriod._parse_period (value already stripped by __init__)
StartsWith(s, p) == Len(s) >= Len(p) /\ SubSeq(s, 1, Len(p)) = p
RFind(s, c) == IF \E k \in DOMAIN s : s[k] = c
               THEN (CHOOSE k \in DOMAIN s : s[k] = c /\ \A j \in (k + 1)..Len(s) : s[j] # c) - 1
               ELSE 0 - 1
CodePeriod(chars0) ==
  LET chars == Strip(chars0)
      mk(y, mo, d, off) ==
        IF DatePolicy = "repaired"
        THEN IF (mo # Absent /\ (mo < 1 \/ mo > 12))
                \/ (d # Absent /\ ~CodeValidDate(0, IF mo = Absent THEN 1 ELSE mo, d)) THEN Rejected
             ELSE [ok |-> TRUE, y |-> y, mo |-> mo, d |-> d, off |-> off]
        ELSE \* validate_date(0, month or 1, day or 1)
             IF ~CodeValidDate(0, IF mo = Absent \/ mo = 0 THEN 1 ELSE mo, IF d = Absent \/ d = 0 THEN 1 ELSE d)
             THEN Rejected ELSE [ok |-> TRUE, y |-> y, mo |-> mo, d |-> d, off |-> off]
  IN IF StartsWith(chars, <<"-", "-", "-">>)
     THEN LET sc == Scan(chars, F_G_DAY)
          IN IF sc.err THEN Rejected ELSE mk(Absent, Absent, sc.args[1], sc.args[2])
     ELSE IF StartsWith(chars, <<"-", "-">>)
     THEN LET v == IF Sub(chars, 5, 6) = <<"-", "-">> THEN Sub(chars, 1, 4) \o Sub(chars, 7, Len(chars)) ELSE chars
          IN IF Len(v) \in {4, 5, 10}
             THEN LET sc == Scan(v, F_G_MONTH) IN IF sc.err THEN Rejected ELSE mk(Absent, sc.args[1], Absent, sc.args[2])
             ELSE LET sc == Scan(v, F_G_MONTH_DAY)
                  IN IF sc.err THEN Rejected ELSE mk(Absent, sc.args[1], sc.args[2], sc.args[3])
     ELSE LET end == IF \E k \in DOMAIN chars : chars[k] = ":" THEN Len(chars) - 6 ELSE Len(chars)
          IN IF RFind(Sub(chars, 1, end), "-") > 3
             THEN LET sc == Scan(chars, F_G_YEAR_MONTH)
                  IN IF sc.err THEN Rejected ELSE mk(sc.args[1], sc.args[2], Absent, sc.args[3])
             ELSE LET sc == Scan(chars, F_G_YEAR)
                  IN IF sc.err THEN Rejected ELSE mk(sc.args[1], Absent, Absent, sc.args[2])

\* ---------------------------------------------------------------------------
\* Formatting, transcribed (format_date, format_time, format_offset)
RECURSIVE DigitsOf(_)
DigitsOf(n) == IF n < 10 THEN <<ToString(n)>> ELSE Append(DigitsOf(n \div 10), ToString(n % 10))
RECURSIVE ZPad(_, _)
ZPad(ds, w) == IF Len(ds) >= w THEN ds ELSE ZPad(<<"0">> \o ds, w)
Pad(n, w) == ZPad(DigitsOf(n), w)

CodeFormatDate(y, m, d) ==
  (IF y < 0 THEN <<"-">> ELSE <<>>) \o Pad(IF y < 0 THEN 0 - y ELSE y, 4) \o <<"-">> \o Pad(m, 2) \o <<"-">> \o Pad(d, 2)
CodeFormatTime(h, mi, s, f) ==
  LET base == Pad(h, 2) \o <<":">> \o Pad(mi, 2) \o <<":">> \o Pad(s, 2)
  IN IF f = 0 THEN base
     ELSE IF f % 1000 # 0 THEN base \o <<".">> \o Pad(f, 9)
     ELSE IF (f \div 1000) % 1000 # 0 THEN base \o <<".">> \o Pad(f \div 1000, 6)
     ELSE base \o <<".">> \o Pad(f \div 1000000, 3)
CodeFormatOffset(off) ==
  IF off = NoOffset THEN <<>>
  ELSE IF off = 0 THEN <<"Z">>
  ELSE LET a == IF off < 0 THEN 0 - off ELSE off
       IN <<IF off < 0 THEN "-" ELSE "+">> \o Pad(a \div 60, 2) \o <<":">> \o Pad(a % 60, 2)

CodeStrDate(v)     == CodeFormatDate(v.y, v.mo, v.d) \o CodeFormatOffset(v.off)
CodeStrTime(v)     == CodeFormatTime(v.h, v.mi, v.s, v.f) \o CodeFormatOffset(v.off)
CodeStrDateTime(v) == CodeFormatDate(v.y, v.mo, v.d) \o <<"T">> \o CodeFormatTime(v.h, v.mi, v.s, v.f) \o CodeFormatOffset(v.off)

\* ---------------------------------------------------------------------------
\* The XSD reference grammars.  Recognisers return [ok, i (next 1-based position), v]
XDigitsN(s, i, n) ==     \* exactly n digits at i
  IF i + n - 1 <= Len(s) /\ AllDigits(SubSeq(s, i, i + n - 1))
  THEN [ok |-> TRUE, i |-> i + n, v |-> NumOf(SubSeq(s, i, i + n - 1))] ELSE [ok |-> FALSE, i |-> i, v |-> 0]
XLit(s, i, c) == i <= Len(s) /\ s[i] = c

\* yearFrag ::= '-'? (([1-9] digit digit digit+) | ('0' digit digit digit))
XYear(s, i0) ==
  LET neg == XLit(s, i0, "-")
      i   == IF neg THEN i0 + 1 ELSE i0
      j   == DigitRun(s, i - 1)              \* 0-based index after the digit run
      ds  == Sub(s, i, j)
  IN IF Len(ds) < 4 \/ (Len(ds) > 4 /\ ds[1] = "0") \/ Len(ds) > 7
     THEN [ok |-> FALSE, i |-> i0, v |-> 0]
     ELSE [ok |-> TRUE, i |-> j + 1, v |-> IF neg THEN 0 - NumOf(ds) ELSE NumOf(ds)]

\* timezoneFrag ::= 'Z' | ('+' | '-') (('0' digit | '1' [0-3]) ':' minuteFrag | '14:00')
XZone(s, i) ==
  IF i > Len(s) THEN [ok |-> TRUE, i |-> i, v |-> NoOffset]
  ELSE IF s[i] = "Z" THEN [ok |-> TRUE, i |-> i + 1, v |-> 0]
  ELSE IF s[i] \in {"+", "-"}
  THEN LET hh == XDigitsN(s, i + 1, 2)
           mm == XDigitsN(s, i + 4, 2)
       IN IF hh.ok /\ XLit(s, i + 3, ":") /\ mm.ok /\ mm.v <= 59 /\ (hh.v <= 13 \/ (hh.v = 14 /\ mm.v = 0))
          THEN [ok |-> TRUE, i |-> i + 6, v |-> IF s[i] = "-" THEN 0 - (hh.v * 60 + mm.v) ELSE hh.v * 60 + mm.v]
          ELSE [ok |-> FALSE, i |-> i, v |-> 0]
  ELSE [ok |-> FALSE, i |-> i, v |-> 0]

\* secondFrag ::= digit digit ('.' digit+)?     (at most nine fraction digits demanded here)
XFraction(s, i) ==
  IF XLit(s, i, ".")
  THEN LET j == DigitRun(s, i)  ds == Sub(s, i + 1, j)
       IN IF Len(ds) = 0 \/ Len(ds) > 9 THEN [ok |-> FALSE, i |-> i, v |-> 0]
          ELSE [ok |-> TRUE, i |-> j + 1, v |-> NumOf(ds) * Pow10(9 - Len(ds))]
  ELSE [ok |-> TRUE, i |-> i, v |-> 0]

XBad == [ok |-> FALSE]
\* The reference takes the literal as it is: surrounding whitespace belongs to the
\* whiteSpace facet (pre-lexical), which is the converter's business (C05), not demanded here.
XDate(s0) ==
  LET s == s0
      y == XYear(s, 1)
      m == XDigitsN(s, y.i + 1, 2)
      d == XDigitsN(s, m.i + 1, 2)
      z == XZone(s, d.i)
  IN IF y.ok /\ XLit(s, y.i, "-") /\ m.ok /\ XLit(s, m.i, "-") /\ d.ok /\ z.ok /\ z.i = Len(s) + 1
        /\ RealDate(y.v, m.v, d.v)
     THEN [ok |-> TRUE, y |-> y.v, mo |-> m.v, d |-> d.v, off |-> z.v] ELSE XBad
XTimeAt(s, i) ==
  LET h  == XDigitsN(s, i, 2)
      mi == XDigitsN(s, h.i + 1, 2)
      se == XDigitsN(s, mi.i + 1, 2)
      f  == XFraction(s, se.i)
      z  == XZone(s, f.i)
  IN IF h.ok /\ XLit(s, h.i, ":") /\ mi.ok /\ XLit(s, mi.i, ":") /\ se.ok /\ f.ok /\ z.ok /\ z.i = Len(s) + 1
        /\ RealTime(h.v, mi.v, se.v, f.v)
     THEN [ok |-> TRUE, h |-> h.v, mi |-> mi.v, s |-> se.v, f |-> f.v, off |-> z.v] ELSE XBad
XTime(s0) == XTimeAt(s0, 1)
XDateTime(s0) ==
  LET s == s0
      y == XYear(s, 1)
      m == XDigitsN(s, y.i + 1, 2)
      d == XDigitsN(s, m.i + 1, 2)
      t == XTimeAt(s, d.i + 1)
  IN IF y.ok /\ XLit(s, y.i, "-") /\ m.ok /\ XLit(s, m.i, "-") /\ d.ok /\ XLit(s, d.i, "T") /\ t.ok
        /\ RealDate(y.v, m.v, d.v)
     THEN [ok |-> TRUE, y |-> y.v, mo |-> m.v, d |-> d.v, h |-> t.h, mi |-> t.mi, s |-> t.s, f |-> t.f, off |-> t.off]
     ELSE XBad

\* gYear, gYearMonth, gMonth ('--MM'), gMonthDay ('--MM-DD'), gDay ('---DD')
XPeriod(s0) ==
  LET s == s0
      fin(y, mo, d, z) == IF z.ok /\ z.i = Len(s) + 1 THEN [ok |-> TRUE, y |-> y, mo |-> mo, d |-> d, off |-> z.v] ELSE XBad
  IN IF StartsWith(s, <<"-", "-", "-">>)
     THEN LET d == XDigitsN(s, 4, 2) IN IF d.ok /\ d.v >= 1 /\ d.v <= 31 THEN fin(Absent, Absent, d.v, XZone(s, d.i)) ELSE XBad
     ELSE IF StartsWith(s, <<"-", "-">>)
     THEN LET m == XDigitsN(s, 3, 2)
          IN IF ~m.ok \/ m.v < 1 \/ m.v > 12 THEN XBad
             ELSE IF XLit(s, m.i, "-") /\ XDigitsN(s, m.i + 1, 2).ok
             THEN LET d == XDigitsN(s, m.i + 1, 2)
                  IN IF d.v >= 1 /\ d.v <= MDays(2000, m.v) THEN fin(Absent, m.v, d.v, XZone(s, d.i)) ELSE XBad
             ELSE fin(Absent, m.v, Absent, XZone(s, m.i))
     ELSE LET y == XYear(s, 1)
          IN IF ~y.ok THEN XBad
             ELSE \* gYearMonth, or - when that reading fails - gYear with a (possibly NEGATIVE) timezone:
                  \* in 2020-05:00 the "-05" is the start of the zone, not a month
                  LET asYM == IF XLit(s, y.i, "-") /\ XDigitsN(s, y.i + 1, 2).ok
                              THEN LET m == XDigitsN(s, y.i + 1, 2)
                                   IN IF m.v >= 1 /\ m.v <= 12 THEN fin(y.v, m.v, Absent, XZone(s, m.i)) ELSE XBad
                              ELSE XBad
                  IN IF asYM.ok THEN asYM ELSE fin(y.v, Absent, Absent, XZone(s, y.i))

\* duration ::= '-'? 'P' ((nY)?(nM)?(nD)? ('T' (nH)?(nM)?(n('.'n)?S)?)?)  with at least one
\* component, and at least one after 'T'.    Components absent = Absent.
XNumTag(s, i, tag) ==     \* digits+ tag at i?
  LET j == DigitRun(s, i - 1)
  IN IF j >= i /\ XLit(s, j + 1, tag) /\ j - i + 1 <= 9 THEN [ok |-> TRUE, i |-> j + 2, v |-> NumOf(Sub(s, i, j))]
     ELSE [ok |-> FALSE, i |-> i, v |-> Absent]
XSecTag(s, i) ==
  LET j == DigitRun(s, i - 1)
  IN IF j < i \/ j - i + 1 > 9 THEN [ok |-> FALSE, i |-> i, v |-> Absent, f |-> <<>>]
     ELSE IF XLit(s, j + 1, "S") THEN [ok |-> TRUE, i |-> j + 2, v |-> NumOf(Sub(s, i, j)), f |-> <<>>]
     ELSE IF XLit(s, j + 1, ".")
     THEN LET k == DigitRun(s, j + 1)
          IN IF k > j + 1 /\ XLit(s, k + 1, "S") THEN [ok |-> TRUE, i |-> k + 2, v |-> NumOf(Sub(s, i, j)), f |-> Sub(s, j + 2, k)]
             ELSE [ok |-> FALSE, i |-> i, v |-> Absent, f |-> <<>>]
     ELSE [ok |-> FALSE, i |-> i, v |-> Absent, f |-> <<>>]
XDuration(s0) ==
  LET s   == s0
      neg == XLit(s, 1, "-")
      p   == IF neg THEN 2 ELSE 1
      yy  == XNumTag(s, p + 1, "Y")
      mo  == XNumTag(s, yy.i, "M")
      dd  == XNumTag(s, mo.i, "D")
      hasT == XLit(s, dd.i, "T")
      hh  == IF hasT THEN XNumTag(s, dd.i + 1, "H") ELSE [ok |-> FALSE, i |-> dd.i, v |-> Absent]
      mi  == IF hasT THEN XNumTag(s, hh.i, "M") ELSE [ok |-> FALSE, i |-> dd.i, v |-> Absent]
      ss  == IF hasT THEN XSecTag(s, mi.i) ELSE [ok |-> FALSE, i |-> dd.i, v |-> Absent, f |-> <<>>]
  IN IF XLit(s, p, "P") /\ ss.i = Len(s) + 1
        /\ (yy.ok \/ mo.ok \/ dd.ok \/ hh.ok \/ mi.ok \/ ss.ok)
        /\ (hasT => (hh.ok \/ mi.ok \/ ss.ok))
     THEN [ok |-> TRUE, neg |-> neg, y |-> yy.v, mo |-> mo.v, d |-> dd.v, h |-> hh.v, mi |-> mi.v, s |-> ss.v, sf |-> ss.f]
     ELSE XBad

\* "denotes no real calendar date or time of day": the components are all there
\* (the code could read them) but the calendar has no such day / the day no such time
=============================================================================
