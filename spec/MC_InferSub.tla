----------------------------- MODULE MC_InferSub -----------------------------
(***************************************************************************)
(* C13, second family of hidden models: a sequence of six OPTIONAL elements *)
(* e1..e6; every sample shows a non-empty subset of them, in the hidden     *)
(* order.  The samples' child orders are therefore mutually consistent (the *)
(* hidden order reproduces them all), so a class merged from the samples    *)
(* has to reproduce each sample in ORDER - this is the case that exercises  *)
(* the order in which newly discovered fields are merged into a class       *)
(* (ClassUtils.sorted_attrs).  Same contract as MC_Infer for occurrence     *)
(* ranges and types.                                                        *)
(***************************************************************************)
EXTENDS Schema, Json
VARIABLE parts

Hidden == << El("e1", "int", 0, 1), El("e2", "string", 0, 1), El("e3", "int", 0, 1),
             El("e4", "string", 0, 1), El("e5", "decimal", 0, 1), El("e6", "string", 0, 1) >>
Masks == (SUBSET (1..6)) \ {{}}
\* two samples (the third mask is ignored) or three
Slots == << Masks, Masks, BOOLEAN, Masks, {NONE, "urn:t"}, {1, 2, 3, 4} >>
NSlots == Len(Slots)
Init == parts = <<>>
Next == Len(parts) < NSlots /\ \E c \in Slots[Len(parts) + 1] : parts' = Append(parts, c)
Spec == Init /\ [][Next]_parts
Complete == Len(parts) = NSlots

SampleOf(mask, k) == FoldLeft(LAMBDA acc, i : IF i \in mask THEN Append(acc, Occ(Hidden[i], i + k)) ELSE acc, <<>>, <<1, 2, 3, 4, 5, 6>>)
Samples == << SampleOf(parts[1], 1), SampleOf(parts[2], 2) >> \o (IF parts[3] THEN << SampleOf(parts[4], 3) >> ELSE <<>>)

Count(d, n) == Cardinality({i \in DOMAIN d : d[i].name = n})
NamesIn(ds) == UNION {{ds[k][i].name : i \in DOMAIN ds[k]} : k \in DOMAIN ds}
Merged(ds) ==
  [n \in NamesIn(ds) |->
     [min |-> CHOOSE m \in {Count(ds[k], n) : k \in DOMAIN ds} : \A k \in DOMAIN ds : m <= Count(ds[k], n),
      max |-> CHOOSE m \in {Count(ds[k], n) : k \in DOMAIN ds} : \A k \in DOMAIN ds : m >= Count(ds[k], n)]]
\* the merged class can keep the hidden order: every sample is a subsequence of it
IsSubseqOfHidden(d) == \A i, j \in DOMAIN d : i < j =>
                         (CHOOSE a \in 1..6 : Hidden[a].name = d[i].name) < (CHOOSE b \in 1..6 : Hidden[b].name = d[j].name)
InvOrderRealisable == Complete => \A k \in DOMAIN Samples : IsSubseqOfHidden(Samples[k])
InvOptional == Complete => \A n \in NamesIn(Samples) : Merged(Samples)[n].max = 1

Emit == Complete => PrintT(<<"SAMPLES", ToJson([tns |-> parts[5], attrs |-> parts[6], samples |-> Samples,
                                                 merged |-> [n \in NamesIn(Samples) |-> Merged(Samples)[n]]])>>)
=============================================================================
