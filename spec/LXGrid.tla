------------------------------- MODULE LXGrid -------------------------------
(* Default (tiny) grids; the harness replaces this module (harness/xv/lx_bind.py). *)
EXTENDS Naturals, Sequences
LexSlots(kind) == << {<<>>, <<"-">>}, {<<"1">>, <<"0", "1">>} >>
OutSlots(kind) == << {<<"1">>} >>
PrioSlots == << {<<"str", "int">>}, {<<"1">>} >>
QNameSlots == << {<< <<<<"p">>, <<"u">>>> >>}, {<<"p", ":", "x">>} >>
=============================================================================
