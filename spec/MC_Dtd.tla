------------------------------- MODULE MC_Dtd -------------------------------
(***************************************************************************)
(* C16: external DTDs.  The content models are the particles of Schema      *)
(* (sequence / choice, occurrence "" ? * +) over elements that are          *)
(* (#PCDATA), EMPTY, or have a content model of their own (Kid: (x, y?));   *)
(* validity is constructive as in Schema (DocsOf / Accepts).  Attribute     *)
(* lists: CDATA, ID, IDREF, NMTOKEN, NMTOKENS, enumeration with #REQUIRED,  *)
(* #IMPLIED, #FIXED and defaults, namespaces declared by #FIXED xmlns       *)
(* attributes.  A root of ANY / mixed content is drawn                      *)
(* as a separate variant.                                                   *)
(***************************************************************************)
EXTENDS Schema, Json
CONSTANTS MaxDocIdx
VARIABLE parts

\* DTD occurrence indicators as (min, max)
DOccs == {<<1, 1>>, <<0, 1>>, <<0, U>>, <<1, U>>}
DItemA == {El("a", tp, o[1], o[2]) : tp \in {"string", "EMPTY"}, o \in DOccs}
\* b alone, or a group (b, e?) / (b | e) with an occurrence indicator of its own
DItemB == {El("b", tp, o[1], o[2]) : tp \in {"string", "Kid"}, o \in DOccs} \cup
          {Grp(k, o[1], o[2], <<El("b", "string", 1, 1), El("e", "string", m, 1)>>) : k \in {"seq", "choice"}, o \in DOccs, m \in {0, 1}}
\* nothing, a group (c, d?) / (c | d), or a group whose members are themselves sequence groups: ((c, d) | (f, g?))
DItemC == {[k |-> "none"]} \cup {Grp(k, o[1], o[2], <<El("c", "string", 1, 1), El("d", "string", m, 1)>>) :
                                   k \in {"seq", "choice"}, o \in DOccs, m \in {0, 1}} \cup
          {Grp(k, o[1], o[2], << Grp("seq", 1, 1, <<El("c", "string", 1, 1), El("d", "string", 1, 1)>>),
                                 Grp("seq", 1, 1, <<El("f", "string", 1, 1), El("g", "string", m, 1)>>) >>) :
                                   k \in {"seq", "choice"}, o \in {<<1, 1>>, <<0, 1>>, <<1, U>>}, m \in {0, 1}} \cup
          \* a third SINGLE element: with a choice root this is a three-way choice (a | b | c), which libxml2 hands over
          \* as a nested binary tree OR(a, OR(b, c))
          {El("c", tp, 1, 1) : tp \in {"string", "EMPTY"}}
Slots == << {"seq", "choice"}, DOccs, DItemA, DItemB, DItemC, 1..10, {"model", "mixed", "any"}, 0..MaxDocIdx >>
NSlots == Len(Slots)
Init == parts = <<>>
Next == Len(parts) < NSlots /\ \E c \in Slots[Len(parts) + 1] : parts' = Append(parts, c)
Spec == Init /\ [][Next]_parts
Complete == Len(parts) = NSlots

\* A fixed corpus of shapes that are replayed in EVERY run (reproducers of fixed defects and shapes that random
\* walks of the slot space reach rarely): the first seven slots are given, only the document index varies.
Seq2(k, o, m) == Grp(k, o[1], o[2], <<El("c", "string", 1, 1), El("d", "string", m, 1)>>)
BGrp(k, o, m) == Grp(k, o[1], o[2], <<El("b", "string", 1, 1), El("e", "string", m, 1)>>)
CC(k, o, m) == Grp(k, o[1], o[2], << Grp("seq", 1, 1, <<El("c", "string", 1, 1), El("d", "string", 1, 1)>>),
                                      Grp("seq", 1, 1, <<El("f", "string", 1, 1), El("g", "string", m, 1)>>) >>)
Corpus == {
  <<"seq", <<0, 1>>, El("a", "string", 0, U), El("b", "string", 1, 1), Seq2("seq", <<0, U>>, 0), 1, "model">>,        \* F24
  <<"choice", <<1, 1>>, El("a", "string", 0, U), El("b", "string", 0, 1), [k |-> "none"], 1, "model">>,               \* F25
  <<"choice", <<1, 1>>, El("a", "string", 0, 1), El("b", "string", 1, 1), Seq2("seq", <<1, 1>>, 0), 3, "model">>,      \* F27
  <<"choice", <<1, 1>>, El("a", "string", 1, 1), BGrp("seq", <<1, 1>>, 1), Seq2("seq", <<1, 1>>, 1), 1, "model">>,     \* two sequence branches
  <<"seq", <<1, 1>>, El("a", "string", 1, 1), El("b", "string", 0, 1), CC("choice", <<1, 1>>, 1), 3, "model">>,       \* (a, b?, ((c,d)|(f,g)))
  <<"seq", <<1, 1>>, El("a", "string", 1, 1), El("b", "string", 0, 1), CC("choice", <<1, U>>, 0), 1, "model">>,
  <<"choice", <<1, U>>, El("a", "string", 1, 1), BGrp("choice", <<1, 1>>, 1), CC("seq", <<0, 1>>, 1), 1, "model">>,
  <<"seq", <<1, 1>>, El("a", "EMPTY", 0, 1), BGrp("seq", <<0, U>>, 0), Seq2("choice", <<1, U>>, 1), 7, "model">>,
  <<"seq", <<1, 1>>, El("a", "string", 1, 1), El("b", "string", 0, 1), [k |-> "none"], 8, "model">>,
  \* a REPEATING choice nested directly in a choice that occurs once: (a | (b | e)* | ...)
  <<"choice", <<1, 1>>, El("a", "string", 1, 1), BGrp("choice", <<0, U>>, 1), [k |-> "none"], 1, "model">>,
  <<"choice", <<0, 1>>, El("a", "string", 1, 1), BGrp("choice", <<1, U>>, 1), Seq2("choice", <<0, U>>, 1), 3, "model">>,
  <<"choice", <<0, U>>, El("a", "string", 1, 1), El("b", "string", 1, 1), El("c", "string", 1, 1), 1, "model">>,      \* (a | b | c)*
  <<"choice", <<1, U>>, El("a", "EMPTY", 1, 1), El("b", "Kid", 1, 1), El("c", "string", 1, 1), 3, "model">>,          \* (a | b | c)+
  <<"choice", <<1, 1>>, El("a", "string", 1, 1), El("b", "string", 1, 1), El("c", "EMPTY", 1, 1), 2, "model">>,
  <<"seq", <<1, 1>>, El("a", "string", 1, 1), El("b", "Rec", 0, U), [k |-> "none"], 1, "model">>,                     \* a recursive content model: b (x, b?)
  <<"choice", <<0, U>>, El("a", "EMPTY", 1, 1), El("b", "Rec", 1, 1), [k |-> "none"], 3, "model">>,
  \* a bounded group INSIDE a sequence, followed by one more element: (a, (b | e), c), (a?, (b, e?)?, c), (a, (b | e)?, c)
  <<"seq", <<1, 1>>, El("a", "string", 1, 1), BGrp("choice", <<1, 1>>, 1), El("c", "string", 1, 1), 1, "model">>,
  <<"seq", <<1, 1>>, El("a", "string", 0, 1), BGrp("seq", <<0, 1>>, 0), El("c", "EMPTY", 1, 1), 2, "model">>,
  <<"seq", <<1, 1>>, El("a", "string", 1, 1), BGrp("choice", <<0, 1>>, 1), El("c", "string", 1, 1), 3, "model">>,
  \* the SAME child named twice with another one in between, no repetition indicator: (a, b, a), (a, b?, a), (a, (b | e), a)
  <<"seq", <<1, 1>>, El("a", "string", 1, 1), El("b", "string", 1, 1), El("a", "string", 1, 1), 1, "model">>,
  <<"seq", <<1, 1>>, El("a", "string", 1, 1), El("b", "Kid", 0, 1), El("a", "string", 1, 1), 2, "model">>,
  <<"seq", <<1, 1>>, El("a", "string", 1, 1), BGrp("choice", <<1, 1>>, 1), El("a", "string", 1, 1), 3, "model">>,
  \* element names that differ in a DTD and collide as Python class names (case, separators); both with element content / EMPTY
  <<"seq", <<1, 1>>, El("item", "Kid", 1, 1), El("Item", "EMPTY", 0, 1), El("c", "string", 1, 1), 1, "model">>,
  <<"seq", <<1, 1>>, El("item", "EMPTY", 1, U), El("Item", "Kid", 1, 1), [k |-> "none"], 3, "model">>,
  <<"choice", <<0, U>>, El("a-b", "Kid", 1, 1), El("a_b", "EMPTY", 1, 1), El("a.b", "Rec", 1, 1), 1, "model">>,
  <<"seq", <<1, 1>>, El("a", "string", 1, 1), El("b", "string", 0, 1), [k |-> "none"], 9, "model">>,                    \* lang + xml:lang, code + x:code
  <<"choice", <<0, U>>, El("a", "EMPTY", 1, 1), El("b", "Kid", 1, 1), [k |-> "none"], 9, "mixed">>,
  <<"seq", <<1, 1>>, El("a", "string", 1, 1), El("b", "string", 0, 1), [k |-> "none"], 10, "model">>,                   \* NMTOKENS defaults
  <<"choice", <<1, 1>>, El("a", "EMPTY", 1, 1), El("b", "string", 1, 1), [k |-> "none"], 10, "model">> }
InitCorpus == \E c \in Corpus, i \in 0..MaxDocIdx : parts = Append(c, i)

Root == Grp(parts[1], parts[2][1], parts[2][2], <<parts[3], parts[4]>> \o (IF parts[5].k = "none" THEN <<>> ELSE <<parts[5]>>))
\* attribute list of the root: [name, tp, mode, value]   mode: REQUIRED | IMPLIED | FIXED | DEFAULT
Attrs == CASE parts[6] = 1 -> <<>>
           [] parts[6] = 2 -> << [name |-> "id", tp |-> "ID", mode |-> "REQUIRED", value |-> NONE] >>
           [] parts[6] = 3 -> << [name |-> "kind", tp |-> "(x|y)", mode |-> "DEFAULT", value |-> "x"], [name |-> "n", tp |-> "NMTOKEN", mode |-> "IMPLIED", value |-> NONE] >>
           [] parts[6] = 4 -> << [name |-> "v", tp |-> "CDATA", mode |-> "FIXED", value |-> "1"], [name |-> "ns", tp |-> "NMTOKENS", mode |-> "IMPLIED", value |-> NONE] >>
           [] parts[6] = 5 -> << [name |-> "r", tp |-> "IDREF", mode |-> "IMPLIED", value |-> NONE], [name |-> "id", tp |-> "ID", mode |-> "IMPLIED", value |-> NONE] >>
           \* namespaces the DTD way: #FIXED xmlns attributes (a default namespace; two prefixes used by attributes)
           [] parts[6] = 6 -> << [name |-> "xmlns", tp |-> "CDATA", mode |-> "FIXED", value |-> "urn:d"], [name |-> "n", tp |-> "NMTOKEN", mode |-> "IMPLIED", value |-> NONE] >>
           \* a declared default that is the EMPTY string is still a default
           [] parts[6] = 8 -> << [name |-> "sfx", tp |-> "CDATA", mode |-> "DEFAULT", value |-> ""], [name |-> "kind", tp |-> "(x|y)", mode |-> "DEFAULT", value |-> "x"] >>
           \* attributes of ONE element that share a local name and differ by prefix only (lang / xml:lang as in XHTML, code / x:code)
           [] parts[6] = 9 -> << [name |-> "lang", tp |-> "CDATA", mode |-> "IMPLIED", value |-> NONE], [name |-> "xml:lang", tp |-> "CDATA", mode |-> "IMPLIED", value |-> NONE],
                                 [name |-> "code", tp |-> "NMTOKEN", mode |-> "REQUIRED", value |-> NONE], [name |-> "x:code", tp |-> "CDATA", mode |-> "IMPLIED", value |-> NONE],
                                 [name |-> "xmlns:x", tp |-> "CDATA", mode |-> "FIXED", value |-> "urn:x"] >>
           \* LIST-valued attributes with a declared default / #FIXED value
           [] parts[6] = 10 -> << [name |-> "tags", tp |-> "NMTOKENS", mode |-> "DEFAULT", value |-> "alpha beta"], [name |-> "scopes", tp |-> "NMTOKENS", mode |-> "FIXED", value |-> "pub int"],
                                  [name |-> "one", tp |-> "NMTOKENS", mode |-> "DEFAULT", value |-> "solo"], [name |-> "n", tp |-> "NMTOKEN", mode |-> "DEFAULT", value |-> "tok"] >>
           [] parts[6] = 7 -> << [name |-> "id", tp |-> "CDATA", mode |-> "REQUIRED", value |-> NONE],
                                 [name |-> "x:lang", tp |-> "CDATA", mode |-> "IMPLIED", value |-> NONE], [name |-> "y:rev", tp |-> "NMTOKEN", mode |-> "IMPLIED", value |-> NONE],
                                 [name |-> "xmlns:x", tp |-> "CDATA", mode |-> "FIXED", value |-> "urn:x"], [name |-> "xmlns:y", tp |-> "CDATA", mode |-> "FIXED", value |-> "urn:y"] >>
Docs == DocsOf(Root)
Doc == Docs[(parts[8] % Len(Docs)) + 1]

InvConstructionValid == Len(parts) = 5 => \A i \in DOMAIN Docs : i <= 12 => Accepts(Root, Docs[i])
MCOnly == Len(parts) <= 5

\* order must be preserved where repetition is confined to single elements and to choices of
\* single elements
RECURSIVE DtdGroupsOk(_)
DtdGroupsOk(p) ==
  IF p.k = "el" THEN TRUE
  ELSE /\ \A i \in DOMAIN p.items : DtdGroupsOk(p.items[i])
       /\ (p.max > 1 => (p.k = "choice" /\ \A i \in DOMAIN p.items : p.items[i].k = "el" /\ p.items[i].max = 1))
       /\ (p.k = "choice" /\ p.max = 1 => \A i \in DOMAIN p.items : p.items[i].k = "el")

Emit == Complete => PrintT(<<"DTD", ToJson([root |-> Root, attrs |-> Attrs, variant |-> parts[7], doc |-> Doc, op |-> DtdGroupsOk(Root)])>>)
=============================================================================
