------------------------------ MODULE MC_Schema ------------------------------
(* A schema is assembled slot by slot (so that -simulate can walk the space without TLC first
   enumerating it), then one of its valid documents is picked by index. *)
EXTENDS Schema, Json

CONSTANTS MaxDocIdx, Types, Occs

VARIABLE parts
OccsSmall == {<<1, 1>>, <<0, 1>>, <<0, U>>}
OccsAll == {<<1, 1>>, <<0, 1>>, <<0, U>>, <<1, U>>, <<2, 2>>, <<0, 2>>}
ItemA == {El("a", tp, o[1], o[2]) : tp \in Types, o \in Occs}
ItemB == {[El("b", tp, o[1], o[2]) EXCEPT !.nillable = nl] : tp \in {"string", "int", "Kid"}, o \in Occs, nl \in BOOLEAN} \cup
         {[El("g", "string", 1, 1) EXCEPT !.ref = TRUE]}                     \* reference to a global element
ItemC == {[k |-> "none"]} \cup {Grp(k, o[1], o[2], <<El("c", "int", 1, 1), El("d", "string", m, 1)>>) :
                                  k \in {"seq", "choice"}, o \in Occs, m \in {0, 1}}
AttrVariants == 1..6
\* the particle first (slots 1-5), then the parts that do not affect the content model
Slots == << {"seq", "choice", "all"}, Occs, ItemA, ItemB, ItemC,
            {NONE, "urn:t"}, {"qualified", "unqualified"}, BOOLEAN, AttrVariants, {"complex", "simpleContent"}, 0..MaxDocIdx >>
NSlots == Len(Slots)

Init == parts = <<>>
Next == Len(parts) < NSlots /\ \E c \in Slots[Len(parts) + 1] : parts' = Append(parts, c)
Spec == Init /\ [][Next]_parts
Complete == Len(parts) = NSlots

\* A fixed corpus replayed in EVERY run: reproducers of fixed / recorded defects and shapes that random walks of
\* the slot space reach rarely.  The first ten slots are given, only the document index varies.
Nil(e) == [e EXCEPT !.nillable = TRUE]
NoC == [k |-> "none"]
CD(k, o, m) == Grp(k, o[1], o[2], <<El("c", "int", 1, 1), El("d", "string", m, 1)>>)
Corpus == {
  <<"seq", <<1, 1>>, El("a", "int", 1, 1), Nil(El("b", "string", 0, 1)), NoC, NONE, "qualified", FALSE, 1, "complex">>,             \* F23
  <<"choice", <<0, 1>>, El("a", "Ints", 0, 1), El("b", "string", 0, 1), NoC, "urn:t", "qualified", FALSE, 2, "complex">>,           \* F31
  <<"choice", <<0, U>>, El("a", "int", 1, 1), El("b", "string", 1, 1), NoC, "urn:t", "unqualified", FALSE, 1, "complex">>,          \* unqualified locals in a repeating choice
  <<"seq", <<1, 1>>, El("a", "int", 0, U), El("b", "Kid", 1, 1), CD("choice", <<0, U>>, 1), "urn:t", "qualified", TRUE, 4, "complex">>,
  <<"seq", <<1, 1>>, El("a", "IntOrStr", 1, U), El("b", "int", 0, 1), CD("seq", <<0, 1>>, 0), NONE, "unqualified", TRUE, 3, "complex">>,
  <<"all", <<1, 1>>, El("a", "Color", 1, 1), Nil(El("b", "Kid", 0, 1)), NoC, "urn:t", "qualified", FALSE, 5, "complex">>,
  <<"choice", <<1, 1>>, El("a", "date", 1, 1), [El("g", "string", 1, 1) EXCEPT !.ref = TRUE], CD("seq", <<1, 1>>, 0), "urn:t", "unqualified", FALSE, 2, "complex">>,
  <<"seq", <<0, 1>>, El("a", "decimal", 1, U), El("b", "string", 1, 1), CD("seq", <<1, U>>, 1), "urn:t", "qualified", TRUE, 4, "complex">>,
  <<"seq", <<1, 1>>, El("a", "IntsAnon", 1, 1), El("b", "int", 0, 1), NoC, "urn:t", "qualified", FALSE, 1, "complex">>,             \* anonymous restricted list
  <<"choice", <<1, U>>, El("a", "IntsAnon", 0, U), El("b", "Ints", 1, 1), NoC, NONE, "unqualified", TRUE, 2, "complex">>,
  <<"seq", <<1, 1>>, El("a", "FixedStr", 0, U), El("b", "int", 0, 1), NoC, "urn:t", "qualified", FALSE, 1, "complex">>,             \* fixed x optional / repeating
  <<"seq", <<1, 1>>, El("a", "FixedStr", 0, 1), El("b", "string", 1, 1), NoC, NONE, "unqualified", TRUE, 2, "complex">>,
  <<"choice", <<0, U>>, El("a", "FixedStr", 1, 1), El("b", "int", 1, 1), NoC, "urn:t", "qualified", FALSE, 1, "complex">>,
  <<"seq", <<1, 1>>, El("a", "DefInt", 0, 2), El("b", "Kid", 0, 1), NoC, "urn:t", "qualified", FALSE, 3, "complex">>,
  <<"choice", <<0, U>>, El("a", "long", 1, 1), El("b", "int", 1, 1), NoC, "urn:t", "qualified", FALSE, 1, "complex">>,              \* int | long: two built-ins, one Python type
  <<"choice", <<1, U>>, El("a", "long", 1, 1), El("b", "int", 1, 1), CD("choice", <<1, 1>>, 1), NONE, "unqualified", TRUE, 2, "complex">>,
  <<"seq", <<1, 1>>, El("a", "boolean", 1, 1), El("b", "int", 1, 1), NoC, "urn:t", "qualified", TRUE, 4, "simpleContent">>,
  <<"seq", <<1, 1>>, El("a", "int", 1, 1), El("b", "int", 1, 1), NoC, "urn:t", "qualified", TRUE, 6, "simpleContent">>,             \* attributes value / content / choice
  <<"seq", <<1, 1>>, El("a", "int", 1, 1), El("b", "int", 1, 1), NoC, NONE, "unqualified", FALSE, 6, "simpleContent">>,
  <<"choice", <<0, U>>, El("a", "int", 1, 1), El("b", "string", 1, 1), CD("choice", <<1, 1>>, 1), "urn:t", "qualified", FALSE, 6, "complex">>,
  <<"seq", <<1, 1>>, El("a", "IntOrStr", 0, U), Nil(El("b", "Kid", 0, 1)), NoC, NONE, "unqualified", TRUE, 6, "complex">>,
  <<"seq", <<1, 1>>, El("a", "ColorOrInt", 1, U), El("b", "int", 0, 1), NoC, "urn:t", "qualified", FALSE, 1, "complex">>,          \* enumeration | int
  <<"choice", <<0, U>>, El("a", "ColorOrInt", 1, 1), El("b", "string", 1, 1), NoC, NONE, "unqualified", TRUE, 2, "complex">> }
InitCorpus == \E c \in Corpus, i \in 0..MaxDocIdx : parts = Append(c, i)

TopOcc == IF parts[1] = "all" THEN <<IF parts[2][1] = 0 THEN 0 ELSE 1, 1>> ELSE parts[2]
AllFix(e) == IF parts[1] = "all" /\ e.k = "el" /\ e.max > 1 THEN [e EXCEPT !.max = 1, !.min = IF e.min > 1 THEN 1 ELSE e.min] ELSE e
Root == Grp(parts[1], TopOcc[1], TopOcc[2],
            <<AllFix(parts[3]), AllFix(parts[4])>> \o (IF parts[5].k = "none" \/ parts[1] = "all" THEN <<>> ELSE <<parts[5]>>))
\* attribute declarations of the root type: [name, tp, use, default, fixed]
Attrs == CASE parts[9] = 1 -> <<>>
           [] parts[9] = 2 -> << [name |-> "k", tp |-> "int", use |-> "required", default |-> NONE, fixed |-> NONE] >>
           [] parts[9] = 3 -> << [name |-> "k", tp |-> "boolean", use |-> "optional", default |-> "true", fixed |-> NONE] >>
           [] parts[9] = 4 -> << [name |-> "v", tp |-> "string", use |-> "optional", default |-> NONE, fixed |-> "1"],
                                 [name |-> "o", tp |-> "Color", use |-> "optional", default |-> NONE, fixed |-> NONE] >>
           [] parts[9] = 5 -> << [name |-> "q", tp |-> "decimal", use |-> "optional", default |-> NONE, fixed |-> NONE] >>
           \* attributes NAMED like the fields the generator invents itself (the text field `value`, `content`, `choice`)
           [] parts[9] = 6 -> << [name |-> "value", tp |-> "string", use |-> "optional", default |-> NONE, fixed |-> NONE],
                                 [name |-> "content", tp |-> "int", use |-> "optional", default |-> NONE, fixed |-> NONE],
                                 [name |-> "choice", tp |-> "boolean", use |-> "required", default |-> NONE, fixed |-> NONE] >>
SchemaOf == [tns |-> parts[6], form |-> parts[7], named |-> parts[8], kind |-> parts[10],
             root |-> Root, attrs |-> Attrs]
Docs == DocsOf(Root)
Doc == Docs[(parts[11] % Len(Docs)) + 1]

\* the construction and the independent acceptor agree on every document of the schema
InvConstructionValid == Len(parts) = 5 => \A i \in DOMAIN Docs : i <= 12 => Accepts(Root, Docs[i])
InvHasDocs == Len(parts) = 5 => Len(Docs) > 0
\* model-checking configuration: stop after the particle
MCOnly == Len(parts) <= 5

Emit == Complete => PrintT(<<"XSD", ToJson([schema |-> SchemaOf, doc |-> Doc, ndocs |-> Len(Docs),
                                             op |-> OrderPreserving(Root, TRUE), opNoCompound |-> OrderPreserving(Root, FALSE)])>>)
=============================================================================
