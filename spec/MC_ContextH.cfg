SPECIFICATION Spec
CONSTANTS
  Classes <- MCClasses
  QNs <- MCQNs
  XsiPolicy = "publish"
  CachePolicy = "class"
  Vars <- MCVars
  MemoPolicy = "qname"
  MaxLen = 4
  KnownF3 = TRUE
VIEW View
INVARIANT HistoryIndependence
CHECK_DEADLOCK FALSE
