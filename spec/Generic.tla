------------------------------ MODULE Generic ------------------------------
(***************************************************************************)
(* Arbitrary XML through the generic element model: parsers/nodes/          *)
(* wildcard.py (WildcardNode.bind, fetch_any_children), ParserUtils         *)
(* .parse_any_attribute, the mixed-content path of ElementNode, and the way *)
(* EventGenerator.convert_any_element writes an AnyElement back.            *)
(*                                                                         *)
(* A source tree is  [name, attrs, text, kids, tail]  with attrs a sequence *)
(* of <<name, value>>; value is [s |-> str] or [p |-> prefix, l |-> local,  *)
(* u |-> uri the prefix is bound to] (a QName-looking value).  "" is "no    *)
(* text".                                                                   *)
(***************************************************************************)
EXTENDS Naturals, Sequences, SequencesExt, FiniteSets, TLC

CONSTANTS AnyAttrPolicy  \* "expand" (as shipped: a value prefix:local whose prefix is declared
                         \*  is stored as {uri}local) | "keep"

NONE == "__none__"
IsWs(s) == s \in {"", " ", "  ", "\n"}
Normalize(s) == IF IsWs(s) THEN NONE ELSE s          \* ParserUtils.normalize_content

\* parse_any_attribute
AttrValue(v) ==
  IF "s" \in DOMAIN v THEN v.s
  ELSE IF AnyAttrPolicy = "expand" /\ v.u # NONE THEN "{" \o v.u \o "}" \o v.l
  ELSE v.p \o ":" \o v.l
LexValue(v) == IF "s" \in DOMAIN v THEN v.s ELSE v.p \o ":" \o v.l

\* An xsi:type attribute is a QName by definition: the serializer spells the stored {uri}local with a prefix it
\* declares, so its value is compared in the VALUE space (canonical form Q(uri|local)), not lexically.
XSI == "http://www.w3.org/2001/XMLSchema-instance"
XsiType == <<XSI, "type">>
IsXsiQ(a) == a[1] = XsiType /\ "p" \in DOMAIN a[2] /\ a[2].u # NONE
QCanon(v) == "Q(" \o v.u \o "|" \o v.l \o ")"

\* WildcardNode.bind for a captured element (var.is_wildcard, not nillable):
\*   AnyElement [qname, text, tail, attrs, children]
RECURSIVE WildParse(_)
WildParse(x) ==
  LET kids == FoldLeft(LAMBDA acc, k : Append(acc, WildParse(k)), <<>>, x.kids)
      t0   == IF kids # <<>> THEN Normalize(x.text) ELSE (IF x.text = "" THEN NONE ELSE x.text)
  IN [qname |-> x.name,
      text  |-> IF t0 = NONE THEN "" ELSE t0,
      tail  |-> Normalize(x.tail),
      \* <<name, stored value, what is written back>>
      attrs |-> FoldLeft(LAMBDA acc, a : Append(acc, <<a[1], AttrValue(a[2]),
                                                       IF IsXsiQ(a) /\ AnyAttrPolicy = "expand" THEN QCanon(a[2]) ELSE AttrValue(a[2])>>), <<>>, x.attrs),
      children |-> kids]

\* convert_any_element: what an AnyElement says when it is written back (text "" and
\* tail NONE write nothing)
RECURSIVE Written(_)
Written(e) ==
  [name |-> e.qname, attrs |-> FoldLeft(LAMBDA acc, a : Append(acc, <<a[1], a[3]>>), <<>>, e.attrs), text |-> e.text,
   kids |-> FoldLeft(LAMBDA acc, k : Append(acc, Written(k)), <<>>, e.children),
   tail |-> IF e.tail = NONE THEN "" ELSE e.tail]

\* the reference: the source tree with attribute values as written and whitespace-only
\* text next to child elements dropped (the carve-out of the property)
RECURSIVE Reference(_)
Reference(x) ==
  [name |-> x.name,
   attrs |-> FoldLeft(LAMBDA acc, a : Append(acc, <<a[1], IF IsXsiQ(a) THEN QCanon(a[2]) ELSE LexValue(a[2])>>), <<>>, x.attrs),
   text |-> IF x.kids # <<>> /\ IsWs(x.text) THEN "" ELSE x.text,
   kids |-> FoldLeft(LAMBDA acc, k : Append(acc, Reference(k)), <<>>, x.kids),
   tail |-> IF IsWs(x.tail) THEN "" ELSE x.tail]

Faithful(x) == Written(WildParse(x)) = Reference(x)

\* F18 (open): a QName-looking attribute value with a declared prefix is rewritten
RECURSIVE HasQNameLikeAttr(_)
HasQNameLikeAttr(x) ==
  \/ \E i \in DOMAIN x.attrs : "p" \in DOMAIN x.attrs[i][2] /\ x.attrs[i][2].u # NONE /\ x.attrs[i][1] # XsiType
  \/ \E i \in DOMAIN x.kids : HasQNameLikeAttr(x.kids[i])
=============================================================================
