--------------------------- MODULE MC_InferMixed ---------------------------
(***************************************************************************)
(* C13, mixed content: an element of the samples whose character data is    *)
(* interleaved with child elements.  The mapper's contract                  *)
(* (codegen/mappers/element.py build_elements + ClassUtils.reduce_classes): *)
(* an element is MIXED when, in ANY of its occurrences in any sample, text  *)
(* stands next to a child element - before the first child (the element's   *)
(* own text) or after any child (that child's tail), whatever the child     *)
(* looks like (a simple value, or a complex child with attributes or        *)
(* children of its own).  A mixed element keeps text and children, in       *)
(* order; the other occurrences of the same element (without text) are      *)
(* still reproduced.                                                        *)
(*                                                                         *)
(* A sample is <Root><note> c1 c2 .. </note>[<id>4</id>]</Root>; child kinds *)
(* "s" (simple: <em>x</em>), "a" (complex by attribute: <em kind="x">b</em>) *)
(* and "k" (complex by children: <k><v>1</v></k>); text positions 0..n      *)
(* (0 = before the first child, i = after child i).                         *)
(***************************************************************************)
EXTENDS Naturals, Sequences, FiniteSets, TLC, Json

ChildKinds == {"s", "a", "k"}
KidSeqs == UNION {[1..n -> ChildKinds] : n \in 1..3}
VARIABLES kids, texts, second, sibling
vars == <<kids, texts, second, sibling>>

Init == /\ kids \in KidSeqs
        /\ texts \in SUBSET (0..Len(kids))
        /\ second \in {"none", "plain", "textElsewhere"}     \* a second sample: same children without text / text at another place
        /\ sibling \in BOOLEAN                                \* <id>4</id> after the note
Next == UNCHANGED vars
Spec == Init /\ [][Next]_vars

\* the contract: mixed iff some occurrence has text next to a child
TextPositions2 == IF second = "textElsewhere" THEN {Len(kids)} ELSE {}
Mixed == texts # {} \/ TextPositions2 # {}
\* every position of 0..n can make the element mixed on its own - in particular a tail after a complex child
InvEveryPositionCounts == \A p \in 0..Len(kids) : (texts = {p} => Mixed)
InvPlainStaysPlain == (texts = {} /\ second # "textElsewhere") => ~Mixed

Emit == PrintT(<<"MIXED", ToJson([kids |-> kids, texts |-> texts, second |-> second, sibling |-> sibling, mixed |-> Mixed])>>)
=============================================================================
