------------------------------- MODULE MC_Pad -------------------------------
(* The whiteSpace facet (XML Schema Part 2, 4.3.6) at the level of a parsed document: every built-in type other than
   string has whiteSpace = collapse, so XML whitespace around the lexical form of a value (element text or attribute
   value) is not part of the value (Lexical.tla: XStrip); string has whiteSpace = preserve, so it is.  TLC enumerates
   type x position x left pad x right pad; the harness pads that one value in a serialised instance and compares the
   parsed objects (C09: "surrounding whitespace in non-string values"). *)
EXTENDS Naturals, Sequences, TLC, Json

WS == {" ", "\t", "\n", "\r"}
RECURSIVE LStrip(_)
LStrip(s) == IF s # <<>> /\ s[1] \in WS THEN LStrip(Tail(s)) ELSE s
RECURSIVE RStrip(_)
RStrip(s) == IF s # <<>> /\ s[Len(s)] \in WS THEN RStrip(SubSeq(s, 1, Len(s) - 1)) ELSE s
\* the same operator as Lexical.tla's XStrip (kept local: Lexical needs the date policy constants)
XStrip(s) == RStrip(LStrip(s))

PadTypes == {"int", "float", "boolean", "decimal", "hexBinary", "base64Binary", "date", "dateTime", "time", "duration",
             "period", "enum", "intTokens", "string"}
AttrTypes == {"int", "float", "enum"}
Pads == {"", " ", "\n  ", "\t", " \r\n "}
Facet(t) == IF t = "string" THEN "preserve" ELSE "collapse"

VARIABLES t, pos, lp, rp
Init == /\ t \in PadTypes /\ pos \in {"element", "attribute"} /\ lp \in Pads /\ rp \in Pads
        /\ (pos = "attribute" => t \in AttrTypes)
        /\ (lp # "" \/ rp # "")
Next == UNCHANGED <<t, pos, lp, rp>>
Spec == Init /\ [][Next]_<<t, pos, lp, rp>>
\* the facet rule agrees with the reference scanners: a padded lexical form is in the lexical space iff the bare one is
InvStripIdempotent == \A s \in {<<" ", "1", " ">>, <<"\n", "1">>, <<"1", "\t">>, <<"1">>, <<"\r", "\n", "1", " ", " ">>} : XStrip(s) = <<"1">> /\ XStrip(XStrip(s)) = XStrip(s)
Emit == PrintT(<<"PAD", ToJson([type |-> t, pos |-> pos, lpad |-> lp, rpad |-> rp, facet |-> Facet(t)])>>)
=============================================================================
