SPECIFICATION Spec
CONSTANTS
  MaxDocIdx = 1
  MultiSample = TRUE
INVARIANT InvSamplesAccepted
CHECK_DEADLOCK FALSE
