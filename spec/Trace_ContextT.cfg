SPECIFICATION TSpecR
CONSTANTS
  Classes <- MCClasses
  QNs <- MCQNs
  XsiPolicy = "publish"
  CachePolicy = "class"
CONSTRAINT Progress
POSTCONDITION Accepted
CHECK_DEADLOCK FALSE
