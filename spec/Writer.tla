------------------------------- MODULE Writer -------------------------------
(***************************************************************************)
(* serializers/mixins.py  EventHandler / EventContentHandler / XmlWriter,   *)
(* writers/native.py XmlEventWriter, writers/lxml.py LxmlEventWriter.       *)
(*                                                                         *)
(* One operator per receiver (start_tag, add_attribute, set_data, end_tag), *)
(* helper operators named after the helper methods, the same slots.  Every  *)
(* operator maps a writer record w to the next writer record, so the same   *)
(* definitions serve the exploring spec (MC_Writer), behaviour generation   *)
(* (Gen) and trace validation (Trace_Writer).                               *)
(*                                                                         *)
(* The SAX calls the writer makes are appended to w.out.  Two back-end      *)
(* contracts consume them incrementally (ghost state w.g for               *)
(* xml.sax.saxutils.XMLGenerator, w.l for lxml.sax.ElementTreeContent-      *)
(* Handler) and record in  g.bad / l.bad  every way in which the rendered   *)
(* document would not be namespace-well-formed or would not say what the    *)
(* caller asked for.  NsWellFormed == bad = {} is the C03(a) invariant.     *)
(***************************************************************************)
EXTENDS Names

CONSTANTS PrefixPolicy,    \* "len" (as shipped) | "fresh"
          ResetPolicy,     \* "flush" (as shipped: the default namespace of an unqualified
                           \*  element is reset only in flush_start, after values were
                           \*  encoded) | "start" (also reset in start_tag)
          AttrPolicy       \* "any" (as shipped: any prefix incl. default satisfies an
                           \*  attribute namespace) | "prefixed" (needs a real prefix)

XSI_NIL  == <<XSI, "nil">>
XSI_TYPE == <<XSI, "type">>
NoTag    == <<NONE, NONE>>
NoText   == [text |-> NONE, uses |-> <<>>]

GeneratePrefix(uri, m) == GeneratePrefixP(uri, m, PrefixPolicy)
LoadPrefix(uri, m)     == LoadPrefixP(uri, m, PrefixPolicy)

---------------------------------------------------------------------------
\* Values handed to the writer (after EventGenerator.encode_primitive):
\*   [t |-> "none"]                       None
\*   [t |-> "str",   s |-> text]          any str (numbers etc. are str by now)
\*   [t |-> "qname", uri, local]          xml.etree.ElementTree.QName
\*   [t |-> "clark", uri, local, dt]      a *str* "{uri}local"; dt = TRUE iff it names an
\*                                         xs datatype (DataType.from_qname is not None)
\*   [t |-> "list",  items |-> Seq(..)]   list of str / qname
VNone          == [t |-> "none"]
VStr(s)        == [t |-> "str", s |-> s]
VQName(u, l)   == [t |-> "qname", uri |-> u, local |-> l]
VClark(u, l, d) == [t |-> "clark", uri |-> u, local |-> l, dt |-> d]
VList(items)   == [t |-> "list", items |-> items]

\* encode_data(value) with self.ns_map = m.
\* Result: [text |-> str | NONE, m |-> ns_map', uses |-> Seq(<<prefix, uri>>)]
\* `uses` is ghost: the prefixes written into the text and the URI each must resolve to.
EncodeQName(u, l, m) ==
  IF u = NoNs
  THEN [text |-> l, m |-> m, uses |-> << <<NoPrefix, NoNs>> >>]
  ELSE LET r == LoadPrefix(u, m)
       IN [text |-> IF r[1] # NoPrefix THEN r[1] \o ":" \o l ELSE l,
           m |-> r[2], uses |-> << <<r[1], u>> >>]

ClarkText(v) == "{" \o v.uri \o "}" \o v.local

RECURSIVE EncodeItems(_, _, _, _)
EncodeItems(items, m, text, uses) ==
  IF items = <<>> THEN [text |-> text, m |-> m, uses |-> uses]
  ELSE LET v == Head(items)
           e == IF v.t = "qname" THEN EncodeQName(v.uri, v.local, m)
                ELSE [text |-> v.s, m |-> m, uses |-> <<>>]
           t == IF text = NONE THEN e.text ELSE text \o " " \o e.text
       IN EncodeItems(Tail(items), e.m, t, uses \o e.uses)

EncodeData(v, m) ==
  CASE v.t = "none"  -> [text |-> NONE, m |-> m, uses |-> <<>>]
    [] v.t = "str"   -> [text |-> v.s, m |-> m, uses |-> <<>>]
    [] v.t = "clark" -> [text |-> ClarkText(v), m |-> m, uses |-> <<>>]
    [] v.t = "qname" -> EncodeQName(v.uri, v.local, m)
    [] v.t = "list"  -> IF v.items = <<>> THEN [text |-> NONE, m |-> m, uses |-> <<>>]
                        ELSE EncodeItems(v.items, m, NONE, <<>>)

---------------------------------------------------------------------------
\* Back-end contract 1: xml.sax.saxutils.XMLGenerator (short_empty_elements=True)
\*   cur      _current_context : uri -> prefix   (ordered map, last binding of a uri wins)
\*   stack    _ns_contexts
\*   undecl   _undeclared_ns_maps : Seq(<<prefix, uri>>)
\*   scopes   stack of prefix -> uri maps *as written in the text* (what a parser sees)
\*   open     stack of rendered start-tag names <<prefix, local>>
\*   bad      set of failure tags
GInit == [cur |-> <<>>, stack |-> <<>>, undecl |-> <<>>, scopes |-> << <<>> >>,
          open |-> <<>>, bad |-> {}]

Top(s) == s[Len(s)]
Pop(s) == SubSeq(s, 1, Len(s) - 1)

\* XMLGenerator._qname(name): [ok, prefix]
GQName(g, name) ==
  IF name[1] = NoNs THEN [ok |-> TRUE, prefix |-> NoPrefix]
  ELSE IF name[1] = XMLNS THEN [ok |-> TRUE, prefix |-> "xml"]
  ELSE IF Has(g.cur, name[1]) THEN [ok |-> TRUE, prefix |-> Get(g.cur, name[1])]
  ELSE [ok |-> FALSE, prefix |-> NoPrefix]

RECURSIVE ApplyDecls(_, _)
ApplyDecls(scope, decls) ==
  IF decls = <<>> THEN scope ELSE ApplyDecls(Put(scope, Head(decls)[1], Head(decls)[2]), Tail(decls))

DupPrefix(decls) == \E i, j \in DOMAIN decls : i < j /\ decls[i][1] = decls[j][1]

\* namespace a conforming parser assigns to a rendered name, given the scope
ElemNs(scope, prefix) ==
  IF prefix = "xml" THEN XMLNS
  ELSE IF Has(scope, prefix) THEN Get(scope, prefix)
  ELSE IF prefix = NoPrefix THEN NoNs ELSE NONE
AttrNs(scope, prefix) ==
  IF prefix = NoPrefix THEN NoNs
  ELSE IF prefix = "xml" THEN XMLNS
  ELSE IF Has(scope, prefix) THEN Get(scope, prefix) ELSE NONE

\* A QName value WITHOUT a namespace cannot be written at all where a default namespace
\* is in force (XML offers no way to say "no namespace" in a QName value short of
\* undeclaring the default namespace of the element that carries it); this is a limit of
\* XML, not of the writer, and is deliberately not demanded.
UsesOk(scope, uses) ==
  \A i \in DOMAIN uses : uses[i][2] # NoNs => ElemNs(scope, uses[i][1]) = uses[i][2]

GStep(g, c) ==
  CASE c.op = "startPrefixMapping" ->
         [g EXCEPT !.stack = Append(g.stack, g.cur),
                   !.cur = Put(g.cur, c.uri, c.prefix),
                   !.undecl = Append(g.undecl, <<c.prefix, c.uri>>)]
    [] c.op = "endPrefixMapping" ->
         IF g.stack = <<>> THEN [g EXCEPT !.bad = g.bad \cup {"sax-unbalanced-prefix-mapping"}]
         ELSE [g EXCEPT !.cur = Top(g.stack), !.stack = Pop(g.stack)]
    [] c.op = "startElementNS" ->
         LET q     == GQName(g, c.name)
             scope == ApplyDecls(Top(g.scopes), g.undecl)
             aq    == [i \in DOMAIN c.attrs |-> GQName(g, c.attrs[i].name)]
             anames == [i \in DOMAIN c.attrs |-> <<aq[i].prefix, c.attrs[i].name[2]>>]
             b1 == IF ~q.ok THEN {"render-undefined-element-prefix"} ELSE {}
             b2 == IF \E i \in DOMAIN aq : ~aq[i].ok THEN {"render-undefined-attribute-prefix"} ELSE {}
             b3 == IF DupPrefix(g.undecl) THEN {"duplicate-namespace-declaration"} ELSE {}
             b4 == IF \E i \in DOMAIN g.undecl : g.undecl[i][1] # NoPrefix /\ g.undecl[i][2] = ""
                   THEN {"prefix-bound-to-empty-uri"} ELSE {}
             b5 == IF q.ok /\ ElemNs(scope, q.prefix) # c.name[1]
                   THEN {"element-in-wrong-namespace"} ELSE {}
             b6 == IF \E i \in DOMAIN aq : aq[i].ok /\ AttrNs(scope, aq[i].prefix) # c.attrs[i].name[1]
                   THEN {"attribute-in-wrong-namespace"} ELSE {}
             b7 == IF \E i, j \in DOMAIN anames : i < j /\ anames[i] = anames[j]
                   THEN {"duplicate-attribute"} ELSE {}
             b8 == IF \E i \in DOMAIN c.attrs : ~UsesOk(scope, c.attrs[i].uses)
                   THEN {"qname-value-unresolvable-in-attribute"} ELSE {}
         IN [g EXCEPT !.undecl = <<>>,
                      !.scopes = Append(g.scopes, scope),
                      !.open = Append(g.open, <<q.prefix, c.name[2]>>),
                      !.bad = g.bad \cup b1 \cup b2 \cup b3 \cup b4 \cup b5 \cup b6 \cup b7 \cup b8]
    [] c.op = "endElementNS" ->
         IF g.open = <<>> THEN [g EXCEPT !.bad = g.bad \cup {"sax-unbalanced-end"}]
         ELSE LET q == GQName(g, c.name)
              IN [g EXCEPT !.scopes = Pop(g.scopes), !.open = Pop(g.open),
                           !.bad = g.bad \cup
                              (IF ~q.ok THEN {"render-undefined-element-prefix"}
                               ELSE IF <<q.prefix, c.name[2]>> # Top(g.open)
                               THEN {"end-tag-mismatch"} ELSE {})]
    [] c.op = "characters" ->
         [g EXCEPT !.bad = g.bad \cup
             (IF g.open = <<>> THEN {"text-outside-root"} ELSE {}) \cup
             (IF ~UsesOk(Top(g.scopes), c.uses) THEN {"qname-value-unresolvable-in-text"} ELSE {})]
    [] OTHER -> g   \* ignorableWhitespace

\* Back-end contract 2: lxml.sax.ElementTreeContentHandler.  Element and attribute
\* names are Clark names, so they are right by construction EXCEPT that _buildTag puts
\* an unqualified element into a truthy default namespace; QName *values* need their
\* prefix in the element's nsmap (inherited + new mappings).
\*   maps   _ns_mapping : prefix -> stack of uris (modelled as ordered map prefix -> Seq)
\*   new    _new_mappings (ordered)
\*   scopes per open element: prefix -> uri
LInit == [maps |-> << <<NoPrefix, <<NONE>> >> >>, new |-> <<>>, scopes |-> << <<>> >>,
          open |-> <<>>, bad |-> {}]

LDefault(l) == IF ~Has(l.maps, NoPrefix) THEN NONE
               ELSE LET s == Get(l.maps, NoPrefix) IN IF s = <<>> THEN NONE ELSE Top(s)
LBuildTag(l, name) ==
  IF name[1] # NoNs THEN name
  ELSE IF LDefault(l) # NONE /\ LDefault(l) # "" THEN <<LDefault(l), name[2]>>
  ELSE name

LStep(l, c) ==
  CASE c.op = "startPrefixMapping" ->
         [l EXCEPT !.new = Put(l.new, c.prefix, c.uri),
                   !.maps = Put(l.maps, c.prefix,
                                IF Has(l.maps, c.prefix) THEN Append(Get(l.maps, c.prefix), c.uri)
                                ELSE <<c.uri>>)]
    [] c.op = "endPrefixMapping" ->
         IF ~Has(l.maps, c.prefix) \/ Get(l.maps, c.prefix) = <<>>
         THEN [l EXCEPT !.bad = l.bad \cup {"sax-unbalanced-prefix-mapping"}]
         ELSE [l EXCEPT !.maps = Put(l.maps, c.prefix, Pop(Get(l.maps, c.prefix)))]
    [] c.op = "startElementNS" ->
         LET tag   == LBuildTag(l, c.name)
             scope == ApplyDecls(Top(l.scopes), l.new)
         IN [l EXCEPT !.new = <<>>,
                      !.scopes = Append(l.scopes, scope),
                      !.open = Append(l.open, tag),
                      !.bad = l.bad \cup
                         (IF tag # c.name THEN {"element-in-wrong-namespace"} ELSE {}) \cup
                         (IF \E i \in DOMAIN c.attrs : ~UsesOk(scope, c.attrs[i].uses)
                          THEN {"qname-value-unresolvable-in-attribute"} ELSE {})]
    [] c.op = "endElementNS" ->
         IF l.open = <<>> THEN [l EXCEPT !.bad = l.bad \cup {"sax-unbalanced-end"}]
         ELSE [l EXCEPT !.scopes = Pop(l.scopes), !.open = Pop(l.open),
                        !.bad = l.bad \cup
                           (IF LBuildTag(l, c.name) # Top(l.open) THEN {"end-tag-mismatch"} ELSE {})]
    [] c.op = "characters" ->
         [l EXCEPT !.bad = l.bad \cup
             (IF l.open = <<>> THEN {"text-outside-root"} ELSE {}) \cup
             (IF ~UsesOk(Top(l.scopes), c.uses) THEN {"qname-value-unresolvable-in-text"} ELSE {})]
    [] OTHER -> l

---------------------------------------------------------------------------
\* The writer record
WInit(userMap, indent) ==
  [nsMap |-> CleanPrefixes(userMap), ctx |-> <<>>, pendingTag |-> NoTag,
   pendingPrefixes |-> <<>>, attrs |-> <<>>, inTail |-> FALSE, tail |-> NoText,
   level |-> 0, pendingEnd |-> FALSE, indent |-> indent,
   out |-> <<>>, g |-> GInit, l |-> LInit, err |-> NONE]

Emit(w, c) == [w EXCEPT !.out = Append(w.out, c), !.g = GStep(w.g, c), !.l = LStep(w.l, c)]

\* self.ns_map is an alias of self.ns_context[-1] once a tag has been started
SetMap(w, m) ==
  [w EXCEPT !.nsMap = m,
            !.ctx = IF w.ctx = <<>> THEN w.ctx ELSE Append(Pop(w.ctx), m)]

\* add_namespace(uri)
AddNamespace(m, uri) ==
  IF uri # NoNs /\ ~PrefixExists(uri, m) THEN GeneratePrefix(uri, m)[2] ELSE m

\* the repaired variant for attribute namespaces: a default-namespace binding does not
\* help an attribute, it needs a prefix of its own
HasRealPrefix(m, uri) == \E i \in DOMAIN m : m[i][2] = uri /\ m[i][1] # NoPrefix
AddAttrNamespace(m, uri) ==
  IF AttrPolicy = "prefixed"
  THEN IF uri # NoNs /\ ~HasRealPrefix(m, uri) THEN GeneratePrefix(uri, m)[2] ELSE m
  ELSE AddNamespace(m, uri)

RECURSIVE AddAttrNamespaces(_, _)
AddAttrNamespaces(m, attrs) ==
  IF attrs = <<>> THEN m ELSE AddAttrNamespaces(AddAttrNamespace(m, Head(attrs)[1][1]), Tail(attrs))

\* reset_default_namespace()
ResetDefault(w, m) ==
  IF w.pendingTag # NoTag /\ w.pendingTag[1] = NoNs /\ Has(m, NoPrefix) THEN Put(m, NoPrefix, "") ELSE m

\* start_namespaces(): declare what differs from the parent context
RECURSIVE StartNamespaces(_, _, _, _)
StartNamespaces(w, m, parent, prefixes) ==
  IF m = <<>> THEN [w EXCEPT !.pendingPrefixes = Append(w.pendingPrefixes, prefixes)]
  ELSE LET p == Head(m)[1]  u == Head(m)[2]
       IN IF Get(parent, p) # u
          THEN StartNamespaces(Emit(w, [op |-> "startPrefixMapping", prefix |-> p, uri |-> u]),
                               Tail(m), parent, Append(prefixes, p))
          ELSE StartNamespaces(w, Tail(m), parent, prefixes)

\* flush_start(is_nil)
FlushStart(w, isNil) ==
  IF w.pendingTag = NoTag THEN w
  ELSE LET attrs == IF ~isNil THEN Del(w.attrs, XSI_NIL) ELSE w.attrs
           m1 == AddAttrNamespaces(w.nsMap, attrs)
           m2 == ResetDefault(w, m1)
           w1 == SetMap(w, m2)
           parent == IF Len(w1.ctx) >= 2 THEN w1.ctx[Len(w1.ctx) - 1] ELSE <<>>
           w2 == StartNamespaces(w1, m2, parent, <<>>)
           w3 == Emit(w2, [op |-> "startElementNS", name |-> w.pendingTag,
                           attrs |-> FoldLeft(LAMBDA acc, a : Append(acc,
                                        [name |-> a[1], value |-> a[2].text, uses |-> a[2].uses]),
                                        <<>>, attrs)])
       IN [w3 EXCEPT !.attrs = <<>>, !.inTail = FALSE, !.pendingTag = NoTag]

WS(w, s) == Emit(w, [op |-> "ignorableWhitespace", s |-> s])

\* start_tag(qname)                       name = <<uri, local>>
StartTag(w, name) ==
  LET w1 == FlushStart(w, FALSE)
      w2 == [w1 EXCEPT !.ctx = Append(w1.ctx, w1.nsMap), !.pendingTag = name]
      m3 == AddNamespace(w2.nsMap, name[1])
      w3 == SetMap(w2, IF ResetPolicy = "start" THEN ResetDefault(w2, m3) ELSE m3)
  IN IF ~w.indent THEN w3
     ELSE LET w4 == IF w3.level > 0 THEN WS(WS(w3, "nl"), "indent") ELSE w3
          IN [w4 EXCEPT !.level = w3.level + 1, !.pendingEnd = FALSE]

\* is_xsi_type(qname, value)
IsXsiType(name, v) == v.t = "clark" /\ (name = XSI_TYPE \/ v.dt)

\* add_attribute(qname, value, root)
AddAttribute(w, name, v, root) ==
  IF w.pendingTag = NoTag /\ ~root THEN [w EXCEPT !.err = "XmlWriterError"]
  ELSE LET v1 == IF IsXsiType(name, v) THEN VQName(v.uri, v.local) ELSE v
           e  == EncodeData(v1, w.nsMap)
           w1 == SetMap(w, e.m)
       IN [w1 EXCEPT !.attrs = Put(w.attrs, name, [text |-> e.text, uses |-> e.uses])]

\* set_data(data)
SetData(w, v) ==
  LET e  == EncodeData(v, w.nsMap)
      w1 == FlushStart(SetMap(w, e.m), e.text = NONE)
      truthy == e.text # NONE /\ e.text # ""
      w2 == IF truthy /\ ~w1.inTail
            THEN Emit(w1, [op |-> "characters", data |-> e.text, uses |-> e.uses])
            ELSE IF truthy THEN [w1 EXCEPT !.tail = [text |-> e.text, uses |-> e.uses]]
            ELSE w1
  IN [w2 EXCEPT !.inTail = TRUE]

\* EventHandler.end_tag(qname)
BaseEndTag(w, name) ==
  IF w.pendingPrefixes = <<>> /\ w.pendingTag = NoTag THEN [w EXCEPT !.err = "IndexError"]
  ELSE
  LET w1 == FlushStart(w, TRUE)
      w2 == Emit(w1, [op |-> "endElementNS", name |-> name])
      w3 == IF w2.tail # NoText
            THEN Emit(w2, [op |-> "characters", data |-> w2.tail.text, uses |-> w2.tail.uses])
            ELSE w2
      ctx == Pop(w3.ctx)
      w4 == [w3 EXCEPT !.tail = NoText, !.inTail = FALSE, !.ctx = ctx,
                       !.nsMap = IF ctx # <<>> THEN Top(ctx) ELSE w3.nsMap]
      prefixes == Top(w4.pendingPrefixes)
      EndMappings[i \in 0..Len(prefixes)] ==
        IF i = 0 THEN [w4 EXCEPT !.pendingPrefixes = Pop(w4.pendingPrefixes)]
        ELSE Emit(EndMappings[i - 1], [op |-> "endPrefixMapping", prefix |-> prefixes[i]])
  IN EndMappings[Len(prefixes)]

\* XmlEventWriter.end_tag(qname)  (indentation bookkeeping of the native writer)
EndTag(w, name) ==
  IF ~w.indent THEN BaseEndTag(w, name)
  ELSE LET w1 == [w EXCEPT !.level = w.level - 1]
           w2 == IF w1.pendingEnd THEN WS(WS(w1, "nl"), "indent") ELSE w1
           w3 == BaseEndTag(w2, name)
           w4 == [w3 EXCEPT !.pendingEnd = TRUE]
       IN IF w4.err = NONE /\ w4.level = 0 THEN WS(w4, "nl") ELSE w4

\* one receiver call
\*   [ev |-> "start", name] [ev |-> "attr", name, value] [ev |-> "data", value] [ev |-> "end", name]
WStep(w, e) ==
  CASE e.ev = "start" -> StartTag(w, e.name)
    [] e.ev = "attr"  -> AddAttribute(w, e.name, e.value, FALSE)
    [] e.ev = "data"  -> SetData(w, e.value)
    [] e.ev = "end"   -> EndTag(w, e.name)

---------------------------------------------------------------------------
\* Properties (C03 a, C08 writers)
NativeWellFormed(w) == w.g.bad = {}
LxmlWellFormed(w)   == w.l.bad = {}

\* Structural invariants of the writer itself
Slots(w) ==
  /\ Len(w.pendingPrefixes) + (IF w.pendingTag # NoTag THEN 1 ELSE 0) = Len(w.ctx)
  /\ (w.ctx # <<>> => Top(w.ctx) = w.nsMap)
  /\ (w.pendingTag = NoTag => w.attrs = <<>>) \/ w.ctx = <<>>
  /\ Len(w.g.open) = Len(w.pendingPrefixes)
  /\ Len(w.l.open) = Len(w.pendingPrefixes)

=============================================================================
