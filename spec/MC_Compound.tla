----------------------------- MODULE MC_Compound -----------------------------
(* Models with one compound field assembled slot by slot, then an instance.  MCOnly stops after the
   model so that Injective / Determined / WellFormed are checked on every model of the universe. *)
EXTENDS Compound, Json
CONSTANTS MaxLen, MaxChoices
VARIABLE parts

ChoiceSlot(name) == {[name |-> name, ns |-> ns, tp |-> tp, nillable |-> nl] : ns \in {NONE, "urn:x"}, tp \in Types, nl \in BOOLEAN}
NoChoice == [name |-> "-", ns |-> NONE, tp |-> "-", nillable |-> FALSE]
Slots == << {NONE, "urn:m"}, BOOLEAN, ChoiceSlot("a"), ChoiceSlot("b") \cup {NoChoice}, ChoiceSlot("c") \cup {NoChoice} >>
NModel == 5

ModelAt(p) == [ns |-> p[1], list |-> p[2],
               choices |-> SelectSeq(<<p[3], p[4], p[5]>>, LAMBDA c : c # NoChoice)]
\* (a compound field whose ONLY choice is a tokens choice has no type hint the context accepts -
\*  List[List[int]] is refused - and no generator produces one: left out of the universe)
Valid(p) == LET m == ModelAt(p) IN /\ WellFormed(m) /\ Len(m.choices) <= MaxChoices /\ (p[4] = NoChoice => p[5] = NoChoice)
                                   /\ ~(Len(m.choices) = 1 /\ m.choices[1].tp = "ints")

Init == parts = <<>>
NextModel == /\ Len(parts) < NModel
             /\ \E c \in Slots[Len(parts) + 1] : parts' = Append(parts, c)
             /\ (Len(parts') = NModel => Valid(parts'))
\* after the model, items are appended one by one
NextItem == /\ Len(parts) >= NModel /\ Len(parts) < NModel + (IF parts[2] THEN MaxLen ELSE 1)
            /\ \E it \in ItemsOf(ModelAt(parts)) : (it.wrapped => IsModel(ModelAt(parts).choices[it.c].tp)) /\ parts' = Append(parts, it)
Next == NextModel \/ NextItem
Spec == Init /\ [][Next]_parts

HasModel == Len(parts) >= NModel
Model == ModelAt(parts)
Inst == SubSeq(parts, NModel + 1, Len(parts))

MCOnly == Len(parts) <= NModel
InvInjective == Len(parts) = NModel => Injective(Model, 2)
InvDetermined == Len(parts) = NModel => Determined(Model, 2)

Emit == HasModel => PrintT(<<"CMPD", ToJson([m |-> Model, inst |-> Inst, doc |-> Prescribed(Model, Inst)])>>)
=============================================================================
