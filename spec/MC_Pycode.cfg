SPECIFICATION Spec
CONSTANTS
  EnumNamePolicy = "name"
  SeqPolicy = "list"
  Known = {}
INVARIANT InvEvaluatesBack
CHECK_DEADLOCK FALSE
