------------------------------- MODULE MC_Wsdl -------------------------------
(* Definitions with 1..MaxOps operations x styles x part kinds x headers x faults x soapActions,
   and every run of the client exchange on each operation. *)
EXTENDS Wsdl, Json
CONSTANTS MaxOps
VARIABLES d, k, c, inputOk
vars == <<d, k, c, inputOk>>

OpNames == <<"alpha", "getBeta", "Gamma_op", "delta2">>
\* nfaults: how many wsdl:fault messages the operation declares (a SOAP 1.1 fault response carries at most ONE of them)
OpShapes == {[style |-> s, parts |-> p, action |-> a, header |-> h, fault |-> f, nparts |-> n, complexPart |-> cp, nfaults |-> nf] :
               s \in {"", "document", "rpc"}, p \in {"element", "type"}, a \in {"", "urn:svc/act"}, h \in BOOLEAN, f \in BOOLEAN,
               n \in {1, 2}, cp \in BOOLEAN, nf \in {1, 2}}
\* parts given by type only make sense for rpc
Valid(bs, sh) == (sh.fault \/ sh.nfaults = 1) /\
                 IF (IF sh.style = "" THEN bs ELSE sh.style) = "document"
                 THEN sh.parts = "element" /\ sh.nparts = 1 /\ ~sh.complexPart      \* one body part (WS-I), by element
                 ELSE sh.parts = "type"
\* the definition is built operation by operation (so that -simulate can walk large spaces),
\* then the client exchange runs on operation k
Init == /\ \E bs \in {"document", "rpc"}, tr \in {SOAPHTTP, "http://example.com/other-transport"}, ty \in {"inline", "imported", "wsdl-import"},
              hf \in {"qualified", "unqualified"}, nh \in {1, 2}, bn \in {"tns", "other"} :
              (hf = "qualified" \/ ty = "inline") /\ (bn = "tns" \/ (nh = 1 /\ hf = "qualified" /\ bs = "rpc")) /\
             d = [tns |-> "urn:svc", bindingStyle |-> bs, location |-> "http://example.com/svc", transport |-> tr, types |-> ty, hdrForm |-> hf, nhdr |-> nh, bodyNs |-> bn, ops |-> <<>>]
        /\ k = 0 /\ inputOk \in BOOLEAN
        /\ c = CInit(<< <<"x-user", "1">> >>)
AddOp == /\ k = 0 /\ Len(d.ops) < MaxOps
         /\ \E sh \in {x \in OpShapes : Valid(d.bindingStyle, x)} :
               d' = [d EXCEPT !.ops = Append(d.ops, [name |-> OpNames[Len(d.ops) + 1]] @@ sh)]
         /\ UNCHANGED <<k, c, inputOk>>
Start == /\ k = 0 /\ d.ops # <<>> /\ k' = 1 /\ UNCHANGED <<d, c, inputOk>>
Run == /\ k > 0 /\ c.pc \notin {"done", "failed"}
       /\ c' = CStep(c, d, d.ops[k], inputOk)
       /\ UNCHANGED <<d, k, inputOk>>
Next == AddOp \/ Start \/ Run
Spec == Init /\ [][Next]_vars

InvExchange == k > 0 => ExchangeOk(c, d, d.ops[k])
InvTerminates == c.pc \in {"prepare_payload", "prepare_headers", "post", "parse", "done", "failed"}

Emit == (c.pc \in {"done", "failed"} /\ k = 1) =>
   PrintT(<<"WSDL", ToJson([def |-> d, inputOk |-> inputOk, final |-> c,
                             services |-> [i \in DOMAIN d.ops |-> Service(d, d.ops[i])],
                             envelopes |-> [i \in DOMAIN d.ops |-> RequestEnvelope(d, d.ops[i])]])>>)
=============================================================================
