SPECIFICATION Spec
CONSTANTS
  MaxFields = 1
  Faults = {"none", "unknownFirst", "unknownLast", "unknownAttr", "badValue", "childInPrimitive", "missingReq"}
  RootNss = {"__none__", "urn:a"}
  KidNss = {"__none__", "urn:b"}
  CatIds = {1,2,3,4,5,6,7,8,9,10,11,12,13,14,15,16,17,18,19,20,21,22,23,24,25,26,27}
  Cfgs <- AllCfgs
  MissingReqPolicy = "ParserError"
VIEW View
INVARIANT InvSlots
INVARIANT InvDocumented
INVARIANT InvProgress
INVARIANT InvValidAccepted
INVARIANT InvStrictUnknown
INVARIANT InvUnknownAttr
INVARIANT InvBadValue
CHECK_DEADLOCK FALSE
