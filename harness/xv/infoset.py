"""An independent reading of XML text: expat with namespace processing.

Nothing here comes from xsdata or from ElementTree: the document is parsed by
pyexpat directly, namespace scopes are tracked from the declaration events, and
the result is a plain tree

    {"name": (uri, local), "attrs": {(uri, local): value}, "nsmap": {prefix: uri},
     "content": [str | element, ...]}          # adjacent text merged

Raises xml.parsers.expat.ExpatError for anything that is not well-formed or not
namespace-well-formed (unbound prefix).
"""
from __future__ import annotations

from xml.parsers import expat

SEP = "\x1f"


def _split(name: str):
    if SEP in name:
        parts = name.split(SEP)
        return (parts[0], parts[1])
    return ("", name)


def parse(text: str | bytes) -> dict:
    p = expat.ParserCreate(namespace_separator=SEP)
    p.buffer_text = True
    p.ordered_attributes = True
    root_holder: list = []
    stack: list = []
    pending_ns: list = []
    scopes: list = [{"xml": "http://www.w3.org/XML/1998/namespace"}]

    def start_ns(prefix, uri):
        pending_ns.append((prefix or "", uri or ""))

    def start(name, attrs):
        scope = dict(scopes[-1])
        for pfx, uri in pending_ns:
            if uri == "":
                scope.pop(pfx, None)
            else:
                scope[pfx] = uri
        decls = list(pending_ns)
        pending_ns.clear()
        scopes.append(scope)
        el = {
            "name": _split(name),
            "attrs": {_split(attrs[i]): attrs[i + 1] for i in range(0, len(attrs), 2)},
            "nsmap": scope,
            "decls": decls,
            "content": [],
        }
        if stack:
            stack[-1]["content"].append(el)
        else:
            root_holder.append(el)
        stack.append(el)

    def end(name):
        stack.pop()
        scopes.pop()

    def chars(data):
        if stack:
            c = stack[-1]["content"]
            if c and isinstance(c[-1], str):
                c[-1] += data
            else:
                c.append(data)

    p.StartNamespaceDeclHandler = start_ns
    p.StartElementHandler = start
    p.EndElementHandler = end
    p.CharacterDataHandler = chars
    if isinstance(text, str):
        # expat honours an encoding declaration only for bytes; text is already decoded
        p.Parse(_strip_decl(text).encode("utf-8"), True)
    else:
        p.Parse(text, True)
    if not root_holder:
        raise expat.ExpatError("no root element")
    return root_holder[0]


def _strip_decl(text: str) -> str:
    t = text.lstrip()
    if t.startswith("<?xml"):
        end = t.index("?>")
        return t[end + 2:]
    return text


def resolve_qname(lexical: str, nsmap: dict) -> tuple | None:
    """Resolve a lexical QName against in-scope namespaces (default ns applies)."""
    lexical = lexical.strip()
    if ":" in lexical:
        pfx, local = lexical.split(":", 1)
        if pfx not in nsmap:
            return None
        return (nsmap[pfx], local)
    return (nsmap.get("", ""), lexical)


def elements(tree: dict):
    """Document-order iteration over elements."""
    yield tree
    for c in tree["content"]:
        if isinstance(c, dict):
            yield from elements(c)


def text_of(el: dict) -> str:
    return "".join(c for c in el["content"] if isinstance(c, str))


def canon(tree: dict, *, strip_ws_between_children: bool = True, keep_nsmap: bool = False):
    """Canonical, hashable-ish form for infoset comparison: expanded names, sorted attrs,
    content with whitespace-only text next to child elements removed (optional)."""
    has_child = any(isinstance(c, dict) for c in tree["content"])
    content = []
    for c in tree["content"]:
        if isinstance(c, str):
            if strip_ws_between_children and has_child and not c.strip():
                continue
            content.append(c)
        else:
            content.append(canon(c, strip_ws_between_children=strip_ws_between_children, keep_nsmap=keep_nsmap))
    out = {
        "name": list(tree["name"]),
        "attrs": sorted([list(k), v] for k, v in tree["attrs"].items()),
        "content": content,
    }
    if keep_nsmap:
        out["nsmap"] = dict(tree["nsmap"])
    return out
