"""xv: model-based verification harness for tefra/xsdata (TLA+ specs in ../../spec)."""
