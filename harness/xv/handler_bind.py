"""Binding for spec/Handler.tla: namespace-scoping documents, sources, spellings."""
from __future__ import annotations

import io
import os
import tempfile
import warnings
from dataclasses import dataclass, field
from typing import Optional, Union
from xml.etree import ElementTree as ET
from xml.etree.ElementTree import QName

from lxml import etree as LET

from xsdata.exceptions import ConverterWarning
from xsdata.formats.dataclass.context import XmlContext
from xsdata.formats.dataclass.parsers import XmlParser
from xsdata.formats.dataclass.parsers.config import ParserConfig
from xsdata.formats.dataclass.parsers.handlers import LxmlEventHandler, XmlEventHandler

NS_M = "urn:m"
HANDLERS = {"native": XmlEventHandler, "lxml": LxmlEventHandler}


@dataclass
class HKid:
    class Meta:
        namespace = NS_M

    q: Optional[QName] = field(default=None, metadata={"type": "Element"})


@dataclass
class HUa:
    class Meta:
        namespace = NS_M

    inner: Optional[HKid] = field(default=None, metadata={"type": "Element"})
    # values that belong to the scope of the union element ITSELF: an attribute (bound when the element ends) and a
    # later child that makes no declarations of its own
    after: Optional[HKid] = field(default=None, metadata={"type": "Element"})
    ref: Optional[QName] = field(default=None, metadata={"type": "Attribute"})


@dataclass
class HUb:
    class Meta:
        namespace = NS_M

    other: Optional[int] = field(default=None, metadata={"type": "Element"})


@dataclass
class HRoot:
    class Meta:
        namespace = NS_M

    pre: list[HKid] = field(default_factory=list, metadata={"type": "Element"})      # decoys in front of the chain (scoping_doc)
    items: list[QName] = field(default_factory=list, metadata={"type": "Element", "name": "q", "wrapper": "wrap"})
    kid: Optional[HKid] = field(default=None, metadata={"type": "Element"})
    u: Optional[Union[HUa, HUb]] = field(default=None, metadata={"type": "Element"})     # a union-typed middle (4 levels)
    anything: list[object] = field(default_factory=list, metadata={"type": "Wildcard", "namespace": "##any"})   # middle kind wildModel


@dataclass
class DItem:
    class Meta:
        namespace = ""

    value: Optional[str] = field(default=None, metadata={"type": "Element"})
    ref: Optional[QName] = field(default=None, metadata={"type": "Attribute"})


@dataclass
class DRoot:
    """qualified root, UNQUALIFIED children: in a document that uses a default namespace they reset it (xmlns="")"""

    class Meta:
        namespace = NS_M

    q: Optional[QName] = field(default=None, metadata={"type": "Element", "namespace": ""})
    qs: list[QName] = field(default_factory=list, metadata={"type": "Element", "namespace": ""})
    item: Optional[DItem] = field(default=None, metadata={"type": "Element", "namespace": ""})
    own: Optional[QName] = field(default=None, metadata={"type": "Element"})


def default_ns_docs():
    """(document, expected object): the root's namespace is the DEFAULT namespace, unqualified children switch it off;
    unprefixed QName values inside them have no namespace, inside qualified elements they take the default one."""
    docs = []
    for own in (None, "z"):
        for item in (False, True):
            body = '<q xmlns="">foo</q><qs xmlns="">a</qs><qs xmlns="">b</qs>'
            exp = DRoot(q=QName("foo"), qs=[QName("a"), QName("b")])
            if item:
                body += '<item xmlns="" ref="r"><value>v</value></item>'
                exp.item = DItem(value="v", ref=QName("r"))
            if own:
                body += f"<own>{own}</own>"
                exp.own = QName(NS_M, own)
            docs.append((f'<DRoot xmlns="{NS_M}">{body}</DRoot>', exp))
    return docs


def decl_text(decls) -> str:
    return "".join(f' xmlns{":" + p if p else ""}="{u}"' for p, u in decls)


def scoping_doc(levels, prefix: str, decoys: bool = False) -> str:
    """decoys: two SIBLING subtrees in front of the chain that carry the very declarations of the chain's middle and
    leaf elements, in another scope (directly under the root).  Declarations end with the element that makes them, so
    the expected values are those of the document without decoys."""
    mid = "wrap" if levels[1]["kind"] == "wrapper" else "kid"
    val = f"{prefix}:x" if prefix else "x"
    if levels[1]["kind"] == "wildModel":
        # the middle element is captured by a wildcard and bound to the class the context knows by its qualified name
        return (f'<m:HRoot xmlns:m="{NS_M}"{decl_text(levels[0]["decls"])}><m:HKid{decl_text(levels[1]["decls"])}>'
                f'<m:q{decl_text(levels[2]["decls"])}>{val}</m:q></m:HKid></m:HRoot>')
    if levels[1]["kind"] == "union":
        return (f'<m:HRoot xmlns:m="{NS_M}"{decl_text(levels[0]["decls"])}><m:u{decl_text(levels[1]["decls"])}>'
                f'<m:inner{decl_text(levels[2]["decls"])}><m:q>{val}</m:q></m:inner></m:u></m:HRoot>')
    pre = ""
    if decoys:
        pre = (f'<m:pre{decl_text(levels[2]["decls"])}><m:q>m:d1</m:q></m:pre>'
               f'<m:pre{decl_text(levels[1]["decls"])}><m:q{decl_text(levels[2]["decls"])}>m:d2</m:q></m:pre>')
    return (
        f'<m:HRoot xmlns:m="{NS_M}"{decl_text(levels[0]["decls"])}>{pre}'
        f'<m:{mid}{decl_text(levels[1]["decls"])}><m:q{decl_text(levels[2]["decls"])}>{val}</m:q></m:{mid}></m:HRoot>'
    )


def union_sibling_doc(levels, prefix: str) -> str:
    """The union document with a QName attribute on the union element and a child AFTER the one that makes the
    innermost declarations: both are in the scope of the union element, not of its first child."""
    val = f"{prefix}:x" if prefix else "x"
    return (f'<m:HRoot xmlns:m="{NS_M}"{decl_text(levels[0]["decls"])}><m:u{decl_text(levels[1]["decls"])} ref="{val}">'
            f'<m:inner{decl_text(levels[2]["decls"])}><m:q>{val}</m:q></m:inner><m:after><m:q>{val}</m:q></m:after></m:u></m:HRoot>')


def leaf_value(obj):
    if obj.items:
        return obj.items[0]
    if obj.anything:
        return getattr(obj.anything[0], "q", None)
    if obj.u is not None:
        return obj.u.inner.q if getattr(obj.u, "inner", None) else None
    return obj.kid.q if obj.kid else None


def parse(text, handler: str, ctx=None, clazz=HRoot, source_kind="str", config=None, parser=None):
    """Parse through one handler from one kind of source.  -> (status, value, n_warnings)
    parser: an existing XmlParser to REUSE (its namespace recorder then holds what earlier documents left)."""
    parser = parser or XmlParser(context=ctx or XmlContext(), handler=HANDLERS[handler], config=config or ParserConfig())
    data = text.encode("utf-8") if isinstance(text, str) else text
    tmp = None
    with warnings.catch_warnings(record=True) as w:
        warnings.simplefilter("always")
        try:
            if source_kind == "str":
                obj = parser.from_string(data.decode("utf-8"), clazz)
            elif source_kind == "bytes":
                obj = parser.from_bytes(data, clazz)
            elif source_kind == "file":
                obj = parser.parse(io.BytesIO(data), clazz)
            elif source_kind == "path":
                fd, tmp = tempfile.mkstemp(suffix=".xml", prefix="xv-src-")
                os.write(fd, data)
                os.close(fd)
                obj = parser.parse(tmp, clazz)
            elif source_kind == "pathlib":
                import pathlib

                fd, tmp = tempfile.mkstemp(suffix=".xml", prefix="xv-src-")
                os.write(fd, data)
                os.close(fd)
                obj = parser.from_path(pathlib.Path(tmp), clazz)
            elif source_kind == "tree":
                src = LET.ElementTree(LET.fromstring(data)) if handler == "lxml" else ET.ElementTree(ET.fromstring(data))
                obj = parser.parse(src, clazz)
            elif source_kind == "element":
                src = LET.fromstring(data) if handler == "lxml" else ET.fromstring(data)
                obj = parser.parse(src, clazz)
            else:
                raise ValueError(source_kind)
            out = ("ok", obj)
        except Exception as ex:  # noqa: BLE001
            out = ("exc", ex)
        finally:
            if tmp:
                os.unlink(tmp)
    return out[0], out[1], sum(1 for x in w if issubclass(x.category, ConverterWarning))


SOURCES = ["str", "bytes", "file", "path", "pathlib", "tree", "element"]


# -- meaning-preserving respellings below the event abstraction (C09) -------------------
def respell(text: str, how: str) -> bytes | str:
    """Rewrite XML text without changing its meaning."""
    if how == "comment":
        return text.replace(">", "><!-- c -->", 1) if text.count(">") > 1 else text
    if how in ("comment-in-text", "pi-in-text", "cdata-in-text"):
        # split the first run of character data of two or more characters (no markup, no references)
        import re

        m = re.search(r">([^<>&]{2,})</", text)
        if not m:
            return text
        run = m.group(1)
        half = len(run) // 2
        mid = {"comment-in-text": "<!--c-->", "pi-in-text": "<?p d?>", "cdata-in-text": f"<![CDATA[{run[half:]}]]>"}[how]
        new = run[:half] + mid + ("" if how == "cdata-in-text" else run[half:])
        return text[: m.start(1)] + new + text[m.end(1):]
    if how == "entity-in-text":
        # the second half of the first run of character data through a general entity declared in an internal DTD subset
        import re

        m = re.search(r">([^<>&]{2,})</", text)
        root = re.match(r"<([^\s/>]+)", text)
        if not m or not root or "%" in m.group(1) or ('"' in m.group(1) and "'" in m.group(1)):
            return text
        run = m.group(1)
        half = len(run) // 2
        q = "'" if '"' in run else '"'
        return f"<!DOCTYPE {root.group(1)} [<!ENTITY xve {q}{run[half:]}{q}>]>" + text[: m.start(1)] + run[:half] + "&xve;" + text[m.end(1):]
    if how == "pi":
        return "<?pi data?>" + text
    if how == "decl":
        return '<?xml version="1.0" encoding="UTF-8"?>\n' + text
    if how == "utf16":
        return ('<?xml version="1.0" encoding="UTF-16"?>' + text).encode("utf-16")
    if how == "latin1":
        if all(ord(c) < 256 for c in text):
            return ('<?xml version="1.0" encoding="ISO-8859-1"?>' + text).encode("latin-1")
        return text
    if how == "trailing-ws":
        return text + "\n\n"
    if how == "crlf":
        return text  # line ends only inside markup are handled by the styles
    raise ValueError(how)


RESPELL = ["comment", "pi", "decl", "utf16", "latin1", "trailing-ws", "comment-in-text", "pi-in-text", "cdata-in-text", "entity-in-text"]
