"""Common driver for every property check: CLI, verdicts, findings, evidence."""
from __future__ import annotations

import argparse
import hashlib
import importlib
import json
import os
import sys
import time
import traceback
from pathlib import Path

from . import tlc as tlcmod

ROOT = Path(__file__).resolve().parents[2]
# XV_OUT redirects evidence and replays (used by tools/sweep.sh so that exploratory runs do not
# overwrite the evidence of the registered commands)
_OUT = os.environ.get("XV_OUT")
EVID = (Path(_OUT) if _OUT else ROOT) / "evidence"
REPLAYS = (Path(_OUT) if _OUT else ROOT / "out") / "replays"
FINDINGS = ROOT / "known_findings.json"


def load_findings() -> list[dict]:
    if FINDINGS.exists():
        return json.loads(FINDINGS.read_text())["findings"]
    return []


class BudgetExceeded(Exception):
    """Raised by Ctx.case when the thorough tier has used its time budget: the run ends normally."""


class Ctx:
    """State of one check run."""

    def __init__(self, pid: str, tier: str, seed: int, replay: str | None):
        self.pid = pid
        self.tier = tier
        self.seed = seed
        self.replay_path = replay
        self.t0 = time.time()
        self.level = "model_checking"
        self.states = 0
        self.transitions = 0
        self.traces_validated = 0
        self.evaluations = 0
        self.nontrivial: set = set()
        self.samples: list = []
        self.violations: list[dict] = []
        self.known_seen: dict[str, int] = {}
        self.divergences: list = []
        self.extra: dict = {}
        self.assumptions: list[str] = []
        self.rule = ""
        self.tlc_runs: list[dict] = []
        self.exhaustive = False
        self.findings = [f for f in load_findings() if pid in f["properties"]]
        self.budget_s = float(os.environ.get("VERIF_BUDGET_S") or (2400 if tier == "thorough" else 0))

    # -- tiers ---------------------------------------------------------
    @property
    def quick(self) -> bool:
        return self.tier == "quick"

    def pick(self, quick, thorough):
        return quick if self.quick else thorough

    # -- TLC -----------------------------------------------------------
    def tlc(self, module, cfg=None, *, expect_ok=True, label=None, **kw):
        """Run TLC; fold statistics into the evidence. A violated invariant on the
        specification alone is reported to the caller (res.violated)."""
        if "seed" not in kw and kw.get("simulate"):
            kw["seed"] = self.seed
        require_cases = kw.pop("require_cases", False)
        res = tlcmod.run_tlc(module, cfg, **kw)
        print(f"  [tlc] {label or module}: generated={res.generated} distinct={res.distinct} printed={len(res.printed)} "
              f"violated={res.violated} {res.wall_s:.1f}s", file=sys.stderr, flush=True)
        self.states += res.distinct or res.generated
        self.transitions += res.generated
        self.tlc_runs.append(
            {
                "label": label or f"{module}/{cfg or module}",
                "cmd": res.cmd,
                "generated": res.generated,
                "distinct": res.distinct,
                "depth": res.depth,
                "violated": res.violated,
                "wall_s": round(res.wall_s, 2),
                "printed": len(res.printed),
                **({"coverage_actions": {k: v[0] for k, v in res.coverage.items()}} if res.coverage else {}),
            }
        )
        if require_cases and not res.printed:
            # a generator run that emits NOTHING makes the family it feeds check nothing (this happened: a slot added to
            # MC_Compose made the simulated walks one step too short to complete a schema) - never silently
            raise tlcmod.MachineryError(f"TLC emitted no case for {label or module} (tags {kw['tags']})")
        if expect_ok and (res.violated or not res.ok):
            raise tlcmod.MachineryError(
                f"TLC reported {res.violated or 'an error'} on {module}/{cfg}:\n"
                + "\n".join(res.error_trace[:80])
                + "\n"
                + res.raw[-1500:]
            )
        return res

    # -- cases ---------------------------------------------------------
    def case(self, key=None, nontrivial: bool = True):
        # the thorough tier explores until its time budget is used up (VERIF_BUDGET_S, default 40 min), then
        # reports on what it covered; the quick tier has fixed sizes and no budget
        if self.tier == "thorough" and self.out_of_time():
            raise BudgetExceeded()
        self.evaluations += 1
        if nontrivial and key is not None:
            if not isinstance(key, (str, bytes)):
                key = json.dumps(key, sort_keys=True, default=str)
            self.nontrivial.add(hashlib.blake2b(key.encode() if isinstance(key, str) else key, digest_size=8).digest())

    def sample(self, s, cap: int = 6):
        if len(self.samples) < cap:
            self.samples.append(s)

    def match_finding(self, case: dict) -> dict | None:
        tags = set(case.get("finding_tags") or [])
        for f in self.findings:
            if f.get("status") != "open":
                continue
            if f["id"] in tags:
                return f
        return None

    def violation(self, what: str, case: dict):
        """A decisive comparison failed on the real code."""
        f = self.match_finding(case)
        if f is not None:
            self.known_seen[f["id"]] = self.known_seen.get(f["id"], 0) + 1
            return
        if len(self.violations) < 50:
            self.violations.append({"what": what, "case": case})
        else:
            self.extra["violations_truncated"] = self.extra.get("violations_truncated", 0) + 1

    def known(self, fid: str):
        self.known_seen[fid] = self.known_seen.get(fid, 0) + 1

    def out_of_time(self, frac: float = 1.0) -> bool:
        return bool(self.budget_s) and (time.time() - self.t0) > self.budget_s * frac

    # -- finish --------------------------------------------------------
    def finish(self) -> int:
        EVID.mkdir(parents=True, exist_ok=True)
        rc = 0
        vio_paths = []
        if self.violations:
            rc = 1
            d = REPLAYS / self.pid
            d.mkdir(parents=True, exist_ok=True)
            for i, v in enumerate(self.violations):
                h = hashlib.blake2b(json.dumps(v, sort_keys=True, default=str).encode(), digest_size=6).hexdigest()
                p = d / f"{self.pid}-{h}.json"
                p.write_text(json.dumps({"property": self.pid, "seed": self.seed, "tier": self.tier, **v}, indent=1, default=str))
                vio_paths.append(str(p))
        for f in self.findings:
            if f.get("status") == "open":
                if self.known_seen.get(f["id"]):
                    print(f"KNOWN-FINDING: property={self.pid} {f['id']}: {f['what']} (seen {self.known_seen[f['id']]}x this run)")
                else:
                    print(f"NOTE: known finding {f['id']} was not exercised/reproduced by this run")
        cov = {
            "states": self.states,
            "transitions": self.transitions,
            "traces_validated_against_impl": self.traces_validated,
            "evaluations": self.evaluations,
            "distinct_nontrivial": len(self.nontrivial),
            "rule": self.rule,
            "samples": self.samples or ["(none)"],
            "exhaustive": self.exhaustive,
            "tlc_runs": self.tlc_runs,
            "divergences": self.divergences[:20],
            "known_findings_seen": self.known_seen,
            **self.extra,
        }
        ev = {
            "property_id": self.pid,
            "tier": self.tier,
            "seed": self.seed,
            "level": self.level,
            "coverage": cov,
            "assumptions": self.assumptions,
            "wall_s": round(time.time() - self.t0, 2),
            "violations": len(self.violations),
        }
        (EVID / f"{self.pid}.json").write_text(json.dumps(ev, indent=1, default=str) + "\n")
        for v, p in zip(self.violations, vio_paths):
            print(f"VIOLATION property={self.pid} replay={p}")
            print(f"  {v['what']}")
        print(
            f"{self.pid} {self.tier}: states={self.states} transitions={self.transitions} "
            f"traces_validated={self.traces_validated} evaluations={self.evaluations} "
            f"distinct_nontrivial={len(self.nontrivial)} divergences={len(self.divergences)} "
            f"violations={len(self.violations)} wall={ev['wall_s']}s"
        )
        return rc


def main(argv=None) -> int:
    ap = argparse.ArgumentParser(prog="check")
    ap.add_argument("pid")
    ap.add_argument("--tier", default=os.environ.get("VERIF_TIER") or "quick", choices=["quick", "thorough"])
    ap.add_argument("--replay", default=None)
    ap.add_argument("--seed", type=int, default=None)
    a = ap.parse_args(argv)
    if a.pid == "setup":
        from . import setup

        return setup.main()
    if a.pid == "selftest":
        from . import selftest

        return selftest.main()
    seed = a.seed if a.seed is not None else int(os.environ.get("VERIF_SEED") or 0)
    pid = a.pid.upper()
    ctx = Ctx(pid, a.tier, seed, a.replay)
    try:
        mod = importlib.import_module(f"xv.props.{pid.lower()}")
        if a.replay:
            case = json.loads(Path(a.replay).read_text())
            mod.replay(ctx, case)
        else:
            try:
                mod.run(ctx)
            except BudgetExceeded:
                ctx.extra["stopped_at_budget_s"] = round(time.time() - ctx.t0, 1)
                ctx.exhaustive = False
                print(f"NOTE: thorough run stopped at its time budget ({ctx.budget_s:.0f} s) after {ctx.evaluations} evaluations")
        return ctx.finish()
    except tlcmod.MachineryError as ex:
        print(f"MACHINERY property={pid} {ex}")
        return 2
    except Exception:  # noqa: BLE001
        print(f"MACHINERY property={pid} harness exception")
        traceback.print_exc()
        return 2


if __name__ == "__main__":
    sys.exit(main())
