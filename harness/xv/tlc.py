"""Run TLC / SANY on the committed specifications and parse what they print.

Everything TLC needs (metadir, generated MC modules, trace files) lives in a
mkdtemp scratch directory which is removed as soon as the call returns.
"""
from __future__ import annotations

import json
import os
import re
import shutil
import subprocess
import tempfile
import time
from dataclasses import dataclass, field
from pathlib import Path

ROOT = Path(__file__).resolve().parents[2]
SPEC = ROOT / "spec"
JAR = "/opt/veriftools/tla/tla2tools.jar"
DEPS = "/opt/veriftools/tla/CommunityModules-deps.jar"


class MachineryError(Exception):
    """Raised when the tooling (not the system under test) fails."""


@dataclass
class TLCResult:
    ok: bool
    generated: int = 0
    distinct: int = 0
    depth: int = 0
    wall_s: float = 0.0
    violated: str | None = None  # invariant / property name
    error_trace: list[str] = field(default_factory=list)
    printed: list = field(default_factory=list)  # decoded PrintT payloads
    coverage: dict = field(default_factory=dict)
    raw: str = ""
    cmd: str = ""
    simulated_traces: int = 0


_STR = re.compile(r'"((?:[^"\\]|\\.)*)"')


def _unescape(s: str) -> str:
    out = []
    i = 0
    while i < len(s):
        c = s[i]
        if c == "\\" and i + 1 < len(s):
            n = s[i + 1]
            out.append({"n": "\n", "t": "\t", "r": "\r", "f": "\f"}.get(n, n))
            i += 2
        else:
            out.append(c)
            i += 1
    return "".join(out)


def parse_printed(line: str):
    """Decode a line printed by PrintT(<<"TAG", ToJson(v)>>) -> (tag, value)."""
    if not line.startswith('<<"'):
        return None
    parts = _STR.findall(line)
    if len(parts) < 2:
        return None
    tag = _unescape(parts[0])
    try:
        return tag, json.loads(_unescape(parts[1]))
    except json.JSONDecodeError:
        return tag, _unescape(parts[1])


def scratch(prefix: str = "xv-") -> str:
    base = os.environ.get("XV_SCRATCH") or tempfile.gettempdir()
    return tempfile.mkdtemp(prefix=prefix, dir=base)


def run_tlc(
    module: str,
    cfg: str | None = None,
    *,
    workers: int | str = "auto",
    simulate: str | None = None,
    depth: int | None = None,
    seed: int | None = None,
    env: dict | None = None,
    timeout: int = 900,
    extra_files: dict[str, str] | None = None,
    coverage: bool = False,
    deadlock: bool = False,
    dfs: bool = False,
    extra_args: list[str] | None = None,
    tags: tuple[str, ...] | None = None,
    keep_raw: bool = True,
) -> TLCResult:
    """Run TLC on spec/<module>.tla with spec/<cfg>.

    extra_files: name -> text, written next to a copy of the spec directory
    (generated MC modules, cfg files, trace ndjson).
    """
    work = scratch("xv-tlc-")
    try:
        for p in SPEC.glob("*.tla"):
            shutil.copy(p, work)
        for p in SPEC.glob("*.cfg"):
            shutil.copy(p, work)
        for name, text in (extra_files or {}).items():
            Path(work, name).write_text(text)
        cfg = cfg or module + ".cfg"
        # (TLC drops small tlc-<n> directories into java.io.tmpdir: keep them inside the scratch directory, removed below)
        os.makedirs(os.path.join(work, "jtmp"), exist_ok=True)
        java = ["java", "-XX:+UseParallelGC", "-Xmx12g", "-Xss512m", f"-Djava.io.tmpdir={os.path.join(work, 'jtmp')}"]
        if dfs:
            java.append("-Dtlc2.tool.queue.IStateQueue=StateDeque")
        cmd = java + ["-cp", f"{JAR}:{DEPS}", "tlc2.TLC", "-metadir", os.path.join(work, "meta"),
                      "-noGenerateSpecTE", "-workers", str(workers), "-config", cfg]
        if not deadlock:
            cmd.append("-deadlock")  # -deadlock disables deadlock checking
        if simulate:
            cmd += ["-simulate", simulate]
        if depth is not None:
            cmd += ["-depth", str(depth)]
        if seed is not None:
            cmd += ["-seed", str(seed)]
        if coverage:
            cmd += ["-coverage", "1"]
        cmd += extra_args or []
        cmd.append(module + ".tla")
        e = dict(os.environ)
        e.update(env or {})
        t0 = time.time()
        try:
            proc = subprocess.run(cmd, cwd=work, env=e, capture_output=True, text=True, timeout=timeout)
        except subprocess.TimeoutExpired as ex:
            subprocess.run(["pkill", "-f", work], check=False)
            raise MachineryError(f"TLC timeout after {timeout}s on {module}/{cfg}") from ex
        out = proc.stdout + proc.stderr
        res = _parse(out, tags)
        res.wall_s = time.time() - t0
        res.cmd = " ".join(cmd[cmd.index("tlc2.TLC"):]).replace(work + "/", "")
        if not keep_raw:
            res.raw = res.raw[-4000:]
        if res.violated is None and proc.returncode != 0 and not res.ok:
            raise MachineryError(f"TLC failed on {module}/{cfg} (rc={proc.returncode}):\n" + out[-3000:])
        return res
    finally:
        shutil.rmtree(work, ignore_errors=True)


def _parse(out: str, tags) -> TLCResult:
    res = TLCResult(ok=False, raw=out)
    lines = out.splitlines()
    in_trace = False
    for i, line in enumerate(lines):
        if line.startswith('<<"'):
            p = parse_printed(line)
            if p is not None and (tags is None or p[0] in tags):
                res.printed.append(p)
            continue
        m = re.match(r"(\d+) states generated, (\d+) distinct states found", line)
        if m:
            res.generated, res.distinct = int(m.group(1)), int(m.group(2))
            continue
        m = re.match(r"The depth of the complete state graph search is (\d+)", line)
        if m:
            res.depth = int(m.group(1))
        m = re.match(r"Error: Invariant (\S+) is violated", line)
        if m:
            res.violated = m.group(1)
            in_trace = True
            continue
        m = re.match(r"Error: Action property (\S+) is violated", line)
        if m:
            res.violated = m.group(1)
            in_trace = True
            continue
        if line.startswith("Error: Temporal properties were violated") or line.startswith(
            "Error: Deadlock reached"
        ):
            res.violated = "Deadlock" if "Deadlock" in line else "Temporal"
            in_trace = True
            continue
        if line.startswith("Error:") and res.violated is None and "Evaluating" not in line:
            if "The behavior up to this point" in line:
                continue
            res.violated = None
            # generic error (assertion, evaluation error): machinery unless Assert text says otherwise
            res.error_trace.append(line)
        if in_trace:
            res.error_trace.append(line)
        m = re.match(r"The number of states generated: (\d+)", line)
        if m:
            res.generated = int(m.group(1))
        m = re.match(r"Progress: (\d+) states checked, (\d+) traces generated", line)
        if m:
            res.generated = int(m.group(1))
            res.simulated_traces = int(m.group(2))
        m = re.match(r"<(\w+) line (\d+), col \d+ to line \d+, col \d+ of module (\w+)>: (\d+):(\d+)", line)
        if m:
            res.coverage[f"{m.group(3)}.{m.group(1)}"] = (int(m.group(4)), int(m.group(5)))
    res.ok = ("Model checking completed. No error has been found." in out) or (
        "Finished in" in out and res.violated is None and not any(l.startswith("Error:") for l in lines)
    )
    return res


def sany(module_path: str) -> tuple[bool, str]:
    proc = subprocess.run(
        ["java", "-cp", f"{JAR}:{DEPS}", "tla2sany.SANY", os.path.basename(module_path)],
        cwd=os.path.dirname(module_path) or ".",
        capture_output=True,
        text=True,
    )
    out = proc.stdout + proc.stderr
    bad = ("*** Errors" in out) or ("Fatal errors" in out) or ("Could not" in out) or proc.returncode != 0
    return (not bad), out


def tla_str(s: str) -> str:
    return '"' + s.replace("\\", "\\\\").replace('"', '\\"') + '"'


def tla_value(v) -> str:
    """Render a JSON-like Python value as a TLA+ expression."""
    if v is None:
        return '"__none__"'
    if isinstance(v, bool):
        return "TRUE" if v else "FALSE"
    if isinstance(v, int):
        return str(v)
    if isinstance(v, str):
        return tla_str(v)
    if isinstance(v, (list, tuple)):
        return "<<" + ", ".join(tla_value(x) for x in v) + ">>"
    if isinstance(v, (set, frozenset)):
        return "{" + ", ".join(sorted(tla_value(x) for x in v)) + "}"
    if isinstance(v, dict):
        if not v:
            return "<<>>"
        return "[" + ", ".join(f"{k} |-> {tla_value(x)}" for k, x in v.items()) + "]"
    raise TypeError(type(v))
