"""Binding for spec/Schema.tla: abstract schema -> XSD text, abstract document -> XML text,
value-space comparison of documents, generator option sets."""
from __future__ import annotations

import hashlib
from decimal import Decimal

from lxml import etree

from . import infoset

NONE = "__none__"
XS = "http://www.w3.org/2001/XMLSchema"
XSI = "http://www.w3.org/2001/XMLSchema-instance"
U = 9
BUILTIN = {"int", "long", "string", "boolean", "decimal", "date"}
# pseudo types of Schema.tla: a built-in type plus a value constraint on the element declaration
VALUE_CONSTRAINED = {"FixedStr": ("string", ' fixed="kg"'), "DefInt": ("int", ' default="7"')}


def _t(tp, tns):
    if tp in BUILTIN:
        return f"xs:{tp}"
    if tp in VALUE_CONSTRAINED:
        return f"xs:{VALUE_CONSTRAINED[tp][0]}"
    return f"t:{tp}" if tns != NONE else tp


def _occ(p):
    out = ""
    if p["min"] != 1:
        out += f' minOccurs="{p["min"]}"'
    if p["max"] != 1:
        out += f' maxOccurs="{"unbounded" if p["max"] == U else p["max"]}"'
    return out


def particle_xsd(p, tns, top=False) -> str:
    if p["k"] == "el":
        if p.get("ref"):
            return f'<xs:element ref="{"t:" if tns != NONE else ""}{p["name"]}"{_occ(p)}/>'
        nil = ' nillable="true"' if p.get("nillable") else ""
        if p["tp"] == "IntsAnon":
            # an anonymous simple type given inline: a length-restricted anonymous list
            return (f'<xs:element name="{p["name"]}"{_occ(p)}{nil}><xs:simpleType><xs:restriction><xs:simpleType><xs:list itemType="xs:int"/></xs:simpleType>'
                    '<xs:maxLength value="3"/></xs:restriction></xs:simpleType></xs:element>')
        vc = VALUE_CONSTRAINED.get(p["tp"], ("", ""))[1]
        return f'<xs:element name="{p["name"]}" type="{_t(p["tp"], tns)}"{_occ(p)}{nil}{vc}/>'
    tag = {"seq": "sequence", "choice": "choice", "all": "all"}[p["k"]]
    return f"<xs:{tag}{_occ(p)}>" + "".join(particle_xsd(i, tns) for i in p["items"]) + f"</xs:{tag}>"


def schema_xsd(s) -> str:
    tns = s["tns"]
    head = f'<xs:schema xmlns:xs="{XS}"'
    if tns != NONE:
        head += f' targetNamespace="{tns}" xmlns:t="{tns}"'
    head += f' elementFormDefault="{s["form"]}">'
    types = (
        '<xs:simpleType name="Color"><xs:restriction base="xs:string"><xs:enumeration value="red"/><xs:enumeration value="dark blue"/></xs:restriction></xs:simpleType>'
        '<xs:simpleType name="Ints"><xs:list itemType="xs:int"/></xs:simpleType>'
        '<xs:simpleType name="IntOrStr"><xs:union memberTypes="xs:int xs:string"/></xs:simpleType>'
        f'<xs:simpleType name="ColorOrInt"><xs:union memberTypes="{_t("Color", tns)} xs:int"/></xs:simpleType>'
        '<xs:complexType name="Kid"><xs:sequence><xs:element name="x" type="xs:int"/><xs:element name="y" type="xs:string" minOccurs="0"/></xs:sequence></xs:complexType>'
        '<xs:element name="g" type="xs:string"/>'
    )
    attrs = ""
    for a in s["attrs"]:
        attrs += f'<xs:attribute name="{a["name"]}" type="{_t(a["tp"], tns)}"'
        if a["use"] == "required":
            attrs += ' use="required"'
        if a["default"] != NONE:
            attrs += f' default="{a["default"]}"'
        if a["fixed"] != NONE:
            attrs += f' fixed="{a["fixed"]}"'
        attrs += "/>"
    if s["kind"] == "simpleContent":
        body = f'<xs:simpleContent><xs:extension base="xs:string">{attrs}</xs:extension></xs:simpleContent>'
    else:
        body = particle_xsd(s["root"], tns, top=True) + attrs
    if s["named"]:
        root = f'<xs:complexType name="RootType">{body}</xs:complexType><xs:element name="root" type="{_t("RootType", tns)}"/>'
    else:
        root = f'<xs:element name="root"><xs:complexType>{body}</xs:complexType></xs:element>'
    text = head + types + root + "</xs:schema>"
    if tns != NONE and default_ns_spelling(s):
        # the SAME schema, spelled with the target namespace as the default namespace and unprefixed references
        # (type="Kid", ref="g") - a schema document is XML: how it binds its prefixes does not change the schema
        text = text.replace(f' xmlns:t="{tns}"', f' xmlns="{tns}"', 1).replace('="t:', '="')
    return text


def default_ns_spelling(s) -> bool:
    return (s["form"] == "unqualified" and not s["named"]) or (s["form"] == "qualified" and s["named"] and len(s["attrs"]) == 1)


def _parity(doc) -> int:
    return int(hashlib.blake2b(repr(doc).encode(), digest_size=2).hexdigest(), 16)


def attr_instances(s, doc):
    """Which attributes the document carries (a deterministic function of the document)."""
    par = _parity(doc)
    out = []
    for i, a in enumerate(s["attrs"]):
        present = a["use"] == "required" or ((par >> i) & 1) == 1
        if not present:
            continue
        if a["fixed"] != NONE:
            val = a["fixed"]
        else:
            val = {"int": "7", "boolean": "false", "string": "s", "Color": "red", "decimal": "1.50"}[a["tp"]]
        out.append((a["name"], val))
    return out


def doc_xml(s, doc) -> str:
    tns = s["tns"]
    q = tns != NONE and s["form"] == "qualified"
    decl = f' xmlns:t="{tns}"' if tns != NONE else ""
    decl += f' xmlns:xsi="{XSI}"'

    def el(o, qualified):
        tag = f"t:{o['name']}" if qualified and tns != NONE else o["name"]
        if o["nil"]:
            return f'<{tag} xsi:nil="true"/>'
        inner = o["text"].replace("&", "&amp;").replace("<", "&lt;") + "".join(el(k, q) for k in o["kids"])
        return f"<{tag}>{inner}</{tag}>" if inner else f"<{tag}/>"

    attrs = "".join(f' {n}="{v}"' for n, v in attr_instances(s, doc))
    rtag = "t:root" if tns != NONE else "root"
    if s["kind"] == "simpleContent":
        return f"<{rtag}{decl}{attrs}>text</{rtag}>"
    body = "".join(el(o, q or (o["name"] == "g")) for o in doc)
    return f"<{rtag}{decl}{attrs}>{body}</{rtag}>"


# -- value-space comparison ----------------------------------------------------------
def vs(tp: str, text: str):
    t = text.strip()
    try:
        if tp in ("int", "long", "DefInt"):
            return ("int", int(t))
        if tp == "boolean":
            return ("bool", t in ("true", "1"))
        if tp == "decimal":
            return ("dec", Decimal(t))
        if tp in ("Ints", "IntsAnon"):
            return ("ints", tuple(int(x) for x in t.split()))
        if tp in ("IntOrStr", "ColorOrInt"):
            try:
                return ("u", int(t))
            except ValueError:
                return ("u", t)
    except Exception:  # noqa: BLE001
        return ("bad", text)
    return ("s", text)


def type_map(s):
    m = {"x": "int", "y": "string", "g": "string"}

    def walk(p):
        if p["k"] == "el":
            m[p["name"]] = p["tp"]
        else:
            for i in p["items"]:
                walk(i)

    walk(s["root"])
    return m


def flatten(tree, s, path=""):
    """(path, expanded name, typed value | nil) for every element, document order."""
    tm = type_map(s)
    out = []

    def walk(el, path):
        name = tuple(el["name"])
        kids = [c for c in el["content"] if isinstance(c, dict)]
        nil = el["attrs"].get((XSI, "nil")) in ("true", "1")
        text = "".join(c for c in el["content"] if isinstance(c, str))
        if not kids:
            out.append((path, name, "nil" if nil else vs(tm.get(name[1], "string"), text)))
        else:
            out.append((path, name, "complex"))
        for k in kids:
            walk(k, path + "/" + name[1])

    for c in tree["content"]:
        if isinstance(c, dict):
            walk(c, "")
    return out


def root_attrs(tree, s):
    """Attributes of the root in the value space, with declared defaults / fixed values applied."""
    decl = {a["name"]: a for a in s["attrs"]}
    got = {k[1]: v for k, v in tree["attrs"].items() if k[0] == ""}
    out = {}
    for n, a in decl.items():
        v = got.get(n)
        if v is None:
            v = a["default"] if a["default"] != NONE else (a["fixed"] if a["fixed"] != NONE else None)
        if v is not None:
            out[n] = vs(a["tp"], v)
    for n in got:
        if n not in decl:
            out[n] = ("undeclared", got[n])
    return out


def validate(xsd_text: str, xml_text: str):
    schema = etree.XMLSchema(etree.fromstring(xsd_text.encode()))
    ok = schema.validate(etree.fromstring(xml_text.encode()))
    return ok, str(schema.error_log)[:500]


def option_sets():
    from xsdata.models.config import DocstringStyle, StructureStyle

    return [
        ("default+compound", {"compound_fields.enabled": True}),
        ("plain", {}),
        ("frozen-slots-kwonly-google", {"compound_fields.enabled": True, "format.frozen": True, "format.slots": True, "format.kw_only": True,
                                        "docstring_style": DocstringStyle.GOOGLE, "unnest_classes": True, "generic_collections": True}),
        ("namespaces-relative", {"compound_fields.enabled": True, "structure_style": StructureStyle.NAMESPACES, "relative_imports": True,
                                 "docstring_style": DocstringStyle.NUMPY}),
        ("clusters-wrapper", {"structure_style": StructureStyle.CLUSTERS, "wrapper_fields": True, "compound_fields.enabled": True}),
    ]
