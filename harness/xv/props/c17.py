"""C17 - WSDL generation yields usable SOAP bindings.

spec/Wsdl.tla: WSDL 1.1 / SOAP 1.1 definitions (1..4 operations x document/rpc (binding default
or per operation) x parts by element / by type x optional header x optional fault x soapAction
present or empty), the service description and request envelope each operation PRESCRIBES, and
Client.send as four actions; TLC checks the exchange invariants for every definition and every run
(also with an unsupported transport and a wrong input object).  Binding: each definition is
written as a .wsdl with an inline schema, the REAL generator runs, the generated service classes
are read (decisive: style, location, transport, soapAction, input, output), a request is built
from the input class and serialised (decisive: the envelope is the prescribed one), and
Client.send runs against a recording transport with canned normal and fault responses (decisive:
posted bytes equal the payload, headers, parsed output incl. the SOAP fault).
"""
from __future__ import annotations

import dataclasses
import json
import sys
import typing

from xsdata.formats.dataclass.client import Client, ClientValueError
from xsdata.formats.dataclass.context import XmlContext
from xsdata.formats.dataclass.parsers import XmlParser
from xsdata.formats.dataclass.serializers import XmlSerializer
from xsdata.formats.dataclass.serializers.config import SerializerConfig
from xsdata.formats.dataclass.transports import DefaultTransport, Transport

from .. import codegen_run as cg
from .. import infoset

SOAPENV = "http://schemas.xmlsoap.org/soap/envelope/"
XSD = "http://www.w3.org/2001/XMLSchema"


def eff_style(d, o):
    return o["style"] or d["bindingStyle"]


def wsdl_files(d) -> dict:
    """The definition as files: svc.wsdl; types.xsd when the schema is imported; iface.wsdl when the definition is
    split into an interface document (types, messages, portType) imported by the binding / service document."""
    if d.get("types") == "wsdl-import":
        return wsdl_split(d)
    text, schema = wsdl_text(d, split=d.get("types") == "imported")
    return {"svc.wsdl": text, **({"types.xsd": schema} if schema else {})}


def wsdl_split(d) -> dict:
    """Two WSDL documents that BOTH carry inline <types>: iface.wsdl (body / fault elements, messages, portType) is
    imported by svc.wsdl (header elements, header message, binding, service)."""
    import re

    whole, _ = wsdl_text(d)
    tns = d["tns"]
    head = whole[: whole.index("<types>")]
    els = re.findall(r"<xsd:(?:element|complexType) name=.*?</xsd:(?:element|complexType)>(?=<xsd:(?:element|complexType) name=|</xsd:schema>)", whole[whole.index("<types>"): whole.index("</types>")])
    msgs = re.findall(r"<message .*?</message>", whole)
    port = whole[whole.index("<portType"): whole.index("</portType>") + len("</portType>")]
    rest = whole[whole.index("<binding"):]
    is_hdr = lambda x: 'name="Auth"' in x or 'name="Audit"' in x or 'name="AuthHeader"' in x  # noqa: E731
    schema = lambda items: f'<types><xsd:schema targetNamespace="{tns}" elementFormDefault="qualified">{"".join(items)}</xsd:schema></types>'  # noqa: E731
    # the imported document spells the references of its message parts with a prefix of its OWN (q, declared on each
    # message); the importing document binds the same prefix to another namespace: a QName means what the scope it is
    # written in says
    def requalify(m):
        return m.replace("<message ", f'<message xmlns:q="{tns}" ', 1).replace('element="tns:', 'element="q:').replace('type="tns:', 'type="q:')

    iface = head + schema([e for e in els if not is_hdr(e)]) + "".join(requalify(m) for m in msgs if not is_hdr(m)) + port + "</definitions>"
    head = head.replace("<definitions ", '<definitions xmlns:q="urn:somewhere-else" ', 1)
    hdr_els = [e for e in els if is_hdr(e)]
    svc = (head + f'<import namespace="{tns}" location="iface.wsdl"/>' + (schema(hdr_els) if hdr_els else "")
           + "".join(m for m in msgs if is_hdr(m)) + rest)
    return {"svc.wsdl": svc, "iface.wsdl": iface}


def body_ns(d):
    return "urn:svc:body" if d.get("bodyNs") == "other" else d["tns"]


def wsdl_text(d, split=False):
    tns = d["tns"]
    els, msgs, pops, bops = [], [], [], []
    if any(o.get("complexPart") for o in d["ops"]):
        els.append('<xsd:complexType name="Pair"><xsd:sequence><xsd:element name="x" type="xsd:int"/><xsd:element name="y" type="xsd:string"/></xsd:sequence></xsd:complexType>')
    for o in d["ops"]:
        n = o["name"]
        if eff_style(d, o) == "document":
            els.append(f'<xsd:element name="{n}Request"><xsd:complexType><xsd:sequence><xsd:element name="a" type="xsd:int"/></xsd:sequence></xsd:complexType></xsd:element>')
            els.append(f'<xsd:element name="{n}Response"><xsd:complexType><xsd:sequence><xsd:element name="r" type="xsd:string"/></xsd:sequence></xsd:complexType></xsd:element>')
            msgs.append(f'<message name="{n}In"><part name="parameters" element="tns:{n}Request"/></message>')
            msgs.append(f'<message name="{n}Out"><part name="parameters" element="tns:{n}Response"/></message>')
        else:
            extra = ('<part name="b" type="xsd:string"/>' if o.get("nparts") == 2 else "") + ('<part name="c" type="tns:Pair"/>' if o.get("complexPart") else "")
            msgs.append(f'<message name="{n}In"><part name="a" type="xsd:int"/>{extra}</message>')
            # (WSDL 1.1 does not name the rpc response wrapper; the message is named by the usual
            #  <operation>Response convention so that no reading of the standard is privileged)
            msgs.append(f'<message name="{n}Response"><part name="r" type="xsd:string"/></message>')
        fnames = [f"{n}Fault", f"{n}Fault2"][: o.get("nfaults", 1)] if o["fault"] else []
        for fn in fnames:
            els.append(f'<xsd:element name="{fn}"><xsd:complexType><xsd:sequence><xsd:element name="reason" type="xsd:string"/></xsd:sequence></xsd:complexType></xsd:element>')
            msgs.append(f'<message name="{fn}Msg"><part name="fault" element="tns:{fn}"/></message>')
        flt = "".join(f'<fault name="{fn}" message="tns:{fn}Msg"/>' for fn in fnames)
        outm = f"{n}Out" if eff_style(d, o) == "document" else f"{n}Response"
        pops.append(f'<operation name="{n}"><input message="tns:{n}In"/><output message="tns:{outm}"/>{flt}</operation>')
        style = f' style="{o["style"]}"' if o["style"] else ""
        nsattr = f' namespace="{body_ns(d)}"' if eff_style(d, o) == "rpc" else ""
        hdr = '<soap:header message="tns:AuthHeader" part="auth" use="literal"/>' if o["header"] else ""
        if o["header"] and d.get("nhdr", 1) == 2:
            hdr += '<soap:header message="tns:AuthHeader" part="au" use="literal"/>'     # a second header block: the other part of the message
        bflt = "".join(f'<fault name="{fn}"><soap:fault name="{fn}" use="literal"/></fault>' for fn in fnames)
        body_ext = f'<soap:body use="literal"{nsattr}/>'
        # both (valid) orders of the extension elements occur: header first for names of even length
        inp = (hdr + body_ext) if len(n) % 2 == 0 else (body_ext + hdr)
        bops.append(f'<operation name="{n}"><soap:operation soapAction="{o["action"]}"{style}/><input>{inp}</input>'
                    f'<output><soap:body use="literal"{nsattr}/></output>{bflt}</operation>')
    if any(o["header"] for o in d["ops"]):
        els.append('<xsd:element name="Auth"><xsd:complexType><xsd:sequence><xsd:element name="token" type="xsd:string"/></xsd:sequence></xsd:complexType></xsd:element>')
        # the header message has TWO parts, the binding selects one of them by name (part="auth"); the name of the
        # other one is a prefix of it
        els.append('<xsd:element name="Audit"><xsd:complexType><xsd:sequence><xsd:element name="who" type="xsd:string"/></xsd:sequence></xsd:complexType></xsd:element>')
        msgs.append('<message name="AuthHeader"><part name="au" element="tns:Audit"/><part name="auth" element="tns:Auth"/></message>')
    schema_file = None
    if split:
        schema_file = f'<xsd:schema xmlns:xsd="{XSD}" xmlns:tns="{tns}" targetNamespace="{tns}" elementFormDefault="qualified">{"".join(els)}</xsd:schema>'
        types = f'<types><xsd:schema><xsd:import namespace="{tns}" schemaLocation="types.xsd"/></xsd:schema></types>'
    else:
        hdr = [e for e in els if 'name="Auth"' in e or 'name="Audit"' in e]
        if d.get("hdrForm") == "unqualified" and d.get("types", "inline") == "inline" and hdr:
            # two inline schemas: the first says elementFormDefault="qualified", the second (header elements) says nothing
            rest_els = [e for e in els if e not in hdr]
            types = (f'<types><xsd:schema targetNamespace="{tns}" elementFormDefault="qualified">{"".join(rest_els)}</xsd:schema>'
                     f'<xsd:schema targetNamespace="{tns}">{"".join(hdr)}</xsd:schema></types>')
        else:
            types = f'<types><xsd:schema targetNamespace="{tns}" elementFormDefault="qualified">{"".join(els)}</xsd:schema></types>'
    return (
        f'<definitions xmlns="http://schemas.xmlsoap.org/wsdl/" xmlns:soap="http://schemas.xmlsoap.org/wsdl/soap/" xmlns:tns="{tns}" xmlns:xsd="{XSD}" '
        f'targetNamespace="{tns}" name="Svc">{types}'
        f'{"".join(msgs)}<portType name="Port">{"".join(pops)}</portType>'
        f'<binding name="PortBinding" type="tns:Port"><soap:binding transport="{d["transport"]}" style="{d["bindingStyle"]}"/>{"".join(bops)}</binding>'
        f'<service name="Svc"><port name="PortPort" binding="tns:PortBinding"><soap:address location="{d["location"]}"/></port></service></definitions>'
    ), schema_file


def hints(cls):
    mod = sys.modules[cls.__module__]
    ns = dict(vars(mod))
    outer = cls
    return typing.get_type_hints(cls, ns, {cls.__name__.split(".")[-1]: cls, **{c.__name__: c for c in vars(mod).values() if isinstance(c, type)}})


def fill(cls, skip=("fault",)):
    """Instantiate a generated class with deterministic sample values."""
    kw = {}
    for f in dataclasses.fields(cls):
        if f.name in skip or not f.init:
            continue
        tp = f.type
        if isinstance(tp, str):
            tp = _resolve(cls, tp)
        kw[f.name] = value_for(tp)
    return cls(**kw)


def _resolve(cls, name: str):
    mod = sys.modules[cls.__module__]
    name = name.replace("None | ", "").replace(" | None", "").strip()
    if name.startswith("list["):
        return list[_resolve(cls, name[5:-1])]
    obj = mod
    for part in name.split("."):
        obj = getattr(obj, part, None) if obj is not None else None
    return obj if obj is not None else {"int": int, "str": str, "bool": bool, "float": float}.get(name, str)


def value_for(tp):
    if dataclasses.is_dataclass(tp):
        return fill(tp)
    if typing.get_origin(tp) is list:
        return [value_for(typing.get_args(tp)[0])]
    if tp is int:
        return 7
    if tp is bool:
        return True
    return "s"


def tree_of(el):
    kids = [tree_of(c) for c in el["content"] if isinstance(c, dict)]
    text = "".join(c for c in el["content"] if isinstance(c, str)) if not kids else ""
    return {"name": list(el["name"]), "text": text, "kids": kids}


class HttpStatusError(Exception):
    """what requests.Response.raise_for_status raises, for the stand-in session"""


class _Response:
    def __init__(self, status_code, content):
        self.status_code, self.content = status_code, content

    def raise_for_status(self):
        if self.status_code >= 400:
            raise HttpStatusError(self.status_code)


class _Session:
    def __init__(self, owner):
        self.owner = owner

    def post(self, url, data=None, headers=None, timeout=None):
        self.owner.calls.append({"url": url, "data": data, "headers": dict(headers)})
        return _Response(self.owner.status, self.owner.response)


class Recording(DefaultTransport):
    """The library's DEFAULT transport over a recording stand-in for the HTTP session: the status handling of
    DefaultTransport.handle_response is part of the exchange (SOAP 1.1 faults arrive with HTTP 500)."""

    __slots__ = ("calls", "response", "status")

    def __init__(self, response: bytes, status: int = 200):
        self.calls = []
        self.response = response
        self.status = status
        super().__init__(session=_Session(self))


def pascal(name):
    import re

    return "".join(p[:1].upper() + p[1:] for p in re.split(r"[_\W]+", name) if p)


def check_def(ctx, c):
    d = c["def"]
    files = wsdl_files(d)
    text = "\n".join(f"<!-- {k} -->\n{v}" for k, v in files.items())
    gen = cg.generate(files, ["svc.wsdl"])
    try:
        info = {"wsdl": text, "definition": d}
        if gen.error is not None:
            ctx.violation(f"generation from a WSDL failed: {type(gen.error).__name__}: {gen.error}", info)
            return
        try:
            mod = gen.module()
        except Exception as ex:  # noqa: BLE001
            ctx.violation(f"package generated from a WSDL does not import: {type(ex).__name__}: {ex}", {**info, "files": {k: v[:3000] for k, v in gen.files.items()}})
            return
        src = "\n".join(gen.files.values())
        # ONE headers mapping of the caller's, handed to every call of every operation of the definition (the usual way
        # to carry credentials): no call may leave anything of its own in it
        caller_headers = {"x-user": "1"}
        for i, o in enumerate(d["ops"]):
            svc_spec, env_spec = c["services"][i], c["envelopes"][i]
            ctx.case(("wsdl", text, o["name"]))
            cname = next((n for n in dir(mod) if n.lower() == ("Port" + pascal(o["name"])).lower()), None)
            oinfo = {**info, "operation": o, "source": src[-6000:]}
            if cname is None:
                ctx.violation(f"no service description class for operation {o['name']} (classes: {[n for n in dir(mod) if n.startswith('Port')]})", oinfo)
                continue
            svc = getattr(mod, cname)
            for attr in ("style", "location", "transport"):
                if getattr(svc, attr, None) != svc_spec[attr]:
                    ctx.violation(f"{cname}.{attr} = {getattr(svc, attr, None)!r}, the WSDL prescribes {svc_spec[attr]!r}", oinfo)
            sa = getattr(svc, "soapAction", getattr(svc, "soap_action", None))
            if (sa or "") != svc_spec["soapAction"]:
                ctx.violation(f"{cname}.soapAction = {sa!r}, the WSDL prescribes {svc_spec['soapAction']!r}", oinfo)
            if not (isinstance(getattr(svc, "input", None), type) and isinstance(getattr(svc, "output", None), type)):
                ctx.violation(f"{cname} lacks input/output envelope classes", oinfo)
                continue
            xctx = XmlContext(models_package=gen.pkg)
            try:
                req = fill(svc.input)
                ser = XmlSerializer(context=xctx, config=SerializerConfig(xml_declaration=False))
                payload = ser.render(req)
                got = tree_of(infoset.parse(payload))
            except Exception as ex:  # noqa: BLE001
                ctx.violation(f"a request built from {svc.input.__name__} cannot be serialised: {type(ex).__name__}: {ex}", oinfo)
                continue
            want = _norm(env_spec)
            if got != want and d["transport"] == "http://schemas.xmlsoap.org/soap/http":
                swapped = dict(got, kids=list(reversed(got["kids"])))
                tags = ["F26"] if o["header"] and swapped == want else []
                ctx.violation(f"request envelope of {o['name']}: {got}, the WSDL prescribes {want}", {**oinfo, "payload": payload, "finding_tags": tags})
            exchange(ctx, d, o, svc, xctx, req, oinfo, caller_headers)
    finally:
        gen.cleanup()


def _norm(e):
    return {"name": list(e["name"]), "text": e["text"] if not e["kids"] else "", "kids": [_norm(k) for k in e["kids"]]}


def response_xml(d, o, fault=False):
    """fault: False (normal response), True / "first" (a fault carrying the first declared detail element),
    "second" (only the second declared one), "nodetail" (a fault without detail: faults raised while processing
    the header carry none)."""
    tns = d["tns"]
    if fault:
        which = f'{o["name"]}Fault2' if fault == "second" else f'{o["name"]}Fault'
        detail = f'<detail><t:{which} xmlns:t="{tns}"><t:reason>why</t:reason></t:{which}></detail>' if o["fault"] and fault != "nodetail" else ""
        body = f"<e:Fault><faultcode>e:Server</faultcode><faultstring>boom</faultstring>{detail}</e:Fault>"
    elif eff_style(d, o) == "document":
        body = f'<t:{o["name"]}Response xmlns:t="{tns}"><t:r>pong</t:r></t:{o["name"]}Response>'
    else:
        body = f'<t:{o["name"]}Response xmlns:t="{body_ns(d)}"><r>pong</r></t:{o["name"]}Response>'
    return f'<e:Envelope xmlns:e="{SOAPENV}"><e:Body>{body}</e:Body></e:Envelope>'.encode()


def exchange(ctx, d, o, svc, xctx, req, oinfo, caller_headers=None):
    caller_headers = {"x-user": "1"} if caller_headers is None else caller_headers
    supported = d["transport"] == "http://schemas.xmlsoap.org/soap/http"
    for fault in (False, True, "nodetail") + (("second",) if o["fault"] and o.get("nfaults", 1) == 2 else ()):
        resp = response_xml(d, o, fault)
        tr = Recording(resp, status=500 if fault else 200)
        client = Client.from_service(svc)
        client.transport = tr
        client.parser = XmlParser(context=xctx)
        client.serializer = XmlSerializer(context=xctx)
        try:
            result = client.send(req, headers=caller_headers)
        except ClientValueError as ex:
            if supported:
                ctx.violation(f"Client.send raised ClientValueError for a supported transport: {ex}", oinfo)
            elif tr.calls:
                ctx.violation("Client.send posted although the transport is unsupported", oinfo)
            continue
        except Exception as ex:  # noqa: BLE001
            ctx.violation(f"Client.send raised {type(ex).__name__}: {ex}", {**oinfo, "response": resp.decode()})
            continue
        if caller_headers != {"x-user": "1"}:
            ctx.violation(f"Client.send changed the caller's headers mapping: {caller_headers}", oinfo)
            caller_headers.clear()
            caller_headers["x-user"] = "1"
        if not supported:
            ctx.violation("Client.send accepted an unsupported binding transport", oinfo)
            continue
        if len(tr.calls) != 1:
            ctx.violation(f"Client.send posted {len(tr.calls)} times", oinfo)
            continue
        call = tr.calls[0]
        expect_payload = client.serializer.render(req)
        data = call["data"].decode() if isinstance(call["data"], bytes) else call["data"]
        if data != expect_payload or call["url"] != d["location"]:
            ctx.violation(f"posted payload/url differ from the serialised request / endpoint: {call['url']}", {**oinfo, "posted": data[:800]})
        h = call["headers"]
        if h.get("content-type") != "text/xml" or h.get("x-user") != "1" or (h.get("SOAPAction") or "") != o["action"]:
            ctx.violation(f"request headers {h}: expected content-type text/xml, the caller's headers and SOAPAction {o['action']!r}", oinfo)
        if not isinstance(result, svc.output):
            ctx.violation(f"Client.send returned {type(result).__name__}, not the output envelope", oinfo)
            continue
        direct = XmlParser(context=xctx).from_bytes(resp, svc.output)
        if result != direct:
            ctx.violation("Client.send result differs from parsing the response into the output class", oinfo)
        body = result.body
        if fault:
            f = getattr(body, "fault", None)
            if f is None or f.faultstring != "boom" or f.faultcode != "e:Server" and not str(f.faultcode).endswith("Server"):
                ctx.violation(f"SOAP fault not bound: {body!r}", {**oinfo, "response": resp.decode()})
            elif o["fault"] and fault != "nodetail" and (f.detail is None or "why" not in repr(f.detail)):
                ctx.violation(f"fault detail not bound: {f!r}", {**oinfo, "response": resp.decode()})
        elif "pong" not in repr(body):
            ctx.violation(f"response value not bound: {body!r}", {**oinfo, "response": resp.decode()})
    # a status that carries no SOAP envelope (404) is an error of the transport, never an output envelope
    if supported:
        tr = Recording(b"<html>not found</html>", status=404)
        client = Client.from_service(svc)
        client.transport = tr
        client.parser = XmlParser(context=xctx)
        client.serializer = XmlSerializer(context=xctx)
        try:
            got = client.send(req, headers=caller_headers)
            ctx.violation(f"Client.send returned {type(got).__name__} for an HTTP 404 response", oinfo)
        except HttpStatusError:
            pass
        except Exception as ex:  # noqa: BLE001
            ctx.violation(f"HTTP 404 response: {type(ex).__name__}: {ex} instead of the transport's status error", oinfo)
        caller_headers.clear()
        caller_headers["x-user"] = "1"
    # the caller OVERRIDES properties of the service description (Client.from_service(svc, **kwargs)): what the caller
    # says wins, also when it says "no SOAPAction" or nothing at all
    if supported:
        for over, want_url, want_action in (({"location": "http://other.example/alt"}, "http://other.example/alt", o["action"]),
                                            ({"soap_action": ""}, d["location"], ""), ({"soap_action": None}, d["location"], ""),
                                            ({"soap_action": "urn:overridden", "location": "http://other.example/alt"}, "http://other.example/alt", "urn:overridden")):
            tr = Recording(response_xml(d, o))
            client = Client.from_service(svc, **over)
            client.transport = tr
            client.parser = XmlParser(context=xctx)
            client.serializer = XmlSerializer(context=xctx)
            ctx.case(("wsdl-override", oinfo["wsdl"], o["name"], repr(over)))
            try:
                client.send(req)
            except Exception as ex:  # noqa: BLE001
                ctx.violation(f"Client.from_service(..., {over}).send raised {type(ex).__name__}: {ex}", oinfo)
                continue
            call = tr.calls[0] if tr.calls else {"url": None, "headers": {}}
            if call["url"] != want_url or (call["headers"].get("SOAPAction") or "") != want_action:
                ctx.violation(f"Client.from_service(..., {over}): posted to {call['url']} with headers {call['headers']}; the caller asked for {want_url} and SOAPAction {want_action!r}", oinfo)
    # a wrong input object is rejected before anything is sent
    tr = Recording(b"")
    client = Client.from_service(svc)
    client.transport = tr
    try:
        client.send(object())
        ctx.violation("Client.send accepted an object that is not the input envelope", oinfo)
    except ClientValueError:
        if tr.calls:
            ctx.violation("Client.send posted before rejecting a wrong input object", oinfo)
    except Exception as ex:  # noqa: BLE001
        ctx.violation(f"wrong input object: {type(ex).__name__}: {ex} instead of ClientValueError", oinfo)


def run(ctx):
    ctx.rule = (
        "TLC: every definition with 1..MaxOps operations over the shape catalogue x both binding styles x supported/unsupported "
        "transport, every run of the four-action client exchange, invariants InvExchange. Real code: each definition as WSDL text "
        "through the real generator; service descriptions, request envelopes and Client.send (normal + fault responses, wrong input) "
        "against the specification's prescriptions. A case is a distinct (definition, operation)."
    )
    ctx.assumptions += ["stand-ins for jinja2/click/toposort/ruff/requests; a recording Transport replaces the network"]
    ctx.tlc("MC_Wsdl", "run.cfg", extra_files={"run.cfg": "SPECIFICATION Spec\nCONSTANTS\n  MaxOps = 1\nINVARIANT InvExchange\nINVARIANT InvTerminates\nCHECK_DEADLOCK FALSE\n"},
            label="MC_Wsdl exchange, 1 operation", timeout=1500)
    ctx.exhaustive = True
    res = ctx.tlc("MC_Wsdl", "run.cfg", workers=1, extra_files={"run.cfg": "SPECIFICATION Spec\nCONSTANTS\n  MaxOps = 1\nCONSTRAINT Emit\nCHECK_DEADLOCK FALSE\n"},
                  label="Gen_Wsdl 1 operation", tags=("WSDL",), require_cases=True, timeout=1500)
    cases = [c for _t, c in res.printed]
    res = ctx.tlc("MC_Wsdl", "run.cfg", workers=1, simulate=f"num={ctx.pick(60, 1500)}", depth=8,
                  extra_files={"run.cfg": "SPECIFICATION Spec\nCONSTANTS\n  MaxOps = 4\nCONSTRAINT Emit\nCHECK_DEADLOCK FALSE\n"},
                  label="Gen_Wsdl up to 4 operations (simulate)", tags=("WSDL",), require_cases=True, timeout=3000)
    cases += [c for _t, c in res.printed]
    seen = set()
    for c in cases:
        k = json.dumps(c["def"], sort_keys=True)
        if k in seen:
            continue
        seen.add(k)
        check_def(ctx, c)
        if len(ctx.samples) < 2 and len(seen) % 40 == 1:
            ctx.sample({"wsdl": wsdl_files(c["def"])["svc.wsdl"][:1500], "prescribed_service": c["services"][0], "prescribed_envelope": c["envelopes"][0]})
    ctx.extra["definitions"] = len(seen)
    cg.cleanup_all()


def replay(ctx, doc):
    print(doc["what"])
    print(doc["case"].get("wsdl"))
