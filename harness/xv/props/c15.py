"""C15 - bad input fails cleanly.

RoundTrip.tla's parser node stack makes every place where the implementation can fail an
explicit outcome; TLC applies every single fault of the fault catalogue to every prescribed
document of the universe, under the eight option combinations, and checks that each behaviour
ends in `done` or in a documented error kind and never gets stuck (InvDocumented, InvProgress).
Binding: each faulted document is parsed by both real handlers (decisive: an instance of the
requested class or one of ParserError / ConverterError / XmlContextError / XmlHandlerError, within
the watchdog); byte-level faults below the event abstraction (truncation at every offset,
single-byte flips, random bytes) run in a sacrificial subprocess; the native handler must reject
every document expat rejects; JsonParser gets structural faults of the JSON encoding.
"""
from __future__ import annotations

import json
import os
import random
import subprocess
import sys

from xsdata.exceptions import ConverterError, ParserError, XmlContextError, XmlHandlerError

from .. import roundtrip_bind as rb
from .. import rt_engine as rt

DOCUMENTED = (ParserError, ConverterError, XmlContextError, XmlHandlerError)
FAULTS = ("unknownFirst", "unknownLast", "siblingInWrapper", "unknownAttr", "xsiAttr", "badValue", "childInPrimitive", "missingReq")
INVS = ("InvSlots", "InvDocumented", "InvProgress")


def outcome_ok(out, clazz) -> str | None:
    if out[0] == "ok":
        return None if isinstance(out[1], clazz) else f"returned {type(out[1]).__name__}, not the requested class"
    ex = out[1]
    if isinstance(ex, DOCUMENTED):
        return None
    return f"raised {type(ex).__name__}: {ex}"


def run(ctx):
    ctx.rule = (
        "TLC: every single fault (7 kinds, every position the kind allows) on every prescribed document of the RoundTrip "
        "universe x 8 option combinations through the node-stack machine; invariants InvDocumented, InvProgress. Real code: "
        "each faulted document parsed by both handlers; byte-level truncations / flips / random bytes in a sacrificial "
        "subprocess with a watchdog; JSON structural faults through JsonParser. A case is a distinct (document, fault, options, handler)."
    )
    ctx.assumptions += ["a call that does not return within 20 s counts as a hang (re-run alone before it is reported)"]
    ctx.level = "model_checking"
    mf = 1
    ctx.tlc("MC_RoundTrip", "run.cfg", extra_files={"run.cfg": rt.cfg_text(max_fields=mf, faults=FAULTS, cfgs="AllCfgs", invariants=INVS)},
            label="MC_RoundTrip all faults x 8 option sets", timeout=3000)
    ctx.exhaustive = True
    cases = rt.generate(ctx, label="Gen_RoundTrip faults 1 field", max_fields=1, faults=FAULTS, cfgs="CornerCfgs",
                        limit=ctx.pick(2500, None))
    cases += rt.generate(ctx, label="Gen_RoundTrip faults 2 fields (simulate)", max_fields=2, faults=FAULTS, cfgs="AllCfgs",
                         simulate=ctx.pick(800, 20000))
    for case in cases:
        r, doc, results = rt.run_fault_case(ctx, case)
        for style, h, out, nwarn, text in results:
            ctx.case(("fault", str(case["m"]), str(case["inst"]), case["fault"], str(case["cfg"]), str(case["evs"]), h))
            why = outcome_ok(out, r.mod.Root)
            if why:
                ctx.violation(f"fault {case['fault']} ({h} handler): {why}", r.info(text=text, handler=h))
    if cases:
        c = cases[len(cases) // 2]
        ctx.sample({"fault": c["fault"], "options": c["cfg"], "document": rb.render_doc(rb.faulted(c["doc"], c["fault"], c["evs"], c["m"]), 0),
                    "spec_outcome": [c["st"], c["err"]]})
    ctx.extra["structural_fault_cases"] = len(cases)
    typed_anytype_faults(ctx)
    from .. import dictshape_bind

    dictshape_bind.run_matrix(ctx, "C15")
    from .. import xmlshape_bind

    xmlshape_bind.run_matrix(ctx, "C15")
    declared_encodings(ctx)
    byte_level(ctx)
    json_faults(ctx, cases)


def typed_anytype_faults(ctx):
    """xs:anyType elements and wildcard children that announce an XSD datatype through xsi:type and then carry text
    that is NOT in its lexical space (also empty / nil): an instance (value kept as given) or a documented error."""
    from xsdata.formats.dataclass.context import XmlContext
    from xsdata.formats.dataclass.parsers import XmlParser
    from xsdata.formats.dataclass.parsers.config import ParserConfig

    from .. import handler_bind as hb
    from ..poly_models import AnyHolder, AnyNil, WildOther

    xs = 'xmlns:xs="http://www.w3.org/2001/XMLSchema" xmlns:xsi="http://www.w3.org/2001/XMLSchema-instance"'
    types = ["hexBinary", "base64Binary", "int", "boolean", "decimal", "float", "double", "date", "dateTime", "time", "duration", "gYear", "gMonthDay",
             "QName", "anyURI", "NMTOKENS", "string", "unknownType"]
    bads = ["zz", "", " ", "1 2", "--", "p:q", "0x", "\u00e9"]
    xctx = XmlContext()
    n = 0
    for tp in types:
        for bad in bads:
            for nil in ("", ' xsi:nil="true"'):
                docs = [(f'<AnyHolder {xs}><v xsi:type="xs:{tp}"{nil}>{bad}</v><w xsi:type="xs:{tp}">{bad}</w></AnyHolder>', AnyHolder),
                        (f'<w:WildOther xmlns:w="urn:wild" xmlns:e="urn:ext" {xs}><e:ext xsi:type="xs:{tp}"{nil}>{bad}</e:ext></w:WildOther>', WildOther),
                        (f'<AnyNil {xs}><v xsi:type="xs:{tp}"{nil}>{bad}</v><w xsi:type="xs:{tp}"{nil}>{bad}</w><e:x xmlns:e="urn:ext" xsi:type="xs:{tp}"{nil}>{bad}</e:x></AnyNil>', AnyNil)]
                for text, clazz in docs:
                    for h in ("native", "lxml"):
                        for strict in (False, True):
                            n += 1
                            ctx.case(("typed-anytype", tp, bad, nil, clazz.__name__, h, strict))
                            try:
                                out = ("ok", XmlParser(context=xctx, handler=hb.HANDLERS[h], config=ParserConfig(fail_on_converter_warnings=strict)).from_string(text, clazz))
                            except Exception as ex:  # noqa: BLE001
                                out = ("exc", ex)
                            why = outcome_ok(out, clazz)
                            if why:
                                ctx.violation(f"xsi:type=xs:{tp} with text {bad!r} ({h}, {'strict' if strict else 'lenient'}): {why}", {"text": text, "handler": h})
    ctx.extra["typed_anytype_cases"] = n


def declared_encodings(ctx):
    """A well-formed ASCII document that DECLARES an encoding: every codec name Python knows plus a few that exist
    nowhere.  Whatever the handler can or cannot decode, the outcome is an instance or a documented error."""
    import encodings.aliases
    import warnings

    from xsdata.formats.dataclass.context import XmlContext
    from xsdata.formats.dataclass.parsers import XmlParser
    from xsdata.formats.dataclass.parsers.handlers import LxmlEventHandler, XmlEventHandler

    from ..poly_models import SLeaf

    names = sorted(set(encodings.aliases.aliases.values())) + ["utf-8", "UTF-16", "utf-7", "idna", "punycode", "undefined", "xyz", "", "utf_8_sig", "rot-13"]
    xctx = XmlContext()
    for enc in names:
        doc = f'<?xml version="1.0" encoding="{enc}"?><SLeaf><v>1</v></SLeaf>'.encode("ascii")
        for hname, handler in (("native", XmlEventHandler), ("lxml", LxmlEventHandler)):
            ctx.case(("declared-encoding", enc, hname))
            with warnings.catch_warnings():
                warnings.simplefilter("ignore")
                try:
                    out = ("ok", XmlParser(context=xctx, handler=handler).from_bytes(doc, SLeaf))
                except Exception as ex:  # noqa: BLE001
                    out = ("exc", ex)
            why = outcome_ok(out, SLeaf)
            if why:
                ctx.violation(f"document declaring encoding={enc!r} ({hname} handler): {why}", {"encoding": enc, "handler": hname})


def byte_level(ctx):
    """Truncations, byte flips, random bytes: in a subprocess that flushes and os._exit()s."""
    n = ctx.pick(1, 6)
    env = dict(os.environ)
    total = {"cases": 0, "bad": []}
    for k in range(n):
        p = subprocess.run([sys.executable, "-m", "xv.c15_worker", str(ctx.seed + k), ctx.tier], capture_output=True, text=True, env=env, timeout=1800)
        lines = [l for l in p.stdout.splitlines() if l.startswith("{")]
        if not lines or not any('"done"' in l for l in lines):
            # died before reporting: run once more alone before concluding anything
            p = subprocess.run([sys.executable, "-m", "xv.c15_worker", str(ctx.seed + k), ctx.tier], capture_output=True, text=True, env=env, timeout=1800)
            lines = [l for l in p.stdout.splitlines() if l.startswith("{")]
            if not any('"done"' in l for l in lines):
                ctx.violation(f"byte-level worker died twice (rc={p.returncode}) before finishing: {p.stderr[-400:]}", {"seed": ctx.seed + k})
                continue
        for l in lines:
            rec = json.loads(l)
            if "done" in rec:
                total["cases"] += rec["done"]
                for _ in range(min(rec["done"], 5000)):
                    pass
            else:
                ctx.violation(rec["what"], rec["case"])
    for i in range(total["cases"]):
        ctx.evaluations += 1
    ctx.nontrivial.add(("bytes", total["cases"]).__repr__().encode())
    ctx.extra["byte_level_cases"] = total["cases"]


def json_faults(ctx, cases):
    from xsdata.formats.dataclass.parsers import JsonParser
    from xsdata.formats.dataclass.serializers import JsonSerializer

    rnd = random.Random(ctx.seed)
    n = 0
    for case in cases:
        if case["fault"] != "unknownFirst" or any(f["kind"] in ("Wildcard",) for f in case["m"]["fields"]):
            continue
        r = rt.Real(case)
        try:
            text = JsonSerializer(context=r.ctx).render(r.obj)
        except Exception:  # noqa: BLE001
            continue
        data = json.loads(text)
        variants = [
            json.dumps({**data, "zz_unknown": 1}), json.dumps([data]), json.dumps(None), json.dumps("str"), json.dumps(5),
            text[: len(text) // 2], json.dumps({k: {"nested": [1, {"x": None}]} for k in data}), json.dumps({k: None for k in data}),
            json.dumps({k: [[]] for k in data}), "", "{", text.replace(":", "=", 1),
        ]
        for v in variants:
            n += 1
            ctx.case(("json", str(case["m"]), v))
            try:
                obj = JsonParser(context=r.ctx).from_string(v, r.mod.Root)
                if not isinstance(obj, r.mod.Root) and not (isinstance(obj, list)):
                    ctx.violation(f"JsonParser returned {type(obj).__name__} for {v[:200]!r}", r.info(json=v))
            except DOCUMENTED:
                pass
            except Exception as ex:  # noqa: BLE001
                ctx.violation(f"JsonParser raised {type(ex).__name__}: {ex} for {v[:200]!r}", r.info(json=v, finding_tags=[]))
        if n > ctx.pick(1500, 40000):
            break
    ctx.extra["json_fault_cases"] = n


def replay(ctx, doc):
    case = doc["case"]
    print(doc["what"])
    print(case.get("text") or case.get("json"))
