"""C07 - the code generator always produces importable, bindable code.

Three specifications:
  Naming.tla     - split_words / case conversions / alnum / Filters.safe_name transcribed; TLC checks
                   for every name up to MaxLen over a hostile alphabet x 7 naming conventions that
                   safe_name terminates and yields a non-reserved Python identifier; every case is
                   replayed into the real Filters (result compared, and judged on its own).
  Container.tla  - the Status discipline and on-demand `find` re-entrancy; TLC checks safety,
                   deadlock-freedom and termination for all dependency graphs on 3 classes; real
                   generations are recorded (process_classes / process_class) and trace-validated.
  hostile inputs - schemas, DTDs, XML and JSON samples whose element / attribute / type / enum names
                   are Python keywords, start with digits, contain punctuation or non-ASCII letters
                   or collide after case conversion, x a covering set of output options, through
                   the REAL generator: only CodegenError may escape, every module imports in a fresh
                   subprocess, every class builds binding metadata and can be instantiated, no two
                   fields of a class / classes of a module share a name.
"""
from __future__ import annotations

import dataclasses
import importlib
import json
import os
import random
import subprocess
import sys
import textwrap

from .. import codegen_run as cg

CONV = {"pascal": "PASCAL", "snake": "SNAKE", "screaming": "SCREAMING_SNAKE", "camel": "CAMEL", "mixed": "MIXED", "mixedSnake": "MIXED_SNAKE", "original": "ORIGINAL"}


def lit(cs):
    return "".join(cs)


def check_names(ctx, cases):
    import keyword

    from xsdata.formats.dataclass.filters import Filters
    from xsdata.models.config import GeneratorConfig, NameCase
    from xsdata.utils import text

    filters = {}
    for conv, enum_name in CONV.items():
        cfg = GeneratorConfig()
        case = getattr(NameCase, enum_name)
        cfg.conventions.class_name.case = case
        cfg.conventions.field_name.case = case
        filters[conv] = Filters(cfg)
    for c in cases:
        name, conv = lit(c["name"]), c["conv"]
        ctx.case(("name", name, conv))
        f = filters[conv]
        try:
            got = f.class_name(name) if conv == "pascal" else f.field_name(name, "Cls")
        except RecursionError:
            ctx.violation(f"safe_name does not terminate for {name!r} ({conv})", {"name": name, "conv": conv})
            continue
        except Exception as ex:  # noqa: BLE001
            ctx.violation(f"naming {name!r} ({conv}) raised {type(ex).__name__}: {ex}", {"name": name, "conv": conv})
            continue
        if not got.isidentifier() or keyword.iskeyword(got) or text.is_reserved(got):
            ctx.violation(f"{conv} name for {name!r} is {got!r}: not a usable Python identifier", {"name": name, "conv": conv})
        spec = lit(c["result"])
        if c["ok"] and got != spec:
            ctx.divergences.append({"kind": "naming", "name": name, "conv": conv, "real": got, "spec": spec})


# -- recording the container ---------------------------------------------------------
def install_container_recorder():
    from xsdata.codegen.container import ClassContainer

    if getattr(ClassContainer, "_xv_rec", False):
        return
    orig_pcs, orig_pc = ClassContainer.process_classes, ClassContainer.process_class
    log = []

    def process_classes(self, step):
        log.append({"ev": "begin", "step": int(step)})
        return orig_pcs(self, step)

    def process_class(self, target, step):
        cid = f"{target.qname}#{target.ref}"
        log.append({"ev": "enter", "c": cid, "step": int(step)})
        try:
            return orig_pc(self, target, step)
        finally:
            log.append({"ev": "exit", "c": cid})

    ClassContainer.process_classes = process_classes
    ClassContainer.process_class = process_class
    ClassContainer._xv_rec = True
    ClassContainer._xv_log = log


def take_log():
    from xsdata.codegen.container import ClassContainer

    log = list(ClassContainer._xv_log)
    ClassContainer._xv_log.clear()
    return log


HOSTILE = ["class", "def", "None", "True", "1st", "2", "-1", "a-b", "a.b", "a_b", "aB", "AB", "ab", "Ab", "élan", "日本", "_", "__", "a b", "type", "value",
           "Meta", "list", "List", "str", "return", "x:y", "a--b", "9a9", "Δ", "field", "validate", "self", "Value", "VALUE", "é", "-"]
XSD_OK = [n for n in HOSTILE if n and (n[0].isalpha() or n[0] == "_") and all(ch.isalnum() or ch in "._-" for ch in n) and ":" not in n and " " not in n]


def hostile_xsd(rnd):
    names = rnd.sample(XSD_OK, 5)
    tname, ename = rnd.choice(XSD_OK), rnd.choice(XSD_OK)
    attrs = rnd.sample(XSD_OK, 3)
    enums = rnd.sample(HOSTILE + ["", " ", "{a}b"], 5)     # enumeration values are arbitrary strings too
    els = "".join(f'<xs:element name="{n}" type="{"t:" + tname if i == 0 else "xs:string"}" minOccurs="0"/>' for i, n in enumerate(names))
    ats = "".join(f'<xs:attribute name="{a}" type="{"t:" + ename if i == 0 else "xs:int"}"/>' for i, a in enumerate(attrs))
    en = "".join(f'<xs:enumeration value="{v}"/>' for v in enums)
    return (f'<xs:schema xmlns:xs="http://www.w3.org/2001/XMLSchema" targetNamespace="urn:h" xmlns:t="urn:h" elementFormDefault="qualified">'
            f'<xs:simpleType name="{ename}"><xs:restriction base="xs:string">{en}</xs:restriction></xs:simpleType>'
            f'<xs:complexType name="{tname}"><xs:sequence><xs:element name="{names[1]}" type="t:{tname}" minOccurs="0"/><xs:element name="{names[2]}" type="xs:int"/></xs:sequence>{ats}</xs:complexType>'
            f'<xs:element name="root"><xs:complexType><xs:sequence>{els}<xs:element name="{names[0].upper()}" type="xs:int" minOccurs="0"/></xs:sequence>{ats}</xs:complexType></xs:element>'
            f'<xs:element name="{tname}" type="t:{tname}"/></xs:schema>')


def hostile_xml(rnd):
    names = rnd.sample(XSD_OK, 4)
    kids = "".join(f"<{n} {rnd.choice(XSD_OK)}=\"1\">{rnd.choice(['1', 'x', '', 'true'])}</{n}>" for n in names)
    inner = f"<{names[0]}><{names[1]}>2</{names[1]}><{names[1].upper()}>3</{names[1].upper()}></{names[0]}>"
    return f"<root>{kids}{inner}{'text' if rnd.random() < 0.3 else ''}</root>"


# JSON keys are arbitrary strings: empty, blank, brace-laden (the mappers treat names as Clark notation)
HOSTILE_JSON = HOSTILE + ["", " ", "{", "}", "{urn:k}x", "a}b", "{}", "\t", "0", "a\nb", 'a"b', "a\\b"]


def hostile_json(rnd):
    names = rnd.sample(HOSTILE_JSON, 5)
    return json.dumps({names[0]: 1, names[1]: "x", names[2]: [1, 2], names[3]: {names[4]: None, names[0]: [{"a": 1}, {"A": "2"}]}, names[4]: []})


def hostile_dtd(rnd):
    names = rnd.sample([n for n in XSD_OK if n not in ("a.b",)], 4)
    a = rnd.sample(XSD_OK, 2)
    return (f"<!ELEMENT root ({names[0]}*,{names[1]}?,({names[2]}|{names[3]})+)>\n" + "".join(f"<!ELEMENT {n} (#PCDATA)>\n" for n in names)
            + f'<!ATTLIST root {a[0]} CDATA #IMPLIED>\n<!ATTLIST root {a[1]} ({"|".join(rnd.sample(XSD_OK, 3))}) #IMPLIED>\n')


def hostile_wsdl(rnd):
    """A document/literal WSDL whose operation, message, part, port type, binding, port, service and element names are
    hostile NCNames (keywords, case collisions, dots, dashes, non-ASCII)."""
    op1, op2, req, resp, part, ptype, bind, port, svc, fault = rnd.sample(XSD_OK, 10)
    tns = "urn:hw"
    els = "".join(f'<xsd:element name="{n}"><xsd:complexType><xsd:sequence><xsd:element name="{rnd.choice(XSD_OK)}" type="xsd:string"/></xsd:sequence></xsd:complexType></xsd:element>'
                  for n in dict.fromkeys([req, resp, fault]))
    def op(n):
        return (f'<operation name="{n}"><input message="tns:{req}Msg"/><output message="tns:{resp}Msg"/><fault name="{fault}" message="tns:{fault}Msg"/></operation>')
    def bop(n):
        return (f'<operation name="{n}"><soap:operation soapAction="urn:hw/{n}"/><input><soap:body use="literal"/></input><output><soap:body use="literal"/></output>'
                f'<fault name="{fault}"><soap:fault name="{fault}" use="literal"/></fault></operation>')
    return (
        f'<definitions xmlns="http://schemas.xmlsoap.org/wsdl/" xmlns:soap="http://schemas.xmlsoap.org/wsdl/soap/" xmlns:tns="{tns}" '
        f'xmlns:xsd="http://www.w3.org/2001/XMLSchema" targetNamespace="{tns}" name="{svc}">'
        f'<types><xsd:schema targetNamespace="{tns}" elementFormDefault="qualified">{els}</xsd:schema></types>'
        f'<message name="{req}Msg"><part name="{part}" element="tns:{req}"/></message>'
        f'<message name="{resp}Msg"><part name="{part}" element="tns:{resp}"/></message>'
        f'<message name="{fault}Msg"><part name="{part}" element="tns:{fault}"/></message>'
        f'<portType name="{ptype}">{op(op1)}{op(op2)}</portType>'
        f'<binding name="{bind}" type="tns:{ptype}"><soap:binding transport="http://schemas.xmlsoap.org/soap/http" style="document"/>{bop(op1)}{bop(op2)}</binding>'
        f'<service name="{svc}"><port name="{port}" binding="tns:{bind}"><soap:address location="http://example.com/hw"/></port></service></definitions>'
    )


def option_sets():
    from xsdata.models.config import DocstringStyle, NameCase, StructureStyle

    def conv(case):
        def mut(cfg):
            cfg.conventions.field_name.case = case
            cfg.conventions.class_name.case = NameCase.MIXED_PASCAL if case is NameCase.ORIGINAL else NameCase.PASCAL
        return mut

    return [
        ("default", {}, None),
        ("compound-wrapper-unnest", {"compound_fields.enabled": True, "wrapper_fields": True, "unnest_classes": True}, None),
        ("frozen-slots-order", {"format.frozen": True, "format.slots": True, "format.eq": True, "format.order": True, "format.kw_only": True}, None),
        ("filenames-google-relative", {"structure_style": StructureStyle.FILENAMES, "docstring_style": DocstringStyle.GOOGLE, "relative_imports": True, "max_line_length": 50}, None),
        ("clusters-original-case", {"structure_style": StructureStyle.CLUSTERS, "generic_collections": True, "max_line_length": 120}, conv(NameCase.ORIGINAL)),
        ("namespaces-camel", {"structure_style": StructureStyle.NAMESPACES, "docstring_style": DocstringStyle.NUMPY}, conv(NameCase.CAMEL)),
    ]


PROBE = textwrap.dedent('''
    import dataclasses, enum, importlib, json, sys, typing
    from xsdata.formats.dataclass.context import XmlContext
    sys.path.insert(0, sys.argv[1])
    problems = []
    ctx = XmlContext()
    for name in json.loads(sys.argv[2]):
        try:
            m = importlib.import_module(name)
        except BaseException as ex:
            problems.append(f"module {name} does not import: {type(ex).__name__}: {ex}")
            continue
        classes = [v for v in vars(m).values() if isinstance(v, type) and getattr(v, "__module__", None) == name]
        names = [c.__name__ for c in classes]
        low = [n for n in names]
        if len(set(low)) != len(low):
            problems.append(f"module {name}: duplicate class names {names}")
        def walk(c):
            yield c
            for v in vars(c).values():
                if isinstance(v, type) and v.__qualname__.startswith(c.__qualname__ + "."):
                    yield from walk(v)
        for top in classes:
            for c in walk(top):
                if dataclasses.is_dataclass(c):
                    fn = [f.name for f in dataclasses.fields(c)]
                    if len(set(fn)) != len(fn):
                        problems.append(f"{c.__qualname__}: duplicate field names {fn}")
                    try:
                        ctx.build_recursive(c)
                    except BaseException as ex:
                        problems.append(f"{c.__qualname__}: binding metadata fails: {type(ex).__name__}: {ex}")
                        continue
                    try:
                        kw = {}
                        for f in dataclasses.fields(c):
                            if f.init and f.default is dataclasses.MISSING and f.default_factory is dataclasses.MISSING:
                                kw[f.name] = None
                        c(**kw)
                    except BaseException as ex:
                        problems.append(f"{c.__qualname__}: cannot be instantiated: {type(ex).__name__}: {ex}")
    print(json.dumps(problems))
''')


def ast_duplicates(files: dict) -> list:
    """Names bound twice in one scope of the generated SOURCE (the import probe cannot see them: the later
    definition silently replaces the earlier one).  Class definitions, imported class names, fields and enum
    members.  Returns (problem text, originals) with the original (Meta.name / metadata name) spellings of the
    colliding definitions."""
    import ast

    out = []
    trees = {}
    for rel, text in files.items():
        if rel.endswith(".py") and not rel.endswith("__init__.py"):
            try:
                trees[rel] = ast.parse(text)
            except SyntaxError as ex:
                out.append((f"{rel}: generated module is not valid Python: {ex}", []))

    def meta_name(cd):
        for b in cd.body:
            if isinstance(b, ast.ClassDef) and b.name == "Meta":
                for a in b.body:
                    if isinstance(a, ast.Assign) and getattr(a.targets[0], "id", None) == "name" and isinstance(a.value, ast.Constant):
                        return a.value.value
        return cd.name

    def field_orig(b):
        """The original name of a field: metadata["name"] if the field() call carries one."""
        v = b.value
        if isinstance(v, ast.Call):
            for kw in v.keywords:
                if kw.arg == "metadata" and isinstance(kw.value, ast.Dict):
                    for k, x in zip(kw.value.keys, kw.value.values):
                        if isinstance(k, ast.Constant) and k.value == "name" and isinstance(x, ast.Constant):
                            return x.value
        return b.target.id

    # the originals of every top-level class of the package, by generated name (for imported names)
    originals: dict = {}
    for tree in trees.values():
        for b in tree.body:
            if isinstance(b, ast.ClassDef):
                originals.setdefault(b.name, []).append(meta_name(b))

    def scope(body, where):
        classes, fields = {}, {}
        for b in body:
            if isinstance(b, ast.ClassDef) and b.name != "Meta":
                classes.setdefault(b.name, []).append(meta_name(b))
                scope(b.body, f"{where}.{b.name}" if where else b.name)
            elif isinstance(b, ast.ImportFrom) and not where and b.module and not b.module.startswith(("dataclasses", "typing", "enum", "decimal", "collections", "xsdata", "xml", "__future__")):
                for al in b.names:
                    classes.setdefault(al.asname or al.name, []).append(f"import:{b.module}.{al.name}")
            elif isinstance(b, ast.AnnAssign) and isinstance(b.target, ast.Name):
                fields.setdefault(b.target.id, []).append(field_orig(b))
            elif isinstance(b, ast.Assign) and where and isinstance(b.targets[0], ast.Name):
                fields.setdefault(b.targets[0].id, []).append(b.targets[0].id)       # enum members
        for n, origs in classes.items():
            if len(origs) > 1:
                real = [o for o in origs if not str(o).startswith("import:")] + (originals.get(n, []) if any(str(o).startswith("import:") for o in origs) else [])
                out.append((f"{where or 'module'}: class name {n!r} is bound {len(origs)} times (for {origs})", real))
        for n, origs in fields.items():
            if len(origs) > 1:
                out.append((f"{where}: field / member name {n!r} is defined {len(origs)} times (for {origs})", origs))

    for tree in trees.values():
        scope(tree.body, "")
    return out


def needs_safe_prefix(name: str) -> bool:
    """Selector of F28: the class-name filter falls back to the safe prefix for this original name."""
    import keyword
    import re

    from xsdata.utils import text

    slug = text.alnum(name)
    return (not slug) or (not slug[0].isalpha()) or bool(re.match(r"^-\d*\.?\d+$", name)) or keyword.iskeyword(name) or text.is_reserved(name)


def f47_selector(files) -> bool:
    """F47: some JSON key that names an OBJECT (and so becomes a class whose Meta.name is the raw key) holds a
    character a Python string literal cannot contain as it stands."""
    bad = set('"\\') | {chr(c) for c in range(32)}

    def walk(x):
        if isinstance(x, dict):
            for k, v in x.items():
                holds_object = isinstance(v, dict) or (isinstance(v, list) and any(isinstance(i, dict) for i in v))
                if holds_object and set(k) & bad:
                    return True
                if walk(v):
                    return True
        elif isinstance(x, list):
            return any(walk(i) for i in x)
        return False

    for text in files.values():
        try:
            if walk(json.loads(text)):
                return True
        except (ValueError, TypeError):
            pass
    return False


def generation_case(ctx, kind, files, main, oname, opts, mut, traces, tag, must_generate=False):
    from xsdata.codegen.exceptions import CodegenError

    gen = cg.generate(files, main, options=opts, config_mutator=mut)
    log = take_log()
    try:
        info = {"kind": kind, "options": oname, "sources": {k: (v if isinstance(v, str) else repr(v))[:2500] for k, v in files.items()}}
        ctx.case(("gen", kind, json.dumps(info["sources"], sort_keys=True), oname))
        if gen.error is not None:
            if must_generate and isinstance(gen.error, CodegenError):
                # a source set that is valid by construction: being refused is a failure, however polite
                ctx.violation(f"generation from a valid {kind} source set is refused ({oname}): {type(gen.error).__name__}: {gen.error}", info)
            if not isinstance(gen.error, CodegenError):
                import traceback

                tb = "".join(traceback.format_exception(type(gen.error), gen.error, gen.error.__traceback__))[-1500:]
                tags = ["F47"] if isinstance(gen.error, SyntaxError) and kind == "json-sample" and f47_selector(files) else []
                ctx.violation(f"generation from {kind} raised {type(gen.error).__name__}: {gen.error} (not the generator's own error type)",
                              {**info, "traceback": tb, "finding_tags": tags})
            return
        if log:
            traces.append({"id": f"{tag}", "steps": log})
        mods = gen.all_modules()
        p = subprocess.run([sys.executable, "-c", PROBE, gen.work, json.dumps(mods)], capture_output=True, text=True, timeout=300,
                           env={**os.environ, "PYTHONPATH": os.environ.get("PYTHONPATH", "")})
        try:
            problems = json.loads(p.stdout.strip().splitlines()[-1])
        except Exception:  # noqa: BLE001
            problems = [f"import probe crashed: {p.stderr[-600:]}"]
        dups = ast_duplicates(gen.files)
        # F28: two classes (two fields) collide only because one original name had to be rebuilt from the safe prefix
        f28 = any("class name" in d and any(needs_safe_prefix(o) for o in origs) for d, origs in dups)
        # names of a WSDL (operations, port types, bindings, parts) are not kept in the generated service classes: the
        # names in the source stand in for the originals of classes generated from them
        wsdl_names = []
        shadowed_extra: set = set()
        if kind == "wsdl":
            import re as _re2

            for text in files.values():
                if isinstance(text, str):
                    wsdl_names += _re2.findall(r'name="([^"]*)"', text)
        for d, origs in dups:
            tags = ["F28"] if any(needs_safe_prefix(str(o)) for o in origs) else []
            if not tags and kind == "wsdl" and "class name" in d and "type" in d.lower() and any(needs_safe_prefix(n) for n in wsdl_names):
                tags = ["F28"]
            if not tags and kind == "json-sample" and "not valid Python" in d and f47_selector(files):
                tags = ["F47"]
            if tags == ["F28"] and "class name" in d:
                f28 = True
                m = __import__("re").search(r"class name '([^']+)'", d)
                if m:
                    shadowed_extra.add(m.group(1))
            ctx.violation(f"{kind} ({oname}): {d}", {**info, "generated": {k: v[:3000] for k, v in gen.files.items()}, "finding_tags": tags})
        import re as _re

        shadowed = shadowed_extra | {m.group(1) for d, origs in dups if any(needs_safe_prefix(str(o)) for o in origs) for m in [_re.search(r"class name '([^']+)'", d)] if m}
        for pr in problems:
            # the shadowed class makes a compound field see the same type twice, or a field annotation resolve to the
            # class that replaced the one it means (e.g. a WSDL service description): consequences of the same collision
            tags = ["F28"] if f28 and ("ambiguous types" in pr or any(_re.search(rf"\b{_re.escape(n)}\b", pr) for n in shadowed)) else []
            if not tags and kind == "json-sample" and "SyntaxError" in pr and f47_selector(files):
                tags = ["F47"]
            ctx.violation(f"{kind} ({oname}): {pr}", {**info, "generated": {k: v[:3000] for k, v in gen.files.items()}, "finding_tags": tags})
    finally:
        gen.cleanup()


def collision_generations(ctx, naming_cases, osets, traces):
    """Collision classes of the Naming specification as generator input: sets of DIFFERENT source names that
    the conventions turn into the SAME identifier (computed by TLC for class names and for field names) become
    sibling elements / attributes of one type and global types of one schema; the generator has to keep them apart."""
    import re

    ncname = re.compile(r"^[A-Za-z_\u00e9][A-Za-z0-9_.\-\u00e9]*$")
    groups = {}
    for c in naming_cases:
        if c["ok"] and c["conv"] in ("pascal", "snake"):
            n = lit(c["name"])
            if ncname.match(n):
                groups.setdefault((c["conv"], lit(c["result"])), set()).add(n)
    coll = sorted((k, sorted(v)) for k, v in groups.items() if len(v) >= 2)
    rnd = random.Random(ctx.seed + 7)
    rnd.shuffle(coll)
    coll = coll[: ctx.pick(40, 1500)]
    for k, ((conv, ident), names) in enumerate(coll):
        names = rnd.sample(names, min(len(names), 3 + k % 2))
        if conv == "snake":
            els = "".join(f'<xs:element name="{n}" type="xs:string" minOccurs="0"/>' for n in names)
            ats = "".join(f'<xs:attribute name="{n}" type="xs:int"/>' for n in names[:2])
            body = f'<xs:element name="root"><xs:complexType><xs:sequence>{els}</xs:sequence>{ats}</xs:complexType></xs:element>'
        else:
            # in every second class one member (never the same position) is an ABSTRACT type: whatever the mix of
            # abstract and concrete members, all members of the class get different names
            abstract = k % len(names) if k % 2 == 0 else -1
            types = "".join(f'<xs:complexType name="{n}"{' abstract="true"' if i == abstract else ""}><xs:sequence><xs:element name="v{i}" type="xs:int"/></xs:sequence></xs:complexType>'
                            for i, n in enumerate(names))
            els = "".join(f'<xs:element name="e{i}" type="t:{n}" minOccurs="0"/>' for i, n in enumerate(names))
            body = types + f'<xs:element name="root"><xs:complexType><xs:sequence>{els}</xs:sequence></xs:complexType></xs:element>'
        xsd = ('<xs:schema xmlns:xs="http://www.w3.org/2001/XMLSchema" targetNamespace="urn:h" xmlns:t="urn:h" elementFormDefault="qualified">' + body + "</xs:schema>")
        oname, opts, mut = osets[0] if k % 3 else osets[1 + k % (len(osets) - 1)]
        if mut is not None:       # other naming conventions have other collision classes
            oname, opts, mut = osets[0]
        generation_case(ctx, f"xsd-collision-{conv}", {"h.xsd": xsd}, ["h.xsd"], oname, opts, mut, traces, f"coll-{k}", must_generate=True)
    ctx.extra["collision_classes"] = len(coll)


def cross_package_generations(ctx, traces):
    """Classes that refer to each other ACROSS sub-packages whose module paths share leading and trailing parts
    (pkg.a.types <-> pkg.b.types), with absolute and with relative imports: every module must import."""
    from xsdata.models.config import StructureStyle

    # b/types depends on a/types (an extension, i.e. an import at module level); no cycle between the modules
    a_xsd = ('<xs:schema xmlns:xs="http://www.w3.org/2001/XMLSchema" targetNamespace="urn:a:types" xmlns:t="urn:a:types" elementFormDefault="qualified">'
             '<xs:complexType name="Base"><xs:sequence><xs:element name="v" type="xs:string"/></xs:sequence></xs:complexType>'
             '<xs:element name="base" type="t:Base"/></xs:schema>')
    b_xsd = ('<xs:schema xmlns:xs="http://www.w3.org/2001/XMLSchema" targetNamespace="urn:b:types" xmlns:t="urn:b:types" xmlns:o="urn:a:types" elementFormDefault="qualified">'
             '<xs:import namespace="urn:a:types" schemaLocation="../a/types.xsd"/>'
             '<xs:complexType name="Own"><xs:complexContent><xs:extension base="o:Base"><xs:sequence><xs:element name="w" type="xs:int"/>'
             '<xs:element name="peer" type="o:Base" minOccurs="0"/></xs:sequence></xs:extension></xs:complexContent></xs:complexType>'
             '<xs:element name="own" type="t:Own"/></xs:schema>')
    files = {"a/types.xsd": a_xsd, "b/types.xsd": b_xsd}
    # a module that DEFINES a class and imports a class of the same name from another module (the import needs an alias)
    a2 = ('<xs:schema xmlns:xs="http://www.w3.org/2001/XMLSchema" targetNamespace="urn:alpha" xmlns:t="urn:alpha" elementFormDefault="qualified">'
          '<xs:complexType name="Item"><xs:sequence><xs:element name="v" type="xs:string"/></xs:sequence></xs:complexType></xs:schema>')
    b2 = ('<xs:schema xmlns:xs="http://www.w3.org/2001/XMLSchema" targetNamespace="urn:beta" xmlns:t="urn:beta" xmlns:o="urn:alpha" elementFormDefault="qualified">'
          '<xs:import namespace="urn:alpha" schemaLocation="alpha.xsd"/>'
          '<xs:complexType name="Item"><xs:complexContent><xs:extension base="o:Item"><xs:sequence><xs:element name="w" type="xs:int"/></xs:sequence></xs:extension></xs:complexContent></xs:complexType>'
          '<xs:complexType name="Container"><xs:sequence><xs:element name="remote" type="o:Item"/><xs:element name="local" type="t:Item"/></xs:sequence></xs:complexType>'
          '<xs:element name="container" type="t:Container"/></xs:schema>')
    same = {"alpha.xsd": a2, "beta.xsd": b2}
    # ... and an imported ENUMERATION that needs an alias, used with a default value (the default names the alias too)
    a3 = ('<xs:schema xmlns:xs="http://www.w3.org/2001/XMLSchema" targetNamespace="urn:alpha" xmlns:t="urn:alpha" elementFormDefault="qualified">'
          '<xs:simpleType name="Color"><xs:restriction base="xs:string"><xs:enumeration value="red"/><xs:enumeration value="dark blue"/></xs:restriction></xs:simpleType></xs:schema>')
    b3 = ('<xs:schema xmlns:xs="http://www.w3.org/2001/XMLSchema" targetNamespace="urn:beta" xmlns:t="urn:beta" xmlns:o="urn:alpha" elementFormDefault="qualified">'
          '<xs:import namespace="urn:alpha" schemaLocation="alpha.xsd"/>'
          '<xs:element name="Color"><xs:complexType><xs:sequence><xs:element name="shade" type="o:Color" default="red"/><xs:element name="tone" type="o:Color" minOccurs="0"/></xs:sequence>'
          '<xs:attribute name="hue" type="o:Color" default="dark blue"/></xs:complexType></xs:element></xs:schema>')
    enum_alias = {"alpha.xsd": a3, "beta.xsd": b3}
    k = 0
    for style in (StructureStyle.FILENAMES, StructureStyle.NAMESPACES, StructureStyle.CLUSTERS):
        for rel in (True, False):
            k += 1
            generation_case(ctx, "xsd-cross-package", files, ["a/types.xsd", "b/types.xsd"], f"{style.value}-{'relative' if rel else 'absolute'}",
                            {"structure_style": style, "relative_imports": rel}, None, traces, f"cross-{k}", must_generate=True)
            generation_case(ctx, "xsd-same-name-import", same, ["beta.xsd"], f"{style.value}-{'relative' if rel else 'absolute'}",
                            {"structure_style": style, "relative_imports": rel}, None, traces, f"same-{k}", must_generate=True)
            generation_case(ctx, "xsd-enum-alias-default", enum_alias, ["beta.xsd"], f"{style.value}-{'relative' if rel else 'absolute'}",
                            {"structure_style": style, "relative_imports": rel}, None, traces, f"enum-alias-{k}", must_generate=True)


def graph_generations(ctx, traces):
    """Dependency shapes: every TLC digraph on 4 classes (Order.tla; cycles, rings, diamonds, forward references)
    becomes a schema; it is generated with the structure styles that split classes over modules and the
    package is imported, bound and instantiated in a fresh interpreter."""
    from xsdata.models.config import StructureStyle

    from ..c12_worker import graph_xsd

    res = ctx.tlc("MC_Order", "run.cfg", workers=1,
                  extra_files={"run.cfg": "SPECIFICATION SpecGraphs\nCONSTANTS\n  Nodes = {1, 2, 3, 4}\nCONSTRAINT NoSelfLoops\nCONSTRAINT EmitGraph\nCHECK_DEADLOCK FALSE\n"},
                  label="Gen_Order dependency graphs on 4 classes", tags=("GRAPH",), timeout=3000)
    graphs = {}
    for _t, g in res.printed:
        edges = {str(i + 1): e for i, e in enumerate(g["edges"])} if isinstance(g["edges"], list) else g["edges"]
        graphs[json.dumps(edges, sort_keys=True)] = {"edges": edges, "big": max(len(c) for c in g["sccs"])}
    graphs = list(graphs.values())
    rnd = random.Random(ctx.seed + 11)
    big = [g for g in graphs if g["big"] >= 3]
    rest = [g for g in graphs if g["big"] < 3]
    pick = graphs if not ctx.quick else rnd.sample(big, min(22, len(big))) + rnd.sample(rest, min(6, len(rest)))
    styles = [("clusters", {"structure_style": StructureStyle.CLUSTERS}), ("namespace-clusters", {"structure_style": StructureStyle.NAMESPACE_CLUSTERS}),
              ("filenames", {"structure_style": StructureStyle.FILENAMES}), ("namespaces-unnest", {"structure_style": StructureStyle.NAMESPACES, "unnest_classes": True})]
    for k, g in enumerate(pick):
        # a self reference on the class the graph marks first keeps self loops in the picture
        if k % 4 == 0:
            g = {"edges": {**g["edges"], "1": sorted(set(g["edges"]["1"]) | {1})}}
        oname, opts = styles[k % len(styles)]
        generation_case(ctx, "xsd-graph", {"g.xsd": graph_xsd(g)}, ["g.xsd"], oname, opts, None, traces, f"graph-{k}", must_generate=True)
    ctx.extra["dependency_graphs_generated"] = len(pick)


def validate_container_traces(ctx, traces):
    if not traces:
        return
    nd = "\n".join(json.dumps(t, separators=(",", ":")) for t in traces) + "\n"
    res = ctx.tlc("Trace_Container", "Trace_Container.cfg", workers=1, extra_files={"traces.ndjson": nd}, env={"TRACE_FILE": "traces.ndjson"},
                  label="Trace_Container recorded generations", tags=("REJECT",), timeout=3000)
    rejected = {p["id"]: p for _t, p in res.printed}
    by = {t["id"]: t for t in traces}
    for tid, p in rejected.items():
        t = by[tid]
        ctx.violation(f"a recorded generation breaks the container's status discipline at event {p['matched']}: {t['steps'][p['matched']]}",
                      {"trace_id": tid, "around": t["steps"][max(0, p["matched"] - 4): p["matched"] + 2]})
    ctx.traces_validated += len(traces) - len(rejected)


def run(ctx):
    ctx.rule = (
        "TLC: Naming (all names <= MaxLen over a 16-character hostile alphabet x 7 conventions: termination, identifier, not reserved); "
        "Container (all dependency graphs on 3 classes: safety, deadlock freedom, termination). Real code: every naming case through "
        "Filters; hostile-name XSD/DTD/XML/JSON sources x 6 option sets through the real generator with import/bind/instantiate/"
        "uniqueness probes in a fresh subprocess; recorded process_class traces validated by TLC. A case is a distinct name/convention or (source set, options)."
    )
    ctx.assumptions += ["stand-ins for jinja2/click/toposort/ruff", "non-ASCII names limited to what the XML/DTD/JSON syntax allows"]
    alpha = '{"a", "s", "c", "l", "i", "n", "t", "A", "S", "C", "1", "_", "-", ".", " ", "é"}'
    convs = '{"pascal", "snake", "screaming", "camel", "mixed", "mixedSnake", "original"}'
    ml = ctx.pick(3, 4)
    base = f"SPECIFICATION Spec\nCONSTANTS\n  MaxLen = {ml}\n  Alphabet = {alpha}\n  Convs = {convs}\n"
    ctx.tlc("MC_Naming", "run.cfg", extra_files={"run.cfg": base + "INVARIANT InvTerminates\nINVARIANT InvIdentifier\nCHECK_DEADLOCK FALSE\n"},
            label=f"MC_Naming names <= {ml}", timeout=3000)
    res = ctx.tlc("MC_Naming", "run.cfg", workers=1, extra_files={"run.cfg": base.replace(f"MaxLen = {ml}", "MaxLen = 3") + "CONSTRAINT Emit\nCHECK_DEADLOCK FALSE\n"},
                  label="Gen_Naming cases", tags=("NAME",), timeout=3000)
    cases = [c for _t, c in res.printed]
    sim = ctx.tlc("MC_Naming", "run.cfg", workers=1, simulate=f"num={ctx.pick(800, 20000)}", depth=9,
                  extra_files={"run.cfg": base.replace(f"MaxLen = {ml}", "MaxLen = 8") + "CONSTRAINT Emit\nCHECK_DEADLOCK FALSE\n"},
                  label="Gen_Naming longer names (simulate)", tags=("NAME",), timeout=3000)
    seen = set()
    uniq = []
    for c in cases + [c for _t, c in sim.printed]:
        k = (lit(c["name"]), c["conv"])
        if k not in seen:
            seen.add(k)
            uniq.append(c)
    check_names(ctx, uniq)
    if uniq:
        c = uniq[len(uniq) // 2]
        ctx.sample({"name": lit(c["name"]), "convention": c["conv"], "spec_result": lit(c["result"])})
    ctx.extra["naming_cases"] = len(uniq)
    # Container: safety + liveness + deadlock freedom
    ctx.tlc("MC_Container", "run.cfg", deadlock=True,
            extra_files={"run.cfg": "SPECIFICATION Spec\nCONSTANTS\n  Steps <- MCSteps\n  Classes = {1, 2, 3}\nINVARIANT InvNoReentry\nINVARIANT InvStatus\nINVARIANT InvDepth\nINVARIANT InvOncePerStep\nINVARIANT InvAllFinal\nPROPERTY Terminates\n"},
            label="MC_Container all graphs on 3 classes", timeout=3000)
    ctx.exhaustive = True
    # hostile inputs through the real generator
    install_container_recorder()
    rnd = random.Random(ctx.seed)
    traces = []
    osets = option_sets()
    n = ctx.pick(14, 300)
    for k in range(n):
        for kind, maker, fname in (("xsd", hostile_xsd, "h.xsd"), ("xml-sample", hostile_xml, "h.xml"), ("json-sample", hostile_json, "h.json"), ("dtd", hostile_dtd, "h.dtd"),
                                   ("wsdl", hostile_wsdl, "h.wsdl")):
            src = maker(rnd)
            oname, opts, mut = osets[(k + len(kind)) % len(osets)]
            generation_case(ctx, kind, {fname: src}, [fname], oname, opts, mut, traces, f"{kind}-{k}")
    collision_generations(ctx, uniq, osets, traces)
    graph_generations(ctx, traces)
    cross_package_generations(ctx, traces)
    # names that end up EMPTY after cleaning next to names that are already the safe replacement ("value"): in every run
    en = "".join(f'<xs:enumeration value="{v}"/>' for v in ["", "value", "VALUE", " ", "_", "Value", "&#9;", "&#10;&#9;"])   # (control characters have no unicode NAME)
    empty_xsd = ('<xs:schema xmlns:xs="http://www.w3.org/2001/XMLSchema" targetNamespace="urn:h" xmlns:t="urn:h" elementFormDefault="qualified">'
                 f'<xs:simpleType name="E"><xs:restriction base="xs:string">{en}</xs:restriction></xs:simpleType>'
                 '<xs:element name="root"><xs:complexType><xs:sequence><xs:element name="value" type="t:E"/><xs:element name="_" type="xs:int" minOccurs="0"/>'
                 '<xs:element name="Value" type="xs:int" minOccurs="0"/></xs:sequence><xs:attribute name="value" type="xs:int"/><xs:attribute name="_" type="xs:int"/>'
                 '</xs:complexType></xs:element></xs:schema>')
    for k, (oname, opts, mut) in enumerate(osets[:3]):
        generation_case(ctx, "xsd", {"h.xsd": empty_xsd}, ["h.xsd"], oname, opts, mut, traces, f"empty-names-{k}", must_generate=True)
    # ... and with the names that ARE the replacement in front of the empty ones (the numbering of duplicates depends on the order)
    en2 = "".join(f'<xs:enumeration value="{v}"/>' for v in ["value", "", "VALUE", "_", "Value", " ", "value_1"])
    generation_case(ctx, "xsd", {"h.xsd": empty_xsd.replace(en, en2)}, ["h.xsd"], osets[0][0], osets[0][1], osets[0][2], traces, "empty-names-after", must_generate=True)
    # reference cycles that close through INHERITANCE (a type refers to an extension of itself), directly and over
    # three types, next to an element-only cycle: valid schemas, every structure style has to cope
    ext_cycle = ('<xs:schema xmlns:xs="http://www.w3.org/2001/XMLSchema" targetNamespace="urn:h" xmlns:t="urn:h" elementFormDefault="qualified">'
                 '<xs:complexType name="Node"><xs:sequence><xs:element name="label" type="xs:string"/><xs:element name="child" type="t:Branch" minOccurs="0" maxOccurs="unbounded"/></xs:sequence></xs:complexType>'
                 '<xs:complexType name="Branch"><xs:complexContent><xs:extension base="t:Node"><xs:sequence><xs:element name="weight" type="xs:int" minOccurs="0"/>'
                 '<xs:element name="twig" type="t:Twig" minOccurs="0"/></xs:sequence></xs:extension></xs:complexContent></xs:complexType>'
                 '<xs:complexType name="Twig"><xs:complexContent><xs:extension base="t:Branch"><xs:sequence><xs:element name="peer" type="t:Peer" minOccurs="0"/></xs:sequence></xs:extension></xs:complexContent></xs:complexType>'
                 '<xs:complexType name="Peer"><xs:sequence><xs:element name="back" type="t:Peer" minOccurs="0"/><xs:element name="up" type="t:Node" minOccurs="0"/></xs:sequence></xs:complexType>'
                 '<xs:element name="tree" type="t:Node"/></xs:schema>')
    for k, (oname, opts, mut) in enumerate(osets):
        generation_case(ctx, "xsd", {"h.xsd": ext_cycle}, ["h.xsd"], oname, opts, mut, traces, f"ext-cycle-{k}", must_generate=True)
    # compound fields with AMBIGUOUS choices (two members of one type get reference classes of their own) whose names
    # meet the names of sibling anonymous types after cleaning - case, punctuation, digits - with and without unnesting
    amb = ('<xs:schema xmlns:xs="http://www.w3.org/2001/XMLSchema" targetNamespace="urn:h" xmlns:t="urn:h" elementFormDefault="qualified">'
           '<xs:element name="root"><xs:complexType><xs:choice maxOccurs="unbounded">'
           '<xs:element name="foo.bar"><xs:complexType><xs:sequence><xs:element name="v" type="xs:int"/></xs:sequence></xs:complexType></xs:element>'
           '<xs:element name="foo_bar" type="xs:string"/><xs:element name="other" type="xs:string"/>'
           '<xs:element name="item1"><xs:complexType><xs:sequence><xs:element name="w" type="xs:int"/></xs:sequence></xs:complexType></xs:element>'
           '<xs:element name="ITEM.1" type="xs:int"/><xs:element name="n" type="xs:int"/>'
           '</xs:choice></xs:complexType></xs:element></xs:schema>')
    for k, (oname, opts) in enumerate((("compound-nested", {"compound_fields.enabled": True}), ("compound-unnest", {"compound_fields.enabled": True, "unnest_classes": True}),
                                       ("compound-nested-frozen", {"compound_fields.enabled": True, "format.frozen": True}))):
        generation_case(ctx, "xsd", {"h.xsd": amb}, ["h.xsd"], oname, opts, None, traces, f"ambiguous-choices-{k}", must_generate=True)
        # (without a target namespace the reference classes are named after the elements alone)
        bare = amb.replace(' targetNamespace="urn:h" xmlns:t="urn:h" elementFormDefault="qualified"', "")
        generation_case(ctx, "xsd", {"h.xsd": bare}, ["h.xsd"], oname, opts, None, traces, f"ambiguous-choices-bare-{k}", must_generate=True)
    # ONE source document whose elements live in several namespaces and reuse local names (also up to case): with the
    # filenames / single-package styles all of its classes share a module and need different names
    two_ns = ('<doc xmlns="urn:d" xmlns:a="urn:a" xmlns:b="urn:b"><a:item code="x"><a:label>f</a:label></a:item><b:item><b:amount>1</b:amount><b:amount>2</b:amount></b:item>'
              '<b:Item><b:label>g</b:label><a:doc><a:label>h</a:label></a:doc></b:Item></doc>')
    for k, (oname, opts, mut) in enumerate(osets):
        generation_case(ctx, "xml-sample", {"h.xml": two_ns}, ["h.xml"], oname, opts, mut, traces, f"two-ns-same-name-{k}", must_generate=True)
    # a compound field NAMED after its members (a_Or_b) next to fields that spell that name already
    coll = ('<xs:schema xmlns:xs="http://www.w3.org/2001/XMLSchema" targetNamespace="urn:h" xmlns:t="urn:h" elementFormDefault="qualified">'
            '<xs:complexType name="Base"><xs:sequence><xs:element name="c_or_d" type="xs:string" minOccurs="0"/></xs:sequence></xs:complexType>'
            '<xs:element name="root"><xs:complexType><xs:complexContent><xs:extension base="t:Base"><xs:sequence>'
            '<xs:element name="aOrB" type="xs:string" minOccurs="0"/><xs:element name="a-Or-b" type="xs:int" minOccurs="0"/>'
            '<xs:choice maxOccurs="unbounded"><xs:element name="a" type="xs:int"/><xs:element name="b" type="xs:string"/></xs:choice>'
            '<xs:choice maxOccurs="unbounded"><xs:element name="c" type="xs:int"/><xs:element name="d" type="xs:string"/></xs:choice>'
            '</xs:sequence><xs:attribute name="a_or_b" type="xs:string"/></xs:extension></xs:complexContent></xs:complexType></xs:element></xs:schema>')
    for k, (oname, opts) in enumerate((("compound", {"compound_fields.enabled": True}), ("compound-frozen", {"compound_fields.enabled": True, "format.frozen": True}))):
        generation_case(ctx, "xsd", {"h.xsd": coll}, ["h.xsd"], oname, opts, None, traces, f"compound-name-collision-{k}", must_generate=True)
    # enumerations over types whose members are rendered as constructor calls (Decimal, QName, XmlDate, XmlDuration...)
    # in a module where nothing else mentions those types: the module still has to import them
    enum_types = ('<xs:schema xmlns:xs="http://www.w3.org/2001/XMLSchema" targetNamespace="urn:h" xmlns:t="urn:h" elementFormDefault="qualified">'
                  '<xs:simpleType name="Rate"><xs:restriction base="xs:decimal"><xs:enumeration value="0.5"/><xs:enumeration value="1.25"/></xs:restriction></xs:simpleType>'
                  '<xs:simpleType name="Code"><xs:restriction base="xs:QName"><xs:enumeration value="t:Sender"/><xs:enumeration value="xs:int"/></xs:restriction></xs:simpleType>'
                  '<xs:simpleType name="Day"><xs:restriction base="xs:date"><xs:enumeration value="2020-02-29"/></xs:restriction></xs:simpleType>'
                  '<xs:simpleType name="Span"><xs:restriction base="xs:duration"><xs:enumeration value="P1D"/><xs:enumeration value="PT1H"/></xs:restriction></xs:simpleType>'
                  '<xs:simpleType name="At"><xs:restriction base="xs:time"><xs:enumeration value="12:00:00"/></xs:restriction></xs:simpleType>'
                  '<xs:element name="root"><xs:complexType><xs:sequence><xs:element name="n" type="xs:string"/></xs:sequence><xs:attribute name="r" type="t:Rate"/>'
                  '<xs:attribute name="c" type="t:Code"/><xs:attribute name="d" type="t:Day"/><xs:attribute name="s" type="t:Span"/><xs:attribute name="a" type="t:At"/>'
                  '</xs:complexType></xs:element></xs:schema>')
    for k, (oname, opts, mut) in enumerate(osets):
        generation_case(ctx, "xsd", {"h.xsd": enum_types}, ["h.xsd"], oname, opts, mut, traces, f"enum-literal-imports-{k}", must_generate=True)
    # the finding F47 is exercised by its reproducer in every run (and its counterpart, the same key naming a VALUE)
    generation_case(ctx, "json-sample", {"h.json": '{"a\\nb": {"k": 1}}'}, ["h.json"], "namespaces-camel", osets[5][1], osets[5][2], traces, "f47")
    generation_case(ctx, "json-sample", {"h.json": '{"a\\nb": 1, "c\\"d": [2]}'}, ["h.json"], "namespaces-camel", osets[5][1], osets[5][2], traces, "f47-ok")
    # the finding F28 is exercised by its reproducer in every run
    generation_case(ctx, "xml-sample", {"h.xml": '<root><type self="1"/><\u0394 a="1">x</\u0394>text</root>'}, ["h.xml"], "default", {}, None, traces, "f28")
    # the repository's own fixtures through every option set
    fixtures = [("primer", "/repo/tests/fixtures/primer/order.xsd"), ("compound", "/repo/tests/fixtures/compound/compound.xsd"), ("hello", "/repo/tests/fixtures/hello/hello.wsdl")]
    for name, path in fixtures:
        if os.path.exists(path):
            extra = {}
            if name == "hello":
                extra["hello.xsd"] = open("/repo/tests/fixtures/hello/hello.xsd").read()
            for oname, opts, mut in osets if not ctx.quick else osets[:3]:
                generation_case(ctx, name, {os.path.basename(path): open(path).read(), **extra}, [os.path.basename(path)], oname, opts, mut, traces, f"{name}-{oname}")
    validate_container_traces(ctx, traces)
    ctx.extra["generations"] = n * 4
    cg.cleanup_all()


def replay(ctx, doc):
    print(doc["what"])
    print(json.dumps(doc["case"].get("sources"), indent=1))
    print(doc["case"].get("traceback"))
