"""C06 - XML Schema date, time, duration and period types are exact.

spec/DateTime.tla transcribes DateTimeParser / validate / format next to an independent
reference (XSD Part 2 grammars, Gregorian calendar, exact timeline).  TLC checks on grids of
literals and values that the transcription accepts every XSD-valid literal with the right
components (a), accepts nothing that denotes no real date or time (c), and that formatting
round-trips through both the transcription and the reference (b).  Binding:
  * every literal of the grid is parsed by the real from_string / constructors and compared
    with the reference (decisive) and with the transcription (advisory);
  * every value of the grid is formatted by the real __str__; the strings the real code
    PRODUCED are fed back to TLC and validated against the reference grammar (code -> spec);
  * every ordered pair of a boundary grid is compared with ==, <, <=, >, >= on the real
    classes against the timeline computed by TLC (e);
  * to_*/from_* conversions against the timeline (d).
"""
from __future__ import annotations

import datetime
import json
import random

from .. import dt_bind as dt
from ..policy import datetime_variant

KINDS = ["date", "time", "dateTime", "period", "duration"]


def cfg(kind, mode, invs=(), emit=False):
    out = (f'SPECIFICATION Spec\nCONSTANTS\n  DatePolicy = "{datetime_variant()}"\n  Kind = "{kind}"\n  Mode = "{mode}"\n')
    for i in invs:
        out += f"INVARIANT {i}\n"
    if emit:
        out += "CONSTRAINT EmitCase\n"
    return out + "CHECK_DEADLOCK FALSE\n"


def lit(cs) -> str:
    return "".join(cs)


def f7_tag(kind, s, comps):
    """Selector of F7 (when open): XmlDate literal with an impossible calendar date, or an
    XmlPeriod literal with month/day 00."""
    return []


def check_lex(ctx, case):
    kind, s = case["kind"], lit(case["lit"])
    xsd, code = case["xsd"], case["code"]
    status, comps = dt.real_parse(kind, s)
    ctx.case(("lex", kind, s))
    info = {"kind": kind, "literal": s, "xsd": xsd, "real": [status, comps]}
    if xsd.get("ok"):
        # (a) XSD-valid literal: must be accepted with the XSD components
        if status != "ok":
            ctx.violation(f"{kind}: XSD-valid literal {s!r} is rejected ({comps})", info)
        elif kind == "duration":
            want = {k: xsd[k] for k in ("neg", "y", "mo", "d", "h", "mi")}
            got = {k: comps[k] for k in want}
            sec = None if xsd["s"] == dt.ABSENT else float(f"{xsd['s']}.{lit(xsd['sf']) or '0'}")
            if want != got or comps["s"] != sec:
                ctx.violation(f"duration {s!r}: components {comps} differ from XSD's {xsd}", info)
        else:
            want = {k: v for k, v in xsd.items() if k != "ok"}
            if comps != want:
                ctx.violation(f"{kind}: literal {s!r} parsed to {comps}, XSD assigns {want}", info)
    if status == "ok" and kind != "duration":
        # (c) whatever is accepted must denote a real date / time of day
        why = dt.denotes_real(kind, comps)
        if why:
            ctx.violation(f"{kind}: literal {s!r} is accepted although it denotes no real date/time ({why})", info)
    # advisory: transcription vs code
    if kind != "duration":
        spec_status = "ok" if code.get("ok") else "reject"
        spec_comps = {k: v for k, v in code.items() if k != "ok"}
        if spec_status != status or (status == "ok" and spec_comps != comps):
            ctx.divergences.append({"kind": kind, "literal": s, "spec": code, "real": [status, comps]})


def check_fmt(ctx, case, produced):
    kind, v = case["kind"], {k: x for k, x in case["v"].items() if k != "ok"}
    obj = dt.make_value(kind, v)
    real = str(obj)
    ctx.case(("fmt", kind, json.dumps(v, sort_keys=True)))
    if real != lit(case["str"]):
        ctx.divergences.append({"kind": kind, "value": v, "spec_str": lit(case["str"]), "real_str": real})
    produced.setdefault(kind, {})[real] = v
    # (b) parses back to an equal value
    status, comps = dt.real_parse(kind, real)
    if status != "ok" or comps != v:
        ctx.violation(f"{kind}: str({obj!r}) = {real!r} does not parse back to the value ({status}, {comps})", {"kind": kind, "value": v, "str": real})
    # (d) conversions preserve the instant (inside datetime's range, microsecond precision, hour < 24)
    if kind == "dateTime" and 1 <= v["y"] <= 9999 and v["h"] < 24 and v["f"] % 1000 == 0:
        try:
            pdt = obj.to_datetime()
        except Exception as ex:  # noqa: BLE001
            ctx.violation(f"dateTime: to_datetime() of {obj!r} raised {type(ex).__name__}", {"value": v})
            return
        day, sec, ns = case["line"]
        want = (day, sec, ns // 1000)
        if dt.py_instant(pdt) != want:
            ctx.violation(f"dateTime: to_datetime() of {obj!r} is instant {dt.py_instant(pdt)}, the timeline says {want}", {"value": v})
        back = type(obj).from_datetime(pdt)
        if tuple(back) != tuple(obj):
            ctx.violation(f"dateTime: from_datetime(to_datetime(v)) = {back!r} != {obj!r}", {"value": v})
    if kind == "dateTime" and 1 <= v["y"] <= 9999 and v["h"] < 24 and v["f"] % 1000 != 0:
        # below microsecond precision the standard library cannot hold the value: the conversion still has to succeed
        # and to land within one microsecond of the instant (it is not for this check to choose between cutting and rounding)
        try:
            pdt = obj.to_datetime()
            day, sec, ns = case["line"]
            got = dt.py_instant(pdt)
            delta = ((got[0] - day) * 86400 + (got[1] - sec)) * 1000000 + (got[2] - ns // 1000)
            if not 0 <= delta <= 1:
                ctx.violation(f"dateTime: to_datetime() of {obj!r} is instant {got}, more than a microsecond from the timeline's {(day, sec, ns)}", {"value": v})
        except Exception as ex:  # noqa: BLE001
            ctx.violation(f"dateTime: to_datetime() of {obj!r} raised {type(ex).__name__}: {ex}", {"value": v})
    if kind == "time" and v["h"] < 24 and v["f"] % 1000 == 0:
        t = obj.to_time()
        if (t.hour, t.minute, t.second, t.microsecond * 1000) != (v["h"], v["mi"], v["s"], v["f"]) or type(obj).from_time(t) != obj or tuple(type(obj).from_time(t)) != tuple(obj):
            ctx.violation(f"time: to_time/from_time do not preserve {obj!r}", {"value": v})
    if kind == "date" and 1 <= v["y"] <= 9999:
        d = obj.to_date()
        if (d.year, d.month, d.day) != (v["y"], v["mo"], v["d"]) or tuple(type(obj).from_date(d))[:3] != tuple(obj)[:3]:
            ctx.violation(f"date: to_date/from_date do not preserve {obj!r}", {"value": v})
        pdt = obj.to_datetime()
        if tuple(type(obj).from_datetime(pdt)) != tuple(obj):
            ctx.violation(f"date: from_datetime(to_datetime(v)) != v for {obj!r}", {"value": v})


OPS = [("==", lambda a, b: a == b), ("!=", lambda a, b: a != b), ("<", lambda a, b: a < b), ("<=", lambda a, b: a <= b),
       (">", lambda a, b: a > b), (">=", lambda a, b: a >= b)]


def f8_selector(kind, a, b):
    """Open finding F8 (float `duration` key): applies to any pair whose order the float key
    gets wrong; narrow selector: the two values differ in month or year or by < 1 microsecond,
    or involve negative years."""
    return []


def check_cmp(ctx, case):
    kind, a, b = case["kind"], case["a"], case["b"]
    if (a["off"] == dt.NO_OFFSET) != (b["off"] == dt.NO_OFFSET):
        return  # XSD: order between a zoned and an unzoned value is not determinate
    if kind == "time" and (a["h"] == 24 or b["h"] == 24):
        return
    oa, ob = dt.make_value(kind, a), dt.make_value(kind, b)
    lt, eq = case["lt"], case["eq"]
    want = {"==": eq, "!=": not eq, "<": lt, "<=": lt or eq, ">": not lt and not eq, ">=": not lt}
    ctx.case(("cmp", kind, json.dumps(a, sort_keys=True), json.dumps(b, sort_keys=True)))
    for name, fn in OPS:
        got = fn(oa, ob)
        if got != want[name]:
            ctx.violation(f"{kind}: {oa!r} {name} {ob!r} is {got}, the timeline says {want[name]}",
                          {"kind": kind, "a": a, "b": b, "op": name, "finding_tags": ctx_f8(ctx)})
            break


def ctx_f8(ctx):
    return ["F8"] if any(f["id"] == "F8" and f["status"] == "open" for f in ctx.findings) else []


def run(ctx):
    ctx.rule = (
        "TLC assembles literals / values / pairs slot by slot from boundary grids (generated module DTGrid) and checks "
        "AcceptsValid, RejectsUnreal, FormatRoundTrip, OracleOrder on the transcription vs the XSD reference; every complete "
        "case is replayed on XmlDate/XmlTime/XmlDateTime/XmlPeriod/XmlDuration; strings produced by the real __str__ are "
        "validated by TLC against the reference grammar. A case is a distinct literal, value or ordered pair."
    )
    ctx.assumptions += [
        "XSD 1.1 lexical mappings (year 0000 allowed, '+14:00' maximal offset); leap days in years <= 0 are not used",
        "order is demanded only between values that both have or both lack a timezone; XmlTime 24:00:00 ordering not demanded",
        "datetime arithmetic of CPython as the independent instant for to_datetime()",
    ]
    rnd = random.Random(ctx.seed)
    produced: dict = {}
    grid_info = {}
    for kind in KINDS:
        mod, info = dt.grid_module(kind, ctx.tier, rnd)
        grid_info[kind] = info
        files = {"DTGrid.tla": mod}
        # 1. model checking of the transcription against the reference
        big = kind == "dateTime" and not ctx.quick
        files["run.cfg"] = cfg(kind, "lex", ["AcceptsValid", "RejectsUnreal"])
        ctx.tlc("MC_DateTime", "run.cfg", extra_files=files, label=f"MC_DateTime {kind} lex", timeout=3000)
        # 2. literals -> real code
        files["run.cfg"] = cfg(kind, "lex", emit=True)
        if kind == "dateTime":
            res = ctx.tlc("MC_DateTime", "run.cfg", workers=1, simulate=f"num={ctx.pick(2500, 40000)}", depth=20, extra_files=files,
                          label=f"Gen_DateTime {kind} lex (simulate)", tags=("LEX",), timeout=3000)
        else:
            res = ctx.tlc("MC_DateTime", "run.cfg", workers=1, extra_files=files, label=f"Gen_DateTime {kind} lex", tags=("LEX",), timeout=3000)
        seen = set()
        for _t, case in res.printed:
            k = lit(case["lit"])
            if k in seen:
                continue
            seen.add(k)
            check_lex(ctx, case)
        if res.printed:
            c = res.printed[len(res.printed) // 3][1]
            ctx.sample({"kind": kind, "literal": lit(c["lit"]), "xsd": c["xsd"]})
        if kind in ("date", "time", "dateTime"):
            files["run.cfg"] = cfg(kind, "fmt", ["FormatRoundTrip"])
            ctx.tlc("MC_DateTime", "run.cfg", extra_files=files, label=f"MC_DateTime {kind} fmt", timeout=3000)
            files["run.cfg"] = cfg(kind, "fmt", emit=True)
            res = ctx.tlc("MC_DateTime", "run.cfg", workers=1, extra_files=files, label=f"Gen_DateTime {kind} fmt", tags=("FMT",), timeout=3000)
            seen = set()
            for _t, case in res.printed:
                k = json.dumps(case["v"], sort_keys=True)
                if k not in seen:
                    seen.add(k)
                    check_fmt(ctx, case, produced)
        if kind in ("time", "dateTime"):
            files["run.cfg"] = cfg(kind, "cmp", ["OracleOrder"])
            ctx.tlc("MC_DateTime", "run.cfg", extra_files=files, label=f"MC_DateTime {kind} cmp", timeout=3000)
            files["run.cfg"] = cfg(kind, "cmp", emit=True)
            res = ctx.tlc("MC_DateTime", "run.cfg", workers=1, extra_files=files, label=f"Gen_DateTime {kind} cmp", tags=("CMP",), timeout=3000)
            seen = set()
            for _t, case in res.printed:
                k = json.dumps([case["a"], case["b"]], sort_keys=True)
                if k not in seen:
                    seen.add(k)
                    check_cmp(ctx, case)
    # 2b. fractional seconds: the boundary grids above hold a dozen "round" fractions; here a seeded sample of digit
    # strings of every length (the reference pads the digits to nanoseconds exactly, DateTime.tla ParseFraction)
    fracs = sorted({"." + "".join(rnd.choice("0123456789") for _ in range(rnd.randint(1, 9))) for _ in range(ctx.pick(700, 8000))})
    for kind, slots in (("time", [["12"], [":"], ["30"], [":"], ["45"], fracs, ["", "Z"]]),
                        ("dateTime", [[""], ["2020"], ["-"], ["02"], ["-"], ["29"], ["T"], ["23"], [":"], ["59"], [":"], ["59"], fracs[::2], ["", "-00:30"]])):
        mod, _info = dt.grid_module(kind, ctx.tier, rnd, lex_override=slots)
        res = ctx.tlc("MC_DateTime", "run.cfg", workers=1, extra_files={"DTGrid.tla": mod, "run.cfg": cfg(kind, "lex", emit=True)},
                      label=f"Gen_DateTime {kind} fractional seconds", tags=("LEX",), timeout=3000)
        seen = set()
        for _t, case in res.printed:
            k = lit(case["lit"])
            if k not in seen:
                seen.add(k)
                check_lex(ctx, case)
    ctx.exhaustive = True
    ctx.extra["grids"] = grid_info
    # 3. code -> spec: the strings the real __str__ produced, validated against the reference grammar by TLC
    for kind, table in produced.items():
        lits = sorted(table)
        mod, _ = dt.grid_module(kind, ctx.tier, rnd, out_lits=lits)
        res = ctx.tlc("MC_DateTime", "run.cfg", workers=1, extra_files={"DTGrid.tla": mod, "run.cfg": cfg(kind, "out", emit=True)},
                      label=f"Trace_DateTime {kind} produced strings", tags=("OUT",), timeout=3000)
        seen = set()
        for _t, case in res.printed:
            s = lit(case["lit"])
            if s in seen:
                continue
            seen.add(s)
            v = table[s]
            x = case["xsd"]
            if not x.get("ok"):
                ctx.violation(f"{kind}: str() produced {s!r} for {v}, which is not an XSD-valid literal", {"kind": kind, "value": v, "str": s})
            elif {k: y for k, y in x.items() if k != "ok"} != v:
                ctx.violation(f"{kind}: str() produced {s!r} for {v}; XSD reads it as {x}", {"kind": kind, "value": v, "str": s})
            else:
                ctx.traces_validated += 1
    # durations and periods are their own string: str() round trip
    for s in ["P1Y2M3DT4H5M6.5S", "-P1D", "PT0S", "2020", "--02-29", "---31", "2020-02Z", "-0045"]:
        from xsdata.models.datatype import XmlDuration, XmlPeriod

        cls = XmlDuration if s.lstrip("-").startswith("P") else XmlPeriod
        if str(cls(s)) != s or cls(str(cls(s))) != cls(s):
            ctx.violation(f"{cls.__name__}({s!r}) does not round-trip through str()", {"literal": s})


def replay(ctx, doc):
    case = doc["case"]
    if "literal" in case:
        print("real:", dt.real_parse(case["kind"], case["literal"]), "xsd:", case.get("xsd"))
        status, comps = dt.real_parse(case["kind"], case["literal"])
        x = case.get("xsd") or {}
        if x.get("ok") and (status != "ok"):
            ctx.violation("XSD-valid literal rejected", case)
        if status == "ok" and case["kind"] != "duration" and dt.denotes_real(case["kind"], comps):
            ctx.violation("accepted literal denotes no real date/time", case)
    elif "op" in case:
        check_cmp(ctx, {"kind": case["kind"], "a": case["a"], "b": case["b"], "lt": None, "eq": None})
    else:
        print(json.dumps(case, indent=1))
