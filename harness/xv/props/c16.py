"""C16 - generated classes are faithful to the DTD they came from.

spec/MC_Dtd.tla reuses the constructive validity of Schema.tla for DTD content models
(sequence / choice with "", ?, *, + nested two deep, (#PCDATA), EMPTY, an element with its own
model, mixed content and ANY variants) and attribute lists (CDATA, ID, IDREF, NMTOKEN(S),
enumerations x #REQUIRED / #IMPLIED / #FIXED / default).  Each (DTD, document) pair is written out,
confirmed by libxml2's DTD validator (a disagreement is a machinery error), run through the REAL
generator, parsed strictly and serialised; elements, attributes and values must be those of the
input with attribute defaults and fixed values materialised as the DTD prescribes (decisive);
where repetition is confined to single elements and choices of single elements (compound fields
enabled) order is preserved and the output is DTD-valid again.
"""
from __future__ import annotations

import hashlib
import io
import json

from lxml import etree

from xsdata.formats.dataclass.context import XmlContext
from xsdata.formats.dataclass.parsers import XmlParser
from xsdata.formats.dataclass.parsers.config import ParserConfig
from xsdata.formats.dataclass.serializers import XmlSerializer
from xsdata.formats.dataclass.serializers.config import SerializerConfig

from .. import codegen_run as cg
from .. import infoset
from ..tlc import MachineryError

NONE = "__none__"
U = 9
STRICT = ParserConfig(fail_on_unknown_properties=True, fail_on_unknown_attributes=True, fail_on_converter_warnings=True)


def occ(p):
    return {(1, 1): "", (0, 1): "?", (0, U): "*", (1, U): "+"}[(p["min"], p["max"])]


def model(p):
    if p["k"] == "el":
        return p["name"] + occ(p)
    sep = "," if p["k"] == "seq" else "|"
    return "(" + sep.join(model(i) for i in p["items"]) + ")" + occ(p)


def elements(p, out):
    if p["k"] == "el":
        out[p["name"]] = p["tp"]
    else:
        for i in p["items"]:
            elements(i, out)


def dtd_text(c):
    els = {}
    elements(c["root"], els)
    if c["variant"] == "mixed":
        names = sorted(n for n, t in els.items())
        lines = [f"<!ELEMENT Root (#PCDATA|{'|'.join(names)})*>"]
    elif c["variant"] == "any":
        lines = ["<!ELEMENT Root ANY>"]
    else:
        m = model(c["root"])
        lines = [f"<!ELEMENT Root {m if m.startswith('(') else '(' + m + ')'}>"]
    for n, t in sorted(els.items()):
        if t == "EMPTY":
            lines.append(f"<!ELEMENT {n} EMPTY>")
        elif t == "Kid":
            lines.append(f"<!ELEMENT {n} (x,y?)>")
        elif t == "Rec":
            lines.append(f"<!ELEMENT {n} (x,{n}?)>")
        else:
            lines.append(f"<!ELEMENT {n} (#PCDATA)>")
    if any(t in ("Kid", "Rec") for t in els.values()):
        lines += ["<!ELEMENT x (#PCDATA)>"] + (["<!ELEMENT y (#PCDATA)>"] if any(t == "Kid" for t in els.values()) else [])
    for a in c["attrs"]:
        mode = {"REQUIRED": "#REQUIRED", "IMPLIED": "#IMPLIED", "FIXED": f'#FIXED "{a["value"]}"', "DEFAULT": f'"{a["value"]}"'}[a["mode"]]
        lines.append(f"<!ATTLIST Root {a['name']} {a['tp']} {mode}>")
    return "\n".join(lines) + "\n"


def attr_values(c, doc):
    par = int(hashlib.blake2b(repr(doc).encode(), digest_size=2).hexdigest(), 16)
    out = []
    for i, a in enumerate(c["attrs"]):
        present = a["mode"] == "REQUIRED" or ((par >> i) & 1) == 1 or a["name"].startswith("xmlns")
        if not present:
            continue
        if a["name"] == "r" and not any(x["name"] == "id" for x in c["attrs"]):
            continue
        val = {"ID": "i1", "IDREF": "i1", "NMTOKEN": "tok-1", "NMTOKENS": "t1 t2", "CDATA": "some text", "(x|y)": "y"}.get(a["tp"], "v")
        if a["mode"] == "FIXED":
            val = a["value"]
        out.append((a["name"], val))
    names = [n for n, _ in out]
    if "r" in names and "id" not in names:
        out.append(("id", "i1"))
    return out


def doc_xml(c, doc):
    def el(o):
        if o["tp"] == "EMPTY":
            return f"<{o['name']}/>"
        inner = o["text"].replace("&", "&amp;").replace("<", "&lt;") + "".join(el(k) for k in o["kids"])
        return f"<{o['name']}>{inner}</{o['name']}>"

    attrs = "".join(f' {n}="{v}"' for n, v in attr_values(c, doc))
    body = "".join(el(o) for o in doc)
    if c["variant"] == "mixed":
        body = "lead " + body + " tail"
    return f"<Root{attrs}>{body}</Root>"


def validate(dtd, xml):
    d = etree.DTD(io.StringIO(dtd))
    ok = d.validate(etree.fromstring(xml.encode()))
    return ok, str(d.error_log)[:400]


def expected_attrs(c, doc):
    """Attributes by expanded name; xmlns declarations are not attributes."""
    exp = dict(attr_values(c, doc))
    for a in c["attrs"]:
        if a["name"] not in exp and a["mode"] in ("FIXED", "DEFAULT"):
            exp[a["name"]] = a["value"]
    ns = {a["name"][6:]: a["value"] for a in c["attrs"] if a["name"].startswith("xmlns:")}
    ns["xml"] = "http://www.w3.org/XML/1998/namespace"       # bound by definition
    out = {}
    for k, v in exp.items():
        if k.startswith("xmlns"):
            continue
        pfx, _, local = k.rpartition(":")
        out[(ns[pfx] if pfx else "", local)] = v
    return out


def default_ns(c):
    return next((a["value"] for a in c["attrs"] if a["name"] == "xmlns"), None)


def has_namespaces(c) -> bool:
    return any(a["name"].startswith("xmlns") for a in c["attrs"])


def flat(tree):
    out = []

    def walk(el, path):
        kids = [k for k in el["content"] if isinstance(k, dict)]
        text = "".join(k for k in el["content"] if isinstance(k, str))
        out.append((path, tuple(el["name"]), text if not kids else text.strip()))
        for k in kids:
            walk(k, path + "/" + el["name"][1])

    for k in tree["content"]:
        if isinstance(k, dict):
            walk(k, "")
    return out


def run(ctx):
    ctx.rule = (
        "TLC: DTD content models over seq/choice x (none ? * +) x 2 elements x nested group (exhaustive cross-check of the "
        "constructive generator against the acceptor), documents, attribute-list variants, mixed/ANY variants by simulation. "
        "Real code: DTD + XML text validated by lxml.etree.DTD, real generator, strict parse, serialise, comparison with defaults "
        "materialised; order and re-validation where order-preserving. A case is a distinct (DTD, document)."
    )
    ctx.assumptions += ["libxml2's DTD validator as independent second opinion; stand-ins for jinja2/click/toposort/ruff"]
    ctx.tlc("MC_Dtd", "run.cfg", extra_files={"run.cfg": "SPECIFICATION Spec\nCONSTANTS\n  MaxDocIdx = 0\nCONSTRAINT MCOnly\nINVARIANT InvConstructionValid\nCHECK_DEADLOCK FALSE\n"},
            label="MC_Dtd construction vs acceptor", timeout=1500)
    res = ctx.tlc("MC_Dtd", "run.cfg", workers=1, simulate=f"num={ctx.pick(260, 6000)}", depth=10,
                  extra_files={"run.cfg": "SPECIFICATION Spec\nCONSTANTS\n  MaxDocIdx = 6\nCONSTRAINT Emit\nCHECK_DEADLOCK FALSE\n"},
                  label="Gen_Dtd DTDs and documents", tags=("DTD",), require_cases=True, timeout=3000)
    # the fixed corpus (reproducers of fixed defects, nested sequence groups inside choices): replayed in every run
    corpus = ctx.tlc("MC_Dtd", "run.cfg", workers=1,
                     extra_files={"run.cfg": "INIT InitCorpus\nNEXT Next\nCONSTANTS\n  MaxDocIdx = 6\nCONSTRAINT Emit\nCHECK_DEADLOCK FALSE\n"},
                     label="Gen_Dtd fixed corpus", tags=("DTD",), require_cases=True, timeout=1500)
    groups = {}
    for _t, c in list(corpus.printed) + list(res.printed):
        key = json.dumps([c["root"], c["attrs"], c["variant"]], sort_keys=True)
        groups.setdefault(key, {"c": c, "docs": {}})["docs"][json.dumps(c["doc"], sort_keys=True)] = c["doc"]
    from xsdata.models.config import StructureStyle

    for n, (key, g) in enumerate(groups.items()):
        c = g["c"]
        dtd = dtd_text(c)
        for oname, opts in (("compound", {"compound_fields.enabled": True}), ("plain", {})):
            if oname == "plain" and n % 3:
                continue
            gen = cg.generate({"s.dtd": dtd}, ["s.dtd"], options=opts)
            try:
                info = {"dtd": dtd, "options": oname}
                if gen.error is not None:
                    ctx.violation(f"generation from a DTD failed ({oname}): {type(gen.error).__name__}: {gen.error}", info)
                    continue
                try:
                    root = getattr(gen.module(), "Root")
                except Exception as ex:  # noqa: BLE001
                    ctx.violation(f"generated package does not import / has no Root: {type(ex).__name__}: {ex}", {**info, "files": {k: v[:2000] for k, v in gen.files.items()}})
                    continue
                xctx = XmlContext(models_package=gen.pkg)
                for doc in g["docs"].values():
                    xml = doc_xml(c, doc)
                    ok, log = validate(dtd, xml)
                    if not ok:
                        raise MachineryError(f"the specification built a document libxml2's DTD validator rejects:\n{dtd}\n{xml}\n{log}")
                    ctx.case(("dtd", dtd, xml, oname))
                    dinfo = {**info, "xml": xml, "source": next((v for v in gen.files.values() if "class Root" in v), "")[:3000]}
                    try:
                        obj = XmlParser(context=xctx, config=STRICT).from_string(xml, root)
                        out = XmlSerializer(context=xctx, config=SerializerConfig(xml_declaration=False)).render(obj)
                        tin, tout = infoset.parse(xml), infoset.parse(out)
                    except Exception as ex:  # noqa: BLE001
                        tags = ["F39"] if default_ns(c) and f"Unknown property Root:{{{default_ns(c)}}}" in str(ex) else []
                        ctx.violation(f"DTD-valid document does not parse/serialise under strict settings ({oname}): {type(ex).__name__}: {ex}", {**dinfo, "finding_tags": tags})
                        continue
                    fin, fout = flat(tin), flat(tout)
                    if sorted(fin) != sorted(fout):
                        # F39: exactly the default namespace of element names is lost, everything else equal
                        same_locals = sorted((p_, n[1], t) for p_, n, t in fin) == sorted((p_, n[1], t) for p_, n, t in fout)
                        tags = ["F39"] if default_ns(c) and same_locals else []
                        ctx.violation(f"elements / values differ ({oname}): lost {[x for x in fin if x not in fout][:4]}, invented {[x for x in fout if x not in fin][:4]}", {**dinfo, "out": out, "finding_tags": tags})
                    got_attrs = {tuple(k): v for k, v in tout["attrs"].items()}
                    if tuple(tin["name"]) != tuple(tout["name"]):
                        tags = ["F39"] if default_ns(c) and tuple(tin["name"]) == (default_ns(c), "Root") and tuple(tout["name"]) == ("", "Root") else []
                        ctx.violation(f"root element changed: {tout['name']} vs {tin['name']}", {**dinfo, "out": out, "finding_tags": tags})
                    exp = expected_attrs(c, doc)
                    if got_attrs != exp:
                        ctx.violation(f"attributes: output has {got_attrs}, the DTD prescribes {exp}", {**dinfo, "out": out})
                    if c["variant"] == "mixed":
                        tx_in = "".join(x for x in tin["content"] if isinstance(x, str))
                        tx_out = "".join(x for x in tout["content"] if isinstance(x, str))
                        if tx_in != tx_out:
                            ctx.violation(f"mixed content text differs: {tx_out!r} vs {tx_in!r}", {**dinfo, "out": out})
                    if c["op"] and oname == "compound" and c["variant"] == "model":
                        if fin != fout:
                            ctx.violation("element order not preserved although repetition is confined to single elements / choices of single elements", {**dinfo, "out": out})
                        # (a DTD knows prefixes, not namespaces: an output that spells the same namespaces with
                        #  other prefixes cannot be re-validated against it)
                        ok2, log2 = (True, "") if has_namespaces(c) else validate(dtd, out)
                        if not ok2:
                            ctx.violation(f"output is not DTD-valid: {log2}", {**dinfo, "out": out})
            finally:
                gen.cleanup()
        if len(ctx.samples) < 2 and n % 60 == 1:
            ctx.sample({"dtd": dtd, "document": doc_xml(c, next(iter(g["docs"].values())))})
    ctx.extra["dtds"] = len(groups)
    cg.cleanup_all()


def replay(ctx, doc):
    print(doc["what"])
    c = doc["case"]
    print(c.get("dtd"))
    print(c.get("xml"))
    print(c.get("out"))
