"""C12 - code generation is reproducible.

spec/Order.tla: every place where the generator iterates over a Python set is an arbitrary
visiting order; TLC checks, for ALL digraphs on 3 (quick) / 4 (thorough) classes and ALL visiting
orders of vertices and neighbours, that the transcribed path-based SCC algorithm yields exactly
the declarative components (confluence), and computes the declarative topological order.
Binding: the real strongly_connected_components is run on every TLC graph under several hash
seeds with shuffled adjacency (decisive: the components are the declarative ones); whole
generations (repository fixtures: XSD, WSDL, DTD, XML and JSON samples; cyclic multi-namespace
schema sets; every structure style) are run in subprocesses under 8 hash seeds, with perturbed
object addresses, twice in one process, through the API, through the CLI with flags and through the
CLI with a configuration file written by init-config - every generated file must be byte-identical.
"""
from __future__ import annotations

import json
import os
import subprocess
import sys
import tempfile
from pathlib import Path

from ..tlc import ROOT, MachineryError

FIX = Path("/repo/tests/fixtures")
REAL_CLICK = "/root/miniconda/lib/python3.13/site-packages"

CYCLIC_A = '''<xs:schema xmlns:xs="http://www.w3.org/2001/XMLSchema" targetNamespace="urn:a" xmlns:a="urn:a" xmlns:b="urn:b" elementFormDefault="qualified">
<xs:import namespace="urn:b" schemaLocation="b.xsd"/>
<xs:complexType name="Node"><xs:sequence><xs:element name="child" type="a:Node" minOccurs="0" maxOccurs="unbounded"/><xs:element name="other" type="b:Other" minOccurs="0"/><xs:element name="value" type="xs:string"/></xs:sequence><xs:attribute name="class" type="xs:string"/></xs:complexType>
<xs:complexType name="value"><xs:sequence><xs:element name="Value" type="xs:int"/><xs:element name="value" type="xs:int"/></xs:sequence></xs:complexType>
<xs:element name="root" type="a:Node"/><xs:element name="Other" type="b:Other"/>
</xs:schema>'''
CYCLIC_B = '''<xs:schema xmlns:xs="http://www.w3.org/2001/XMLSchema" targetNamespace="urn:b" xmlns:a="urn:a" xmlns:b="urn:b" elementFormDefault="qualified">
<xs:import namespace="urn:a" schemaLocation="a.xsd"/>
<xs:complexType name="Other"><xs:choice maxOccurs="unbounded"><xs:element name="node" type="a:Node"/><xs:element name="self" type="b:Other"/><xs:element name="n" type="xs:int"/></xs:choice></xs:complexType>
<xs:complexType name="Node"><xs:sequence><xs:element name="x" type="b:Other" minOccurs="0"/></xs:sequence></xs:complexType>
<xs:element name="other" type="b:Other"/>
</xs:schema>'''


def _ns_schema(ns, extra=""):
    return (f'<xs:schema xmlns:xs="http://www.w3.org/2001/XMLSchema" targetNamespace="{ns}" xmlns:t="{ns}" elementFormDefault="qualified">'
            f'<xs:complexType name="Item"><xs:sequence><xs:element name="v" type="xs:string"/>{extra}</xs:sequence></xs:complexType>'
            '<xs:element name="item" type="t:Item"/></xs:schema>')


# the same class name in two namespaces whose module paths differ in SEVERAL parts, both used by a third schema
# (import aliases are built from the differing path parts)
DEEP_A = "http://north.alpha.example.com/red/one"
DEEP_B = "http://south.beta.sample.org/blue/two"
DEEP_MAIN = (f'<xs:schema xmlns:xs="http://www.w3.org/2001/XMLSchema" targetNamespace="urn:main" xmlns:a="{DEEP_A}" xmlns:b="{DEEP_B}" elementFormDefault="qualified">'
             f'<xs:import namespace="{DEEP_A}" schemaLocation="north.xsd"/><xs:import namespace="{DEEP_B}" schemaLocation="south.xsd"/>'
             '<xs:element name="order"><xs:complexType><xs:sequence><xs:element name="first" type="a:Item"/><xs:element name="second" type="b:Item" maxOccurs="unbounded"/>'
             '</xs:sequence></xs:complexType></xs:element></xs:schema>')


# THREE (and four) namespaces with the same class name whose module paths differ unevenly (a.org/x, a.org/y, b.org/y,
# b.org/x/deep), all used by one class: the aliases depend on how the imports are lined up against each other
TRI = {"x1.xsd": "http://a.org/x", "y1.xsd": "http://a.org/y", "y2.xsd": "http://b.org/y", "z.xsd": "http://b.org/x/deep"}
TRI_MAIN = ('<xs:schema xmlns:xs="http://www.w3.org/2001/XMLSchema" targetNamespace="urn:main" '
            + " ".join(f'xmlns:n{i}="{ns}"' for i, ns in enumerate(TRI.values())) + ' elementFormDefault="qualified">'
            + "".join(f'<xs:import namespace="{ns}" schemaLocation="{f}"/>' for f, ns in TRI.items())
            + '<xs:element name="root"><xs:complexType><xs:sequence>'
            + "".join(f'<xs:element name="e{i}" type="n{i}:Item"/>' for i in range(len(TRI)))
            + '</xs:sequence></xs:complexType></xs:element></xs:schema>')


# wildcards whose namespace attribute LISTS several tokens (field names and metadata are derived from the list)
WILD_LISTS = ('<xs:schema xmlns:xs="http://www.w3.org/2001/XMLSchema" targetNamespace="urn:w" xmlns:t="urn:w" elementFormDefault="qualified">'
              '<xs:complexType name="Open"><xs:sequence><xs:element name="head" type="xs:string"/>'
              '<xs:any namespace="urn:a urn:b ##targetNamespace" processContents="lax" minOccurs="0" maxOccurs="unbounded"/></xs:sequence>'
              '<xs:anyAttribute namespace="urn:x ##local urn:y" processContents="lax"/></xs:complexType>'
              '<xs:complexType name="Wide"><xs:sequence><xs:any namespace="http://one.example/ns http://two.example/ns urn:three ##local" processContents="skip" minOccurs="0"/>'
              '<xs:element name="tail" type="t:Open" minOccurs="0"/></xs:sequence></xs:complexType>'
              '<xs:element name="open" type="t:Open"/><xs:element name="wide" type="t:Wide"/></xs:schema>')


SUBST_NAMES = ('<xs:schema xmlns:xs="http://www.w3.org/2001/XMLSchema" targetNamespace="urn:s" xmlns:t="urn:s" elementFormDefault="qualified">'
               '<xs:import namespace="http://www.w3.org/XML/1998/namespace"/>'
               '<xs:complexType name="ItemClass"><xs:sequence><xs:element name="v" type="xs:string"/></xs:sequence><xs:attribute ref="xml:lang"/></xs:complexType>'
               '<xs:complexType name="Holder"><xs:sequence><xs:element name="item" type="t:ItemClass" maxOccurs="unbounded"/></xs:sequence></xs:complexType>'
               '<xs:element name="holder" type="t:Holder"/></xs:schema>')


# a repeatable choice over the members of THREE substitution groups: with compound_fields.use_substitution_groups the
# compound field is NAMED after the groups (in the order the choice mentions them)
SUBST_CHOICE = ('<xs:schema xmlns:xs="http://www.w3.org/2001/XMLSchema" targetNamespace="urn:sg" xmlns:t="urn:sg" elementFormDefault="qualified">'
                + "".join(f'<xs:element name="{h}" type="xs:string" abstract="true"/>'
                          + "".join(f'<xs:element name="{h}{i}" type="xs:string" substitutionGroup="t:{h}"/>' for i in (1, 2))
                          for h in ("zeta", "alpha", "mid"))
                + '<xs:element name="assets"><xs:complexType><xs:choice maxOccurs="unbounded">'
                + "".join(f'<xs:element ref="t:{h}"/>' for h in ("zeta", "alpha", "mid"))
                + '</xs:choice></xs:complexType></xs:element>'
                '<xs:element name="pair"><xs:complexType><xs:choice maxOccurs="unbounded"><xs:element ref="t:mid"/><xs:element ref="t:alpha"/>'
                '</xs:choice></xs:complexType></xs:element></xs:schema>')
SUBST_OPTS = ("compound-substitution-groups", {"compound_fields.enabled": True, "compound_fields.use_substitution_groups": True, "compound_fields.max_name_parts": 4})


def source_sets():
    sets = []
    sets.append(("subst-groups-choice", {"sg.xsd": SUBST_CHOICE}, ["sg.xsd"]))

    def fx(*parts):
        return str(FIX.joinpath(*parts))

    # names the DEFAULT substitutions of `xsdata init-config` would rewrite (class names ending in Class, the xml
    # namespace as a package): only a configuration that asks for them may apply them, whatever the route
    sets.append(("subst-names", {"s.xsd": SUBST_NAMES}, ["s.xsd"]))
    sets.append(("primer", {"order.xsd": fx("primer", "order.xsd")}, ["order.xsd"]))
    sets.append(("books", {"books.xsd": fx("books", "books.xsd")}, ["books.xsd"]))
    sets.append(("compound", {"compound.xsd": fx("compound", "compound.xsd")}, ["compound.xsd"]))
    sets.append(("hello-wsdl", {"hello.wsdl": fx("hello", "hello.wsdl")}, ["hello.wsdl"]))
    sets.append(("dtd", {"complete_example.dtd": fx("dtd", "complete_example.dtd")}, ["complete_example.dtd"]))
    sets.append(("cyclic-two-namespaces", {"a.xsd": CYCLIC_A, "b.xsd": CYCLIC_B}, ["a.xsd", "b.xsd"]))
    sets.append(("wildcard-lists", {"w.xsd": WILD_LISTS}, ["w.xsd"]))
    sets.append(("deep-ns-clash", {"main.xsd": DEEP_MAIN, "north.xsd": _ns_schema(DEEP_A), "south.xsd": _ns_schema(DEEP_B, '<xs:element name="n" type="xs:int"/>')}, ["main.xsd"]))
    sets.append(("four-ns-clash", {"main.xsd": TRI_MAIN, **{f: _ns_schema(ns, f'<xs:element name="k{i}" type="xs:int"/>') for i, (f, ns) in enumerate(TRI.items())}}, ["main.xsd"]))
    for name in ("series",):
        d = FIX / name
        js = sorted(p for p in d.glob("*.json"))[:2]
        if js:
            sets.append((name + "-json", {p.name: str(p) for p in js}, [p.name for p in js]))
    d = FIX / "artists"
    xs = sorted(p for p in d.glob("*.xml"))[:3]
    if xs:
        sets.append(("artists-xml", {p.name: str(p) for p in xs}, [p.name for p in xs]))
    return [s for s in sets if all((not v.startswith("/")) or os.path.exists(v) for v in s[1].values())]


OPTION_SETS = [
    ("single-package", {}),
    ("filenames", {"structure_style": "filenames"}),
    ("namespaces-compound", {"structure_style": "namespaces", "compound_fields.enabled": True}),
    ("clusters", {"structure_style": "clusters", "docstring_style": "Google"}),
    ("namespace-clusters-unnest", {"structure_style": "namespace-clusters", "unnest_classes": True, "relative_imports": True}),
]


def worker(args, seed, extra_env=None):
    env = dict(os.environ)
    env["PYTHONHASHSEED"] = str(seed)
    env.update(extra_env or {})
    p = subprocess.run([sys.executable, "-m", "xv.c12_worker", *args], capture_output=True, text=True, env=env, timeout=900)
    lines = [l for l in p.stdout.splitlines() if l.startswith("{")]
    if not lines:
        raise MachineryError(f"c12 worker produced no result (rc={p.returncode}): {p.stderr[-800:]}")
    return json.loads(lines[-1])


def run(ctx):
    ctx.rule = (
        "TLC: all digraphs on 3 (quick) / 4 (thorough) classes x all visiting orders of vertices and neighbours, invariant "
        "InvConfluentScc. Real code: strongly_connected_components on every TLC graph under several hash seeds; full generations "
        "of 8 source sets x structure styles under 8 hash seeds, perturbed addresses, repeated runs, API vs CLI vs config file; "
        "sha256 of every generated file must agree. A case is a distinct (source set, options, route/seed)."
    )
    ctx.assumptions += ["ruff formatting is a no-op stand-in: byte identity is that of the templates' output", "the timestamped header is off (default)"]
    work = tempfile.mkdtemp(prefix="xv-c12-")
    try:
        nodes = "{1, 2, 3}"
        ctx.tlc("MC_Order", "run.cfg", extra_files={"run.cfg": f"SPECIFICATION Spec\nCONSTANTS\n  Nodes = {nodes}\nINVARIANT InvConfluentScc\nCHECK_DEADLOCK FALSE\n"},
                label="MC_Order confluence, 3 classes", timeout=3000)
        if not ctx.quick:
            ctx.tlc("MC_Order", "run.cfg", extra_files={"run.cfg": "INIT InitFew\nNEXT Next\nCONSTANTS\n  Nodes = {1, 2, 3, 4}\nINVARIANT InvConfluentScc\nCHECK_DEADLOCK FALSE\n"},
                    label="MC_Order confluence, 4 classes (no self loops, 24 x 2 visiting orders)", timeout=3000)
        ctx.exhaustive = True
        res = ctx.tlc("MC_Order", "run.cfg", workers=1,
                      extra_files={"run.cfg": f"SPECIFICATION Spec\nCONSTANTS\n  Nodes = {nodes}\nCONSTRAINT EmitGraph\nCHECK_DEADLOCK FALSE\n"},
                      label="Gen_Order graphs", tags=("GRAPH",), timeout=3000)
        graphs = []
        seen = set()
        for _t, g in res.printed:
            k = json.dumps(g["edges"], sort_keys=True)
            if k not in seen:
                seen.add(k)
                graphs.append({"edges": {str(i + 1): e for i, e in enumerate(g["edges"])} if isinstance(g["edges"], list) else g["edges"], "sccs": g["sccs"]})
        gpath = os.path.join(work, "graphs.json")
        json.dump(graphs, open(gpath, "w"))
        for seed in ctx.pick((0, 1, 7), (0, 1, 2, 3, 7, 11, 42, 1234)):
            r = worker(["graphs", gpath], seed)
            ctx.evaluations += r["checked"]
            ctx.nontrivial.add(f"graphs-{seed}".encode())
            for b in r["bad"]:
                ctx.violation(f"strongly_connected_components under PYTHONHASHSEED={seed} gives {b['got']}, the components are {b['want']}", b)
        ctx.sample({"graph": graphs[len(graphs) // 2] if graphs else None})
        # whole generations
        seeds = ctx.pick((0, 1, 2, 3), (0, 1, 2, 3, 4, 5, 6, 7))
        sets = source_sets()
        n = 0
        for sname, files, main in sets:
            for oname, opts in ([SUBST_OPTS] if sname == "subst-groups-choice" else []) + (OPTION_SETS if not ctx.quick else OPTION_SETS[:1] + [OPTION_SETS[(len(sname)) % 4 + 1]]):
                spec = {"files": files, "main": main, "options": opts, "repeat": 2}
                spath = os.path.join(work, "spec.json")
                json.dump(spec, open(spath, "w"))
                ref = None
                for seed in seeds:
                    r = worker(["gen", spath], seed)
                    n += 1
                    ctx.case(("gen", sname, oname, seed))
                    runs = r["runs"]
                    if any("error" in x for x in runs):
                        # a source set the generator refuses must be refused the same way every time
                        kinds = {x.get("error", "ok").split(":")[0] for x in runs}
                        if len(kinds) > 1 or (ref is not None and ("error" in ref) != ("error" in runs[0])):
                            ctx.violation(f"{sname}/{oname}: generation succeeds in one run and fails in another (seed {seed}): {sorted(kinds)}", {"set": sname, "options": opts, "seed": seed})
                        if ref is None:
                            ref = runs[0]
                        continue
                    if runs[0] != runs[1]:
                        ctx.violation(f"{sname}/{oname}: two consecutive runs in one process (seed {seed}) differ in {_diff(runs[0], runs[1])}", {"set": sname, "options": opts, "seed": seed})
                    if ref is None:
                        ref = runs[0]
                    elif runs[0] != ref:
                        ctx.violation(f"{sname}/{oname}: PYTHONHASHSEED={seed} and {seeds[0]} generate different files: {_diff(ref, runs[0])}", {"set": sname, "options": opts, "seed": seed})
                spec["perturb"] = 5000
                json.dump(spec, open(spath, "w"))
                r = worker(["gen", spath], seeds[0])
                ctx.case(("gen-perturbed", sname, oname))
                if ref is not None and "error" not in r["runs"][0] and "error" not in ref and r["runs"][0] != ref:
                    ctx.violation(f"{sname}/{oname}: perturbed object addresses change the output: {_diff(ref, r['runs'][0])}", {"set": sname, "options": opts})
        ctx.extra["generations"] = n
        graph_generations(ctx, work, graphs)
        cli_routes(ctx, work, sets)
        cache_runs(ctx, work)
    finally:
        import shutil

        shutil.rmtree(work, ignore_errors=True)


def cache_runs(ctx, work):
    """Repeated runs with the --cache option: what an earlier run left in the cache (the same source files, listed in
    another order) must not change what this command generates."""
    def item(ns, extra):
        return (f'<xs:schema xmlns:xs="http://www.w3.org/2001/XMLSchema" targetNamespace="{ns}" xmlns:t="{ns}" elementFormDefault="qualified">'
                f'<xs:complexType name="Item"><xs:sequence><xs:element name="{extra}" type="xs:string"/></xs:sequence></xs:complexType>'
                f'<xs:element name="root_{extra}"><xs:complexType><xs:sequence><xs:element name="item" type="t:Item"/></xs:sequence></xs:complexType></xs:element></xs:schema>')

    files = {"a.xsd": item("urn:a", "a"), "b.xsd": item("urn:b", "b"), "c.xsd": item("urn:c", "c")}
    ab, ba = ["a.xsd", "b.xsd", "c.xsd"], ["c.xsd", "b.xsd", "a.xsd"]
    for style in ("clusters", "single-package", "namespaces"):
        spath = os.path.join(work, "cache.json")
        json.dump({"files": files, "style": style, "runs": [[ab, False], [ba, True], [ab, True], [ab, True], [ba, True], [ba, False]]}, open(spath, "w"))
        r = worker(["cachegen", spath], 0)["runs"]
        ctx.case(("cache-runs", style))
        if any("error" in x for x in r):
            ctx.violation(f"cache runs ({style}): generation failed: {[x.get('error') for x in r if 'error' in x][:2]}", {"style": style})
            continue
        if r[2] != r[0] or r[3] != r[0]:
            ctx.violation(f"cache runs ({style}): the same command gives other files after a cached run that listed the sources in another order: {_diff(r[0], r[2] if r[2] != r[0] else r[3])}",
                          {"style": style, "sources": files})
        if r[1] != r[5] or r[4] != r[5]:
            ctx.violation(f"cache runs ({style}): cached and uncached runs of the same command differ: {_diff(r[5], r[1] if r[1] != r[5] else r[4])}", {"style": style, "sources": files})


def graph_generations(ctx, work, graphs3):
    """Every TLC dependency graph as a real schema, generated with the cluster structure styles (module names
    and class order inside a module come from sort_classes / the strongly connected components) under several
    hash seeds: byte identity."""
    import random

    res = ctx.tlc("MC_Order", "run.cfg", workers=1,
                  extra_files={"run.cfg": "SPECIFICATION SpecGraphs\nCONSTANTS\n  Nodes = {1, 2, 3, 4}\nCONSTRAINT NoSelfLoops\nCONSTRAINT EmitGraph\nCHECK_DEADLOCK FALSE\n"},
                  label="Gen_Order graphs on 4 classes", tags=("GRAPH",), timeout=3000)
    g4 = {}
    for _t, g in res.printed:
        edges = {str(i + 1): e for i, e in enumerate(g["edges"])} if isinstance(g["edges"], list) else g["edges"]
        if all(int(k) not in v for k, v in edges.items()):
            g4[json.dumps(edges, sort_keys=True)] = {"edges": edges, "big": max(len(c) for c in g["sccs"])}
    g4 = list(g4.values())
    rnd = random.Random(ctx.seed)
    big = [g for g in g4 if g["big"] >= 3]
    rest = [g for g in g4 if g["big"] < 3]
    pick = g4 if not ctx.quick else rnd.sample(big, min(70, len(big))) + rnd.sample(rest, min(15, len(rest)))
    pick += [g for g in graphs3 if all(int(k) not in v for k, v in g["edges"].items())][: (64 if not ctx.quick else 20)]
    spath = os.path.join(work, "graphgen.json")
    json.dump({"graphs": pick, "styles": ["clusters", "namespace-clusters"]}, open(spath, "w"))
    ref = None
    seeds = ctx.pick((0, 1, 2), (0, 1, 2, 3, 4, 5, 6, 7))
    for seed in seeds:
        runs = worker(["graphgen", spath], seed)["runs"]
        for i, r in enumerate(runs):
            ctx.case(("graphgen", json.dumps(pick[i]["edges"], sort_keys=True), seed))
        if ref is None:
            ref = runs
            continue
        for i, (a, b) in enumerate(zip(ref, runs)):
            if a != b:
                ctx.violation(f"dependency graph {pick[i]['edges']} (cluster style): PYTHONHASHSEED={seed} and {seeds[0]} generate different files: {_diff(a, b)}",
                              {"graph": pick[i]["edges"], "seed": seed})
    ctx.extra["graph_generations"] = len(pick) * len(seeds)


def _diff(a, b):
    keys = sorted(set(a) | set(b))
    return [k for k in keys if a.get(k) != b.get(k)][:6]


def _hash_tree(d):
    import hashlib

    return {str(p.relative_to(d)): hashlib.sha256(p.read_bytes()).hexdigest() for p in sorted(Path(d).rglob("*.py"))}


def cli_routes(ctx, work, sets):
    """API vs `xsdata generate` with flags vs `xsdata generate --config file`."""
    if not os.path.isdir(os.path.join(REAL_CLICK, "click")):
        ctx.extra["cli_routes"] = "not covered: no real click in this sandbox"
        return
    shim_dir = os.path.join(work, "realclick")
    os.makedirs(shim_dir, exist_ok=True)
    os.symlink(os.path.join(REAL_CLICK, "click"), os.path.join(shim_dir, "click"))
    env = dict(os.environ)
    env["PYTHONPATH"] = shim_dir + ":" + env.get("PYTHONPATH", "")
    covered = 0
    for sname, files, main in sets[:4]:
        for flags, cfg_edit, api_opts in (
                (["--structure-style", "single-package", "--compound-fields"], {"CompoundFields": "true", "structure": "single-package"},
                 {"structure_style": "single-package", "compound_fields.enabled": True}),
                (["--structure-style", "clusters", "--docstring-style", "Google"], {"structure": "clusters", "docstring": "Google"},
                 {"structure_style": "clusters", "docstring_style": "Google"}),
                # another conflicting pair: generic collections need frozen=False
                (["--structure-style", "single-package", "--generic-collections", "--frozen"], {"structure": "single-package", "format": {"frozen": "true"}, "output": {"genericCollections": "true"}},
                 {"structure_style": "single-package", "generic_collections": True, "format.frozen": True}),
                # a pair of options that CONFLICT (order needs eq): every route has to resolve the conflict the same way
                (["--structure-style", "single-package", "--order", "--no-eq"], {"structure": "single-package", "format": {"order": "true", "eq": "false"}},
                 {"structure_style": "single-package", "format.order": True, "format.eq": False})):
            outs = {}
            spath = os.path.join(work, "apispec.json")
            json.dump({"files": files, "main": main, "options": api_opts, "repeat": 1, "pkg": "clipkg"}, open(spath, "w"))
            outs["api"] = worker(["gen", spath], 0)["runs"][0]
            for route in ("cli-flags", "cli-config"):
                d = tempfile.mkdtemp(prefix="xv-c12cli-", dir=work)
                os.mkdir(os.path.join(d, "src"))
                for name, src in files.items():
                    data = open(src, "rb").read() if src.startswith("/") else src.encode()
                    Path(d, "src", name).write_bytes(data)
                cmd = [sys.executable, "-m", "xsdata", "generate"]
                if route == "cli-flags":
                    cmd += ["--package", "clipkg", *flags]
                else:
                    p = subprocess.run([sys.executable, "-m", "xsdata", "init-config", "cfg.xml"], cwd=d, env=env, capture_output=True, text=True, timeout=300)
                    if p.returncode != 0:
                        ctx.extra["cli_routes"] = f"not covered: init-config failed: {p.stderr[-300:]}"
                        return
                    txt = Path(d, "cfg.xml").read_text()
                    txt = txt.replace("<Package>generated</Package>", "<Package>clipkg</Package>")
                    import re

                    txt = re.sub(r"<Structure>[^<]*</Structure>", f"<Structure>{cfg_edit['structure']}</Structure>", txt)
                    if "CompoundFields" in cfg_edit:
                        txt = re.sub(r"<CompoundFields([^>]*)>false</CompoundFields>", r"<CompoundFields\1>true</CompoundFields>", txt)
                    for attr, val in (cfg_edit.get("format") or {}).items():
                        txt = re.sub(r'(<Format\b[^>]*\b%s=")[^"]*(")' % attr, r"\g<1>%s\g<2>" % val, txt)
                    for attr, val in (cfg_edit.get("output") or {}).items():
                        txt = re.sub(r'(<Output\b[^>]*\b%s=")[^"]*(")' % attr, r"\g<1>%s\g<2>" % val, txt)
                    if "docstring" in cfg_edit:
                        txt = re.sub(r"<DocstringStyle>[^<]*</DocstringStyle>", f"<DocstringStyle>{cfg_edit['docstring']}</DocstringStyle>", txt)
                    # the file written by init-config also carries DEFAULT substitutions (e.g. class names ending in
                    # Class -> Type) that plain flags do not: "the same configuration" means without them
                    txt = re.sub(r"<Substitutions>.*?</Substitutions>", "<Substitutions/>", txt, flags=re.S)
                    Path(d, "cfg.xml").write_text(txt)
                    cmd += ["--config", "cfg.xml"]
                cmd += ["src/" + main[0] if len(main) == 1 else "src"]
                p = subprocess.run(cmd, cwd=d, env=env, capture_output=True, text=True, timeout=600)
                if p.returncode != 0:
                    outs[route] = {"error": p.stderr[-400:]}
                else:
                    outs[route] = _hash_tree(d)
                    outs[route].pop("cfg.xml", None)
            ctx.case(("cli", sname, " ".join(flags)))
            covered += 1
            api = outs["api"]
            if "error" not in api and "error" not in outs["cli-flags"] and api != outs["cli-flags"]:
                ctx.violation(f"{sname}: the API and the CLI with flags {flags} generate different files: {_diff(api, outs['cli-flags'])}", {"set": sname, "flags": flags})
            a, b = outs["cli-flags"], outs["cli-config"]
            if "error" in a or "error" in b:
                if ("error" in a) != ("error" in b):
                    ctx.violation(f"{sname}: CLI with flags and CLI with a config file disagree on success: {a if 'error' in a else b}", {"set": sname, "flags": flags})
                continue
            if a != b:
                ctx.violation(f"{sname}: CLI flags {flags} and the equivalent config file generate different files: {_diff(a, b)}", {"set": sname, "flags": flags})
    # a DIRECTORY as the source: the files are processed in sorted order whatever order the file system lists them in (eight
    # namespaces that each define Item: with one package the duplicates are numbered in processing order)
    dfiles = {f"s{i}.xsd": _ns_schema(f"urn:n{i}", f'<xs:element name="k{i}" type="xs:int"/>') for i in range(8)}
    spath = os.path.join(work, "apispec.json")
    json.dump({"files": dfiles, "main": sorted(dfiles), "options": {"structure_style": "single-package"}, "repeat": 1, "pkg": "clipkg"}, open(spath, "w"))
    api = worker(["gen", spath], 0)["runs"][0]
    for label, order in (("written first to last", sorted(dfiles)), ("written last to first", sorted(dfiles, reverse=True)),
                         ("written in a mixed order", sorted(dfiles, key=lambda n: (int(n[1]) * 5) % 8))):
        d = tempfile.mkdtemp(prefix="xv-c12dir-", dir=work)
        os.mkdir(os.path.join(d, "src"))
        for name in order:
            Path(d, "src", name).write_text(dfiles[name])
        p = subprocess.run([sys.executable, "-m", "xsdata", "generate", "--package", "clipkg", "--structure-style", "single-package", "src"],
                           cwd=d, env=env, capture_output=True, text=True, timeout=600)
        ctx.case(("cli-directory", label))
        covered += 1
        got = {"error": p.stderr[-400:]} if p.returncode != 0 else _hash_tree(d)
        if "error" in got or "error" in api:
            if ("error" in got) != ("error" in api):
                ctx.violation(f"directory source ({label}): the CLI and the API disagree on success: {got if 'error' in got else api}", {"order": order})
        elif got != api:
            ctx.violation(f"directory source ({label}): the CLI generates other files than the API on the same (sorted) sources: {_diff(api, got)}", {"order": order})
    # a project file in the DOCUMENTED layout (a committed copy of what `xsdata init-config` of the pinned release
    # writes, every option set to a non-default value) against the same options passed through the API
    fixture = Path(__file__).resolve().parent.parent / "fixtures" / "config_all_options.xml"
    api_all = {"max_line_length": 100, "generic_collections": True, "format.repr": False, "format.order": True, "format.frozen": True, "format.slots": True,
               "structure_style": "clusters", "docstring_style": "Google", "relative_imports": True, "compound_fields.enabled": True,
               "compound_fields.default_name": "pick", "compound_fields.force_default_name": True, "compound_fields.max_name_parts": 2,
               "wrapper_fields": True, "unnest_classes": True, "ignore_patterns": True}
    # two variants: as committed (generic collections AND frozen: a conflict every route has to resolve alike - F53) and
    # without the conflict (frozen off: generic collections stay on)
    variants = [(fixture.read_text(), api_all), (fixture.read_text().replace('frozen="true"', 'frozen="false"'), {**api_all, "format.frozen": False})]
    for sname, files, main in [x for x in sets if x[0] in ("compound", "wildcard-lists", "primer")]:
      for cfg_text, api_opts in variants:
          spath = os.path.join(work, "apispec.json")
          json.dump({"files": files, "main": main, "options": api_opts, "repeat": 1, "pkg": "clipkg"}, open(spath, "w"))
          api = worker(["gen", spath], 0)["runs"][0]
          d = tempfile.mkdtemp(prefix="xv-c12cfg-", dir=work)
          os.mkdir(os.path.join(d, "src"))
          for name, src in files.items():
              Path(d, "src", name).write_bytes(open(src, "rb").read() if src.startswith("/") else src.encode())
          Path(d, "cfg.xml").write_text(cfg_text)
          p = subprocess.run([sys.executable, "-m", "xsdata", "generate", "--config", "cfg.xml", "src/" + main[0] if len(main) == 1 else "src"],
                             cwd=d, env=env, capture_output=True, text=True, timeout=600)
          ctx.case(("config-fixture", sname, api_opts["format.frozen"]))
          if p.returncode != 0:
              if "error" not in api:
                  ctx.violation(f"{sname}: the documented project file is refused although the same options work through the API: {p.stderr[-300:]}", {"set": sname})
              continue
          got = _hash_tree(d)
          got.pop("cfg.xml", None)
          if "error" in api:
              ctx.violation(f"{sname}: the API refuses options the project file route accepts: {api['error']}", {"set": sname})
          elif got != api:
              ctx.violation(f"{sname}: a project file in the documented layout and the same options through the API generate different files: {_diff(api, got)}", {"set": sname})
    ctx.extra["cli_routes"] = f"covered: {covered} flag/config pairs + the documented project file"


def replay(ctx, doc):
    print(doc["what"])
    print(doc["case"])
