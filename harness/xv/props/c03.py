"""C03 - serialised XML is well formed and says what the metadata says.

(a) writer level: spec/Writer.tla explored exhaustively by TLC (MC_Writer), its behaviours
    replayed into the real writers (Gen_Writer), and recorded executions of the real
    serializer validated against it (Trace_Writer) with the namespace-well-formedness
    invariants evaluated in every state.
(b) metadata level: spec/RoundTrip.tla `Prescribed` (see roundtrip_bind) compared with the
    real output through the independent expat reading.
"""
from __future__ import annotations

import json

from xsdata.exceptions import ConverterError, SerializerError, XmlContextError, XmlWriterError
from xsdata.formats.dataclass.context import XmlContext
from xsdata.formats.dataclass.serializers import XmlSerializer
from xsdata.formats.dataclass.serializers.config import SerializerConfig

from .. import roundtrip_bind as rb
from .. import writer_bind as wb
from .. import zoo
from ..policy import writer_cfg

ALLOWED = (SerializerError, XmlWriterError, ConverterError, XmlContextError)


def classify_exc(ex) -> str | None:
    """None when the exception is one the property allows."""
    return None if isinstance(ex, ALLOWED) else f"{type(ex).__name__}: {ex}"


def finding_tags(spec_bad_native, spec_bad_lxml, events) -> list[str]:
    tags = []
    bad = set(spec_bad_native or []) | set(spec_bad_lxml or [])
    if "text-outside-root" in bad:
        tags.append("F12")
    return tags


def second_data_in_root(events) -> bool:
    """Selector of F12 computed from the events alone: the root element receives a second
    non-empty DATA with no child element closed in between."""
    depth = 0
    in_tail = False
    for e in events:
        if e["ev"] == "start":
            depth += 1
            in_tail = False
        elif e["ev"] == "end":
            depth -= 1
            in_tail = False
        elif e["ev"] == "data":
            v = e["value"]
            truthy = not (v["t"] == "none" or (v["t"] == "str" and v["s"] == "") or (v["t"] == "list" and not v["items"]))
            if depth == 1 and in_tail and truthy:
                return True
            in_tail = True
    return False


def replay_writer_case(ctx, case, backends=("native", "lxml")):
    """Spec -> code: one TLC-generated receiver-call sequence against the real writers."""
    events = case["events"]
    real_events = [wb.concrete_event(e) for e in events]
    results = {}
    for be in backends:
        for indent in (None, "  ") if case.get("indent_both") else ((("  ") if case.get("indent") else None),):
            run = wb.record_run(be, case["raw"], real_events, indent=indent)
            tags = ["F12"] if second_data_in_root(events) else []
            info = {"case": case, "backend": be, "indent": indent, "finding_tags": tags}
            if run["exc"] is not None:
                why = classify_exc(run["exc"])
                if why:
                    ctx.violation(f"writer {be}: exception outside the serializer errors: {why}", info)
                results[be] = ("exc", type(run["exc"]).__name__)
                continue
            why = wb.check_names(run["text"], events)
            if why:
                info["text"] = run["text"]
                ctx.violation(f"writer {be}: {why}", info)
            results[be] = ("ok", run["text"])
            # advisory: SAX calls of the real writer vs the specification's `out`
            if indent is None and not case.get("indent"):
                spec_calls = [_project(c) for c in case["out"]]
                if spec_calls != run["calls"]:
                    ctx.divergences.append({"backend": be, "um": case.get("um"), "events": events,
                                            "spec": spec_calls[:12], "real": run["calls"][:12]})
    return results


def _project(c):
    c = dict(c)
    c.pop("uses", None)
    if c["op"] == "startElementNS":
        c["attrs"] = [{"name": a["name"], "value": a["value"]} for a in c["attrs"]]
        c = {"op": c["op"], "name": c["name"], "attrs": c["attrs"]}
    elif c["op"] == "characters":
        c = {"op": c["op"], "data": c["data"]}
    elif c["op"] == "startPrefixMapping":
        c = {"op": c["op"], "prefix": c["prefix"], "uri": c["uri"]}
    elif c["op"] == "endPrefixMapping":
        c = {"op": c["op"], "prefix": c["prefix"]}
    elif c["op"] == "endElementNS":
        c = {"op": c["op"], "name": c["name"]}
    return c


def tolerated(ctx) -> list[str]:
    tags = []
    for f in ctx.findings:
        if f.get("status") == "open":
            tags += f.get("spec_tags", [])
    return tags


def trace_validate(ctx, traces: list[dict], label: str):
    """Code -> spec: validate recorded writer executions with TLC."""
    if not traces:
        return
    nd = "\n".join(wb.dumps(t) for t in traces) + "\n"
    res = ctx.tlc(
        "Trace_Writer",
        "Trace_Writer_run.cfg",
        workers=1,
        extra_files={"traces.ndjson": nd, "Trace_Writer_run.cfg": writer_cfg("trace")},
        env={"TRACE_FILE": "traces.ndjson"},
        label=label,
        tags=("BAD", "REJECT"),
        timeout=1200,
    )
    by_id = {t["id"]: t for t in traces}
    rejected = set()
    bad_seen = set()
    for tag, payload in res.printed:
        t = by_id.get(payload["id"])
        if tag == "REJECT":
            rejected.add(payload["id"])
            ctx.divergences.append({"trace": payload["id"], "matched": payload["matched"], "of": payload["of"],
                                    "next": t["steps"][payload["matched"]] if payload["matched"] < len(t["steps"]) else None,
                                    "meta": t.get("meta")})
        elif tag == "BAD":
            key = (payload["id"], tuple(payload["bad"]))
            if key in bad_seen:
                continue
            bad_seen.add(key)
            # invariant of the specification violated on a *validated* prefix of a real execution
            events = [s["ev"] for s in t["steps"]]
            tags = ["F12"] if set(payload["bad"]) <= {"text-outside-root"} and second_data_in_root(events) else []
            ctx.violation(
                f"recorded execution of the real writer ({payload['backend']}) violates {sorted(payload['bad'])} at step {payload['step']}",
                {"trace": {k: t[k] for k in ("id", "raw", "indent", "lxml", "meta")}, "events": events[: payload["step"] + 1],
                 "finding_tags": tags},
            )
    ctx.traces_validated += len(traces) - len(rejected)
    ctx.extra["traces_rejected"] = ctx.extra.get("traces_rejected", 0) + len(rejected)


def record_serializer_traces(ctx, n, seed):
    """Real XmlSerializer runs over the model zoo x hostile prefix maps x both writers."""
    traces = []
    xctx = XmlContext()
    gen_ser = XmlSerializer(context=xctx, config=SerializerConfig(xml_declaration=False))
    k = 0
    for obj in zoo.instances(seed, n):
        raw_py = zoo.HOSTILE_MAPS[k % len(zoo.HOSTILE_MAPS)]
        raw = wb.abstract_map(raw_py)
        be = ("native", "lxml")[(k // len(zoo.HOSTILE_MAPS)) % 2]
        indent = "  " if (k % 5 == 0 and be == "native") else None
        k += 1
        try:
            events = list(gen_ser.generate(obj))
        except ALLOWED as ex:
            # every zoo instance is a legal value of its model: a refusal is reported, never skipped
            ctx.violation(f"zoo: the serializer refused a legal {type(obj).__name__} instance with {type(ex).__name__}: {ex}", {"obj": repr(obj)[:1500]})
            continue
        run = wb.record_run(be, raw, events, indent=indent)
        abstract_events = [s["ev"] for s in run["steps"]]
        ctx.case(("trace", type(obj).__name__, wb.dumps(abstract_events)[:4000], wb.dumps(raw), be))
        info = {"model": type(obj).__name__, "obj": repr(obj)[:1500], "ns_map": repr(raw_py), "backend": be,
                "finding_tags": ["F12"] if second_data_in_root(abstract_events) else []}
        if run["exc"] is not None:
            why = classify_exc(run["exc"])
            if why:
                ctx.violation(f"XmlSerializer.render ({be}) raised outside the serializer errors: {why}", info)
        else:
            why = wb.check_names(run["text"], abstract_events)
            if why:
                info["text"] = run["text"][:2000]
                ctx.violation(f"XmlSerializer.render ({be}): {why}", info)
        steps = [{"ev": s["ev"], "calls": s["calls"]} for s in run["steps"] if "raised" not in s]
        traces.append({"id": f"zoo-{seed}-{k}", "raw": raw, "indent": bool(indent) and be == "native", "lxml": be == "lxml",
                       "steps": steps, "meta": {"model": type(obj).__name__, "backend": be}})
        if len(ctx.samples) < 3:
            ctx.sample({"kind": "recorded-trace", "model": type(obj).__name__, "ns_map": repr(raw_py), "backend": be,
                        "first_steps": steps[:3]})
    return traces


def run(ctx):
    ctx.rule = (
        "TLC: all well-nested receiver-call sequences within the MC_Writer constants x 14 hostile user prefix maps, "
        "invariants NativeWellFormed/LxmlWellFormed/Slots in every state; every completed behaviour is replayed into the "
        "real XmlEventWriter and LxmlEventWriter (decisive: expat accepts the text and every element, attribute and QName "
        "value is in the namespace asked for); real XmlSerializer executions over the model zoo are recorded and validated "
        "by TLC against Trace_Writer; (b) every (model, instance) of the RoundTrip universe is serialised by both writers under 7 "
        "configurations and hostile prefix maps and the independent expat reading of the text is compared with Prescribed(model, "
        "instance) of RoundTrip.tla. A case is non-trivial when it is a distinct (event sequence, prefix map, backend) or (model, instance)."
    )
    ctx.assumptions += [
        "xml.sax.saxutils.XMLGenerator and lxml.sax.ElementTreeContentHandler behave as their contracts in Writer.tla (checked on every replay through the rendered text)",
        "pyexpat reports the XML infoset",
        "EventGenerator emits attributes and QName-valued data only while the start tag is pending (checked on recorded traces)",
    ]
    tol = tolerated(ctx)
    # 1. exhaustive model checking of the writer design
    mc = ctx.pick(dict(depth=2, events=6, attrs=1, indents="{FALSE}"), dict(depth=3, events=7, attrs=2, indents="{FALSE, TRUE}"))
    res = ctx.tlc("MC_Writer", "MC_Writer_run.cfg", extra_files={"MC_Writer_run.cfg": writer_cfg("mc", tolerated=tol, **mc)},
                  label="MC_Writer exhaustive", timeout=3000)
    ctx.exhaustive = True
    ctx.extra["mc_constants"] = mc
    # 2. behaviours -> real writers
    gen = ctx.pick(dict(depth=2, events=5, attrs=1, indents="{FALSE}"), dict(depth=2, events=6, attrs=1, indents="{FALSE}"))
    res = ctx.tlc("MC_Writer", "Gen_Writer_run.cfg", workers=1, extra_files={"Gen_Writer_run.cfg": writer_cfg("gen", **gen)},
                  label="Gen_Writer behaviours", tags=("CASE",), timeout=3000)
    for _tag, case in res.printed:
        ctx.case(("gen", wb.dumps(case["events"]), case["um"]))
        case["indent_both"] = True
        replay_writer_case(ctx, case)
        if len(ctx.samples) < 2:
            ctx.sample({"kind": "tlc-behaviour", "user_map": case["raw"], "events": case["events"]})
    ctx.extra["behaviours_replayed"] = len(res.printed)
    # 2b. random walks in a larger configuration
    sim = ctx.pick(dict(num=400, depth=9), dict(num=6000, depth=12))
    res = ctx.tlc("MC_Writer", "Sim_Writer_run.cfg", workers=1, simulate=f"num={sim['num']}", depth=sim["depth"],
                  extra_files={"Sim_Writer_run.cfg": writer_cfg("gen", depth=4, events=sim["depth"], attrs=2, indents="{FALSE}")},
                  label="Gen_Writer simulate", tags=("CASE",), timeout=3000)
    for _tag, case in res.printed:
        ctx.case(("gen", wb.dumps(case["events"]), case["um"]))
        replay_writer_case(ctx, case)
    ctx.extra["behaviours_replayed"] += len(res.printed)
    # 3. recorded executions of the real serializer -> TLC
    n = ctx.pick(280, 4000)
    traces = record_serializer_traces(ctx, n, ctx.seed)
    for i in range(0, len(traces), 1500):
        trace_validate(ctx, traces[i:i + 1500], f"Trace_Writer zoo batch {i // 1500}")
    # 4. metadata level (b)
    from .. import rt_engine as rt

    cases = rt.generate(ctx, label="Gen_RoundTrip prescribed documents, 1 field", max_fields=1, faults=("none",), cfgs="StrictOnly")
    cases += rt.generate(ctx, label="Gen_RoundTrip prescribed documents, 2 fields (simulate)", max_fields=2, faults=("none",),
                         cfgs="StrictOnly", simulate=ctx.pick(1200, 25000))
    # sequence groups: a plain list next to the members of TWO groups (numbers 1 and 2), up to three fields, exhaustive
    cases += rt.generate(ctx, label="Gen_RoundTrip sequence groups (3 fields, exhaustive)", max_fields=3, faults=("none",), cfgs="StrictOnly",
                         cats="{3, 14, 15, 28, 29}", limit=ctx.pick(1500, None))
    for k, case in enumerate(cases):
        ctx.case(("prescribed", str(case["m"]), str(case["inst"])))
        rt.check_roundtrip(ctx, case, ns_maps=rt.NS_MAPS if k % 3 == 0 else (None,), handlers=(), want=("C03",))
    if cases:
        c = cases[len(cases) // 2]
        ctx.sample({"kind": "prescribed-document", "fields": [f"{f['name']}:{f['kind']}:{f['tp']}:{f['card']}" for f in c["m"]["fields"]],
                    "instance": c["inst"], "prescribed": c["doc"]})
    ctx.extra["prescribed_documents_compared"] = len(cases)
    # compound (Elements) fields: the element NAME each value is written under is prescribed by spec/Compound.tla
    from .. import compound_bind

    compound_bind.run_phase(ctx, documents_only=True)
    anytype_markers(ctx)
    inherited_namespaces(ctx)
    qname_enumerations(ctx)


def replay(ctx, doc):
    case = doc["case"]
    if "case" in case:
        replay_writer_case(ctx, case["case"], backends=(case["backend"],))
    else:
        print("replay of recorded-trace cases: re-run the check with the same seed:", doc.get("seed"))
        print(json.dumps(case, indent=1)[:3000])


def qname_enumerations(ctx):
    """An enumeration whose members are QNames (xs:QName / NOTATION enumerations, SOAP fault codes): wherever a member is
    written - element text, attribute, token list - it is a LEXICAL QName whose prefix is in scope and names the member's
    namespace.  Read with the independent infoset parser."""
    from dataclasses import dataclass, field
    from enum import Enum
    from typing import List, Optional
    from xml.etree.ElementTree import QName

    from .. import infoset

    from ..poly_models import QCode as Code
    from ..poly_models import QFault as Fault

    def expanded(member):
        q = member.value.text
        return tuple(q[1:].split("}", 1)) if q.startswith("{") else ("", q)

    xctx = XmlContext()
    for codes in ([Code.SENDER, Code.OTHER], [Code.OTHER, Code.SENDER], [Code.LOCAL, Code.SENDER]):
        obj = Fault(code=codes[0], sub=list(codes), toks=list(codes), kind=codes[1])
        for be in ("native", "lxml"):
            for nm in (None, {None: "urn:codes"}, {"c": "urn:codes", "o": "urn:other"}, {"ns0": "urn:other"}):
                if Code.LOCAL in codes and nm and None in nm:
                    continue        # (an unprefixed QName VALUE under a default namespace has no spelling without it)
                ctx.case(("qname-enum", tuple(c.name for c in codes), be, repr(nm)))
                info = {"object": repr(obj), "backend": be, "ns_map": repr(nm)}
                try:
                    text = rb.render(obj, xctx, be, ns_map=dict(nm) if nm else None)
                    root = infoset.parse(text)
                except Exception as ex:  # noqa: BLE001
                    ctx.violation(f"QName enumeration: render / re-read failed ({be}): {type(ex).__name__}: {ex}", info)
                    continue
                got = []
                for el in infoset.elements(root):
                    txt = "".join(c for c in el["content"] if isinstance(c, str))
                    if el["name"][1] in ("code", "sub"):
                        got.append((el["name"][1], [infoset.resolve_qname(txt, el["nsmap"])]))
                    elif el["name"][1] == "toks":
                        got.append(("toks", [infoset.resolve_qname(t, el["nsmap"]) for t in txt.split()]))
                kind = infoset.resolve_qname(root["attrs"].get(("", "kind"), ""), root["nsmap"])      # (QName VALUES take the default namespace, also in attributes)
                want = [("code", [expanded(codes[0])])] + [("sub", [expanded(c)]) for c in codes] + [("toks", [expanded(c) for c in codes])]
                if got != want or kind != expanded(codes[1]):
                    ctx.violation(f"QName enumeration members written as {got} / attribute {kind}; the members are {want} / {expanded(codes[1])}: {text}"[:900], {**info, "text": text})


def anytype_markers(ctx):
    """xs:anyType element fields (typed `object`): a value that is not a string carries an xsi:type marker naming a
    built-in type whose lexical space holds the text written - whatever the value, the falsy ones included; a string
    carries none.  Read with the independent infoset parser."""
    import xml.etree.ElementTree as ET
    from decimal import Decimal

    from xsdata.models.datatype import XmlDate

    from ..poly_models import AnyHolder

    XSI_TYPE = "{http://www.w3.org/2001/XMLSchema-instance}type"
    XS = "http://www.w3.org/2001/XMLSchema"
    numeric = {"short", "int", "integer", "long", "byte", "unsignedByte", "unsignedShort", "unsignedInt", "unsignedLong", "nonNegativeInteger",
               "positiveInteger", "negativeInteger", "nonPositiveInteger", "decimal", "float", "double"}
    values = [0, 5, -7, False, True, 0.0, 1.5, Decimal("0"), Decimal("1.50"), XmlDate(2020, 2, 29), "", "s", "0"]
    xctx = XmlContext()
    for be in ("native", "lxml"):
        for nm in (None, {None: "urn:d"}, {"xs": "urn:not-xs"}):
            obj = AnyHolder(v=values[0], w=list(values), last="z")
            try:
                text = rb.render(obj, xctx, be, ns_map=dict(nm) if nm else None)
                root = ET.fromstring(text)
            except Exception as ex:  # noqa: BLE001
                ctx.violation(f"anyType markers: render / re-read failed ({be}): {type(ex).__name__}: {ex}", {"backend": be, "ns_map": repr(nm)})
                continue
            # prefix -> namespace as declared anywhere in the document (the writer declares on demand)
            import re

            decls = dict(re.findall(r'xmlns:([A-Za-z0-9_]+)="([^"]*)"', text))
            els = [e for e in root if e.tag.rpartition("}")[2] == "w"]
            for val, el in zip(values, els):
                ctx.case(("anytype-marker", be, repr(nm), repr(val)))
                marker = el.get(XSI_TYPE)
                info = {"backend": be, "ns_map": repr(nm), "value": repr(val), "text": text}
                if isinstance(val, str):
                    if marker is not None and marker.rpartition(":")[2] != "string":
                        ctx.violation(f"anyType element holding the string {val!r} carries xsi:type={marker!r}", info)
                    continue
                if marker is None:
                    ctx.violation(f"anyType element holding {val!r} ({type(val).__name__}) carries no xsi:type marker: {ET.tostring(el, encoding='unicode')}", info)
                    continue
                pfx, _, local = marker.rpartition(":")
                if decls.get(pfx) != XS:
                    ctx.violation(f"xsi:type marker {marker!r} of {val!r}: prefix {pfx!r} is not bound to the XML Schema namespace ({decls.get(pfx)!r})", info)
                want = {bool: {"boolean"}, int: numeric - {"decimal", "float", "double"}, float: {"float", "double"}, Decimal: {"decimal"}, XmlDate: {"date"}}[type(val)]
                if local not in want:
                    ctx.violation(f"xsi:type marker {marker!r} of {val!r} ({type(val).__name__}) does not name a type of its kind", info)


def inherited_namespaces(ctx):
    """A field is written in the namespace of the class that DECLARES it (Meta.namespace of that class), also when a
    subclass with another namespace is serialised: elements, wrapper elements and attributes alike.  The expectation
    is read off the classes by walking the MRO, the output with ElementTree."""
    import dataclasses
    import xml.etree.ElementTree as ET
    from dataclasses import dataclass, field
    from typing import List, Optional

    from ..poly_models import NBase, NLeaf, NMid

    def declared_ns(cls, fname):
        for k in cls.__mro__:
            if fname in k.__dict__.get("__annotations__", {}):
                return k.Meta.namespace
        raise KeyError(fname)

    xctx = XmlContext()
    for cls in (NBase, NMid, NLeaf):
        obj = cls(name="n", tags=["a", "b"], code="c", **({"level": 2} if cls is not NBase else {}), **({"extra": "e", "name2": "o"} if cls is NLeaf else {}))
        want = [f"{{{declared_ns(cls, 'name')}}}name", f"{{{declared_ns(cls, 'tags')}}}tags"]
        if cls is not NBase:
            want.append(f"{{{declared_ns(cls, 'level')}}}level")
        if cls is NLeaf:
            want += [f"{{{declared_ns(cls, 'extra')}}}extra", "{urn:own}name2"]
        for be in ("native", "lxml"):
            for nm in (None, {None: "urn:base"}, {"b": "urn:leaf", None: "urn:mid"}):
                ctx.case(("inherited-ns", cls.__name__, be, repr(nm)))
                try:
                    text = rb.render(obj, xctx, be, ns_map=dict(nm) if nm else None)
                    root = ET.fromstring(text)
                except Exception as ex:  # noqa: BLE001
                    ctx.violation(f"inherited namespaces: render / re-read failed ({be}): {type(ex).__name__}: {ex}", {"class": cls.__name__})
                    continue
                got = [e.tag for e in root]
                info = {"class": cls.__name__, "backend": be, "ns_map": repr(nm), "text": text}
                if root.tag != f"{{{cls.Meta.namespace}}}{cls.__name__}" or got != want:
                    ctx.violation(f"{cls.__name__}: children written as {got} under {root.tag}; the classes that declare the fields prescribe {want}", info)
                items = [e.tag for e in root.find(f"{{{declared_ns(cls, 'tags')}}}tags") or []]
                if items and items != [f"{{{declared_ns(cls, 'tags')}}}tag"] * 2:
                    ctx.violation(f"{cls.__name__}: wrapped items written as {items}", info)
                if root.get("{urn:base}code") != "c":
                    ctx.violation(f"{cls.__name__}: attribute code not written in its declared namespace: {root.attrib}", info)
    # a subclass WITHOUT a Meta of its own: Meta is not inherited - its element / type name is the class name, without
    # namespace; as the value of a base-typed field it is announced as xsi:type="NPlain"
    from ..poly_models import NHolder, NPlain

    XSI_TYPE = "{http://www.w3.org/2001/XMLSchema-instance}type"
    obj = NPlain(name="n", tags=["a"], level=1, more="m")
    for be in ("native", "lxml"):
        for nm in (None, {None: "urn:base"}, {"b": "urn:mid"}):
            ctx.case(("meta-not-inherited", be, repr(nm)))
            try:
                root = ET.fromstring(rb.render(obj, xctx, be, ns_map=dict(nm) if nm else None))
                held = ET.fromstring(rb.render(NHolder(item=obj), xctx, be, ns_map=dict(nm) if nm else None))
            except Exception as ex:  # noqa: BLE001
                ctx.violation(f"subclass without Meta: render / re-read failed ({be}): {type(ex).__name__}: {ex}", {"class": "NPlain"})
                continue
            got = [e.tag for e in root]
            if root.tag != "NPlain" or got != ["{urn:base}name", "{urn:base}tags", "{urn:mid}level", "more"]:
                ctx.violation(f"subclass without Meta written as {root.tag} with children {got}; Meta is not inherited: NPlain with {{urn:base}}name, {{urn:base}}tags, {{urn:mid}}level, more", {"backend": be, "ns_map": repr(nm)})
            item = held.find("{urn:base}item")
            if item is None or (item.get(XSI_TYPE) or "").split(":")[-1] != "NPlain":
                ctx.violation(f"subclass without Meta in a base-typed field announced as {None if item is None else item.get(XSI_TYPE)!r}, its type name is NPlain", {"backend": be, "ns_map": repr(nm)})
