"""C04 - JSON and dictionary round trip.

spec/Dict.tla: the documented dictionary form of every (model, instance) of the RoundTrip
universe (Encode), the None-filtering factory (FilterNone), JsonNative and Decodable as
invariants checked by TLC.  Binding: the real DictEncoder's output is compared with Encode
(advisory), must contain JSON-native values only and survive json.dumps/json.loads, and
DictDecoder / JsonParser must give back the original object for both factories (decisive).
The model zoo adds richer models (enums, Decimal, bytes, dates, unions, lists of models).
"""
from __future__ import annotations

import json
import math

from xsdata.formats.dataclass.context import XmlContext
from xsdata.formats.dataclass.parsers import DictDecoder, JsonParser
from xsdata.formats.dataclass.serializers import DictEncoder, JsonSerializer
from xsdata.formats.dataclass.serializers.dict import DictFactory

from .. import rt_engine as rt
from .. import zoo
from .c01 import _eq

# every catalogue entry except 10: a Base-typed field holding a Base or a Derived instance is not
# representable in the dictionary form (no type marker), so it is outside the property's domain
CATS = "{" + ",".join(str(i) for i in range(1, 30) if i != 10) + "}"
NATIVE = (dict, list, tuple, str, int, float, bool, type(None))


def native_only(x, path="$"):
    if not isinstance(x, NATIVE):
        return f"{path}: {type(x).__name__}"
    if isinstance(x, dict):
        for k, v in x.items():
            if not isinstance(k, str):
                return f"{path}: key {k!r} is {type(k).__name__}"
            w = native_only(v, f"{path}.{k}")
            if w:
                return w
    elif isinstance(x, (list, tuple)):
        for i, v in enumerate(x):
            w = native_only(v, f"{path}[{i}]")
            if w:
                return w
    return None


def to_py(j):
    k = j["j"]
    if k == "null":
        return None
    if k == "str":
        return j["s"]
    if k == "num":
        return j["n"]
    if k == "bool":
        return j["b"]
    if k == "arr":
        return [to_py(x) for x in j["items"]]
    return {e[0]: to_py(e[1]) for e in j["kv"]}


def none_without_default(obj, message: str) -> bool:
    """Selector of F41: every argument the constructor misses is a field WITHOUT a default that holds None (the
    None-filtering factory dropped its key), here or in a nested model."""
    import dataclasses
    import re

    missing = set(re.findall(r"'(\w+)'", message))

    def walk(o):
        if dataclasses.is_dataclass(o) and not isinstance(o, type):
            names = {f.name for f in dataclasses.fields(o)
                     if f.default is dataclasses.MISSING and f.default_factory is dataclasses.MISSING and getattr(o, f.name) is None}
            if missing and missing <= names and type(o).__name__ in message:
                return True
            return any(walk(getattr(o, f.name)) for f in dataclasses.fields(o))
        if isinstance(o, (list, tuple)):
            return any(walk(x) for x in o)
        return False

    return walk(obj)


def roundtrip(ctx, obj, clazz, xctx, info, spec_enc=None, spec_encf=None):
    for fname, factory in (("dict", dict), ("filter-none", DictFactory.FILTER_NONE)):
        try:
            enc = DictEncoder(context=xctx, dict_factory=factory).encode(obj)
        except Exception as ex:  # noqa: BLE001
            ctx.violation(f"DictEncoder ({fname}) raised {type(ex).__name__}: {ex}", info)
            continue
        why = native_only(enc)
        if why:
            ctx.violation(f"encoded form ({fname}) holds a non JSON-native value at {why}", {**info, "enc": repr(enc)[:800]})
            continue
        try:
            text = json.dumps(enc)
            loaded = json.loads(text)
        except Exception as ex:  # noqa: BLE001
            ctx.violation(f"json.dumps of the encoded form ({fname}) failed: {ex}", {**info, "enc": repr(enc)[:800]})
            continue
        spec = spec_enc if fname == "dict" else spec_encf
        if spec is not None and loaded != to_py(spec):
            ctx.divergences.append({"kind": "encode", "factory": fname, "real": loaded, "spec": to_py(spec)})
        for via, data in (("decode(enc)", enc), ("decode(json.loads(json.dumps(enc)))", loaded)):
            try:
                back = DictDecoder(context=xctx).decode(data, clazz)
            except Exception as ex:  # noqa: BLE001
                tags = info.get("finding_tags", []) if fname == "filter-none" else []
                if fname == "filter-none" and type(ex).__name__ == "ParserError" and "missing" in str(ex) and none_without_default(obj, str(ex)):
                    tags = tags + ["F41"]
                ctx.violation(f"{via} ({fname}) raised {type(ex).__name__}: {ex}", {**info, "enc": repr(enc)[:800], "finding_tags": tags})
                continue
            if not _eq(back, obj):
                ctx.violation(f"{via} ({fname}) gives {repr(back)[:300]} instead of the original", {**info, "enc": repr(enc)[:800], "finding_tags": []})
    try:
        text = JsonSerializer(context=xctx).render(obj)
        back = JsonParser(context=xctx).from_string(text, clazz)
        if not _eq(back, obj):
            ctx.violation(f"JsonParser(JsonSerializer.render(o)) gives {repr(back)[:300]}", {**info, "json": text[:800]})
        arr = JsonSerializer(context=xctx).render([obj, obj])
        back = JsonParser(context=xctx).from_string(arr, list[clazz])
        if not (isinstance(back, list) and len(back) == 2 and _eq(back[0], obj)):
            ctx.violation(f"list-of-models document does not round-trip: {repr(back)[:300]}", {**info, "json": arr[:800]})
    except Exception as ex:  # noqa: BLE001
        ctx.violation(f"JSON round trip raised {type(ex).__name__}: {ex}", info)


def run(ctx):
    ctx.rule = (
        "TLC: Encode / FilterNone of every (model, instance) of the RoundTrip universe, invariants JsonNative and Decodable. "
        "Real code: DictEncoder vs Encode, JSON-native check, json dumps/loads, DictDecoder and JsonParser back to the object for "
        "the dict and None-filtering factories and for list-of-models documents; model zoo. A case is a distinct (model, instance)."
    )
    mf = ctx.pick(1, 2)
    base = rt.cfg_text(max_fields=mf, faults=("none",), cfgs="StrictOnly", kid_nss='{"__none__"}', cats=CATS).replace("SPECIFICATION Spec", "SPECIFICATION DSpec").replace("VIEW View\n", "")
    ctx.tlc("MC_Dict", "run.cfg", extra_files={"run.cfg": base.replace("CHECK_DEADLOCK", "INVARIANT InvJsonNative\nINVARIANT InvDecodable\nCHECK_DEADLOCK")},
            label=f"MC_Dict {mf} field(s)", timeout=3000)
    ctx.exhaustive = True
    cases = []
    for mfields, sim in ((1, None), (2, ctx.pick(1500, 30000))):
        cfg = rt.cfg_text(max_fields=mfields, faults=("none",), cfgs="StrictOnly", kid_nss='{"__none__"}', cats=CATS).replace("SPECIFICATION Spec", "SPECIFICATION DSpec").replace("VIEW View\n", "")
        cfg = cfg.replace("CHECK_DEADLOCK", "CONSTRAINT DEmit\nCHECK_DEADLOCK")
        kw = {"simulate": f"num={sim}", "depth": 3} if sim else {}
        res = ctx.tlc("MC_Dict", "run.cfg", workers=1, extra_files={"run.cfg": cfg}, label=f"Gen_Dict {mfields} field(s)", tags=("DICT",), timeout=3000, **kw)
        cases += [c for _t, c in res.printed]
    seen = set()
    for c in cases:
        k = json.dumps([c["m"], c["inst"]], sort_keys=True)
        if k in seen:
            continue
        seen.add(k)
        case = {"m": c["m"], "inst": c["inst"], "fault": "none", "cfg": rt.STRICT}
        r = rt.Real(case)
        ctx.case(("dict", k))
        has_any = any(f["kind"] == "Wildcard" and v["t"] != "none" and not (v["t"] == "list" and not v["items"])
                      for f, v in zip(c["m"]["fields"], c["inst"]))
        roundtrip(ctx, r.obj, r.mod.Root, r.ctx, r.info(finding_tags=["F20"] if has_any else []), c["enc"], c["encf"])
        if len(ctx.samples) < 3 and len(seen) % 211 == 0:
            ctx.sample({"instance": c["inst"], "encoded": to_py(c["enc"]), "filter_none": to_py(c["encf"])})
    ctx.extra["tlc_cases_replayed"] = len(seen)
    xctx = XmlContext()
    # (Holder has Base-typed fields holding Derived instances: not representable without a type marker)
    # the shape matrix of spec/DictShape.tla: every canonical (field kind, JSON shape, position) decodes and re-encodes
    from .. import dictshape_bind

    dictshape_bind.run_matrix(ctx, "C04")
    from .. import typing_bind

    typing_bind.run_matrix(ctx, "C04")     # spec/Typing.tla: documented annotation forms x XML types x leaf types
    # None and the empty token list in a compound field with two nillable choices (tokens first): each keeps its kind
    from ..poly_models import NilChoices

    for k, vals in enumerate(([["a", "b"], None, 3], [None], [[], None, []], [None, None, ["x"]], [3, None])):
        ctx.case(("nil-choices", k))
        roundtrip(ctx, NilChoices(vals=vals), NilChoices, xctx, {"model": "NilChoices", "obj": repr(vals)})
    roots = [zoo.Leaf, zoo.Item, zoo.QNames, zoo.Prims, zoo.Seq, zoo.Compound, zoo.UnionModels, zoo.UnionEl, zoo.ReqNil]
    for k, obj in enumerate(zoo.instances(ctx.seed + 4, ctx.pick(300, 10**7), roots=roots)):
        ctx.case(("zoo-dict", k))
        roundtrip(ctx, obj, type(obj), xctx, {"model": type(obj).__name__, "obj": repr(obj)[:1200], "finding_tags": zoo_tags(obj)})


def zoo_tags(obj):
    return []


def replay(ctx, doc):
    print(doc["what"])
    print(doc["case"].get("obj"))
