"""C08 - all back ends agree.

Writers: Writer.tla drives two back-end contracts with the same SAX calls; TLC checks in every
state that they agree on whether the document is right (InvAgree), every behaviour is replayed on
both real writers.  Every (model, instance) of the RoundTrip universe is rendered by the native
writer, the lxml writer and the TreeSerializer and the three independent readings must be equal.
Handlers: Handler.tla PumpsAgree (TLC, exhaustive) and every document of the RoundTrip universe
and of the scoping universe is parsed by both handlers from every kind of source
(str, bytes, file object, path, pathlib path, parsed tree, element): all objects equal.
"""
from __future__ import annotations

from lxml import etree as LET

from xsdata.formats.dataclass.context import XmlContext
from xsdata.formats.dataclass.parsers.config import ParserConfig
from xsdata.formats.dataclass.serializers.tree import TreeSerializer
from xsdata.formats.dataclass.serializers.config import SerializerConfig

from .. import handler_bind as hb
from .. import infoset
from .. import roundtrip_bind as rb
from .. import rt_engine as rt
from .. import writer_bind as wb
from .. import zoo
from ..policy import writer_cfg
from . import c03, c09


def canon_text(text):
    return infoset.canon(infoset.parse(text))


def writers_agree(ctx, obj, xctx, info, ns_map=None):
    outs = {}
    for w in ("native", "lxml"):
        for indent in (None, "  "):
            try:
                outs[(w, indent)] = ("ok", rb.render(obj, xctx, w, ns_map=dict(ns_map) if ns_map else None, indent=indent))
            except Exception as ex:  # noqa: BLE001
                outs[(w, indent)] = ("exc", type(ex).__name__)
    try:
        tree = TreeSerializer(context=xctx, config=SerializerConfig()).render(obj, ns_map=dict(ns_map) if ns_map else None)
        outs[("tree", None)] = ("ok", LET.tostring(tree, encoding="unicode"))
    except Exception as ex:  # noqa: BLE001
        outs[("tree", None)] = ("exc", type(ex).__name__)
    ref_key = ("native", None)
    ref = outs[ref_key]
    mixed = info.get("mixed", False)
    for k, v in outs.items():
        if k == ref_key:
            continue
        if v[0] != ref[0]:
            ctx.violation(f"writers disagree: {ref_key} -> {ref[0]} {ref[1] if ref[0]=='exc' else ''}, {k} -> {v[0]} {v[1] if v[0]=='exc' else ''}",
                          {**info, "ns_map": repr(ns_map), "finding_tags": info.get("tags", [])})
        elif v[0] == "ok":
            if k[1] and mixed:
                continue  # indentation inside mixed content is not infoset-neutral; "indentation aside"
            try:
                a, b = canon_text(ref[1]), canon_text(v[1])
            except Exception as ex:  # noqa: BLE001
                ctx.violation(f"output of {k} or {ref_key} is not well-formed: {ex}", {**info, "a": ref[1][:1500], "b": v[1][:1500],
                              "finding_tags": info.get("tags", [])})
                continue
            if a != b:
                ctx.violation(f"{k} and {ref_key} produce different documents", {**info, "ns_map": repr(ns_map), "a": ref[1][:1500], "b": v[1][:1500]})


def _same_outcome(a, b) -> bool:
    """equal statuses and equal objects, NaN equal to NaN (dataclass equality says nan != nan)"""
    from .c01 import _eq

    return a[0] == b[0] and (_eq(a[1], b[1]) if a[0] == "ok" else a[1] == b[1])


def handlers_agree(ctx, text, clazz, xctx, info, expect=None, tags_native_tree=()):
    ref = None
    for h in ("native", "lxml"):
        for src in hb.SOURCES:
            st, obj, nwarn = hb.parse(text, h, xctx, clazz, src, ParserConfig())
            ctx.case(("src", info.get("key"), h, src))
            cur = (st, obj if st == "ok" else type(obj).__name__)
            if ref is None:
                ref = cur
                continue
            if not _same_outcome(cur, ref):
                tags = list(tags_native_tree) if (h == "native" and src in ("tree", "element")) else []
                ctx.violation(f"handler {h} from a {src} source gives {repr(cur[1])[:300]}; native from str gives {repr(ref[1])[:300]}",
                              {**info, "text": text[:1500], "handler": h, "source": src, "finding_tags": tags})
    # the same again through ONE parser object per handler, reused for every kind of source in turn (a parser is
    # made once and fed many documents; whatever it keeps between calls must not leak into the next result)
    from xsdata.formats.dataclass.parsers import XmlParser

    for h in ("native", "lxml"):
        shared = XmlParser(context=xctx, handler=hb.HANDLERS[h], config=ParserConfig())
        for src in hb.SOURCES:
            st, obj, nwarn = hb.parse(text, h, xctx, clazz, src, ParserConfig(), parser=shared)
            ctx.case(("src-reused-parser", info.get("key"), h, src))
            cur = (st, obj if st == "ok" else type(obj).__name__)
            if not _same_outcome(cur, ref):
                tags = list(tags_native_tree) if (h == "native" and src in ("tree", "element")) else []
                ctx.violation(f"handler {h} from a {src} source through a REUSED parser gives {repr(cur[1])[:300]}; native from str gives {repr(ref[1])[:300]}",
                              {**info, "text": text[:1500], "handler": h, "source": src, "finding_tags": tags})
    return ref


def run(ctx):
    ctx.rule = (
        "TLC: MC_Writer InvAgree (both back-end contracts agree in every state) and MC_Handler PumpsAgree, exhaustive. Real code: "
        "writer behaviours replayed on both writers; every (model, instance) of the RoundTrip universe rendered by native writer, "
        "lxml writer (with and without indentation) and TreeSerializer and read independently; every document parsed by both "
        "handlers from 7 kinds of source. A case is a distinct (document, handler, source) or (instance, writer)."
    )
    ctx.assumptions += ["well-formed input only (lxml's recovery mode is expected to differ on malformed input)"]
    from .. import xmlshape_bind

    xmlshape_bind.run_matrix(ctx, "C08")   # spec/XmlShape.tla: field kinds x XML shapes x positions
    tol = c03.tolerated(ctx)
    mc = ctx.pick(dict(depth=2, events=6, attrs=1), dict(depth=3, events=7, attrs=2, indents="{FALSE, TRUE}"))
    cfg = writer_cfg("mc", tolerated=tol, **mc)
    cfg = cfg[: cfg.index("INVARIANT")] + "INVARIANT InvSlots\nINVARIANT InvAgree\nCHECK_DEADLOCK FALSE\n"
    ctx.tlc("MC_Writer", "run.cfg", extra_files={"run.cfg": cfg}, label="MC_Writer InvAgree", timeout=3000)
    for c in c09.scoping_cases(ctx):
        c09.check_scoping(ctx, c, want_agree=True)
        c09.check_union_siblings(ctx, c)
        for prefix in ("p", ""):
            text = hb.scoping_doc(c["levels"], prefix)
            # F14 is about values that NEED a declaration xml.etree has dropped; an unprefixed value with no default
            # namespace in scope needs none, so the tree / element sources must get it right
            needs_decl = c["scope"][prefix] != ""
            handlers_agree(ctx, text, hb.HRoot, XmlContext(), {"key": text, "levels": c["levels"]}, tags_native_tree=["F14"] if needs_decl else [])
    # documents spelled with a DEFAULT namespace whose unqualified children switch it off: values that need no
    # declaration at all, so every source kind (tree and element included) has to agree, also through a reused parser
    for text, exp in hb.default_ns_docs():
        # (<own>z</own> is a qualified element: its value takes the default namespace, which xml.etree drops - F14)
        ref = handlers_agree(ctx, text, hb.DRoot, XmlContext(), {"key": text}, tags_native_tree=["F14"] if exp.own is not None else [])
        if ref is not None and ref[1] != exp:
            ctx.violation(f"default-namespace document parses to {ref[1]!r}, expected {exp!r}", {"text": text})
    # documents split with XInclude, handed over as path string (with and without a base URL) and as pathlib.Path: both
    # handlers, the object of the inline document
    c09.xinclude_text(ctx)
    # large documents read in chunks: both handlers, every streamed source kind, against the document itself
    from . import c11

    c11.chunk_boundaries(ctx)
    ctx.exhaustive = True
    # writer behaviours on both real writers
    res = ctx.tlc("MC_Writer", "run.cfg", workers=1, extra_files={"run.cfg": writer_cfg("gen", depth=2, events=5, attrs=1)},
                  label="Gen_Writer behaviours", tags=("CASE",), timeout=3000)
    for _t, case in res.printed:
        events = case["events"]
        real_events = [wb.concrete_event(e) for e in events]
        outs = {}
        for be in ("native", "lxml"):
            run_ = wb.record_run(be, case["raw"], real_events)
            outs[be] = ("exc", type(run_["exc"]).__name__) if run_["exc"] is not None else ("ok", run_["text"])
        ctx.case(("wr", wb.dumps(events), case["um"]))
        tags = ["F12"] if c03.second_data_in_root(events) else []
        if outs["native"][0] != outs["lxml"][0]:
            ctx.violation(f"writers disagree on a receiver-call sequence: native {outs['native']}, lxml {outs['lxml'][0]}",
                          {"events": events, "raw": case["raw"], "finding_tags": tags})
        elif outs["native"][0] == "ok":
            try:
                if canon_text(outs["native"][1]) != canon_text(outs["lxml"][1]):
                    ctx.violation("writers produce different documents for the same receiver calls",
                                  {"events": events, "raw": case["raw"], "native": outs["native"][1], "lxml": outs["lxml"][1], "finding_tags": tags})
            except Exception as ex:  # noqa: BLE001
                ctx.violation(f"writer output not well-formed: {ex}", {"events": events, "raw": case["raw"], "finding_tags": tags})
    # RoundTrip universe: three serializers, two handlers x seven sources
    cases = rt.generate(ctx, label="Gen_RoundTrip 1 field", max_fields=1, faults=("none",), cfgs="StrictOnly")
    cases += rt.generate(ctx, label="Gen_RoundTrip 2 fields (simulate)", max_fields=2, faults=("none",), cfgs="StrictOnly",
                         simulate=ctx.pick(500, 15000))
    for k, case in enumerate(cases):
        r = rt.Real(case)
        info = r.info(key=k, mixed=rt.has_mixed_text(case))
        ctx.case(("ser3", str(case["m"]), str(case["inst"])))
        writers_agree(ctx, r.obj, r.ctx, info, ns_map=rt.NS_MAPS[k % len(rt.NS_MAPS)])
        text = rb.render_doc(case["doc"], k % 3)
        f14 = ["F14"] if c09.has_qualified_qname(case["doc"]) else []
        handlers_agree(ctx, text, r.mod.Root, r.ctx, info, tags_native_tree=f14)
        if k % 3 == 0:
            # markup that interrupts a run of character data: both pumps must still deliver the whole value
            base = rb.render_doc(case["doc"], 0)
            for how in ("comment-in-text", "pi-in-text", "cdata-in-text", "entity-in-text"):
                alt = hb.respell(base, how)
                if alt != base:
                    handlers_agree(ctx, alt, r.mod.Root, r.ctx, {**info, "key": (k, how), "respell": how}, tags_native_tree=f14)
    if cases:
        c = cases[len(cases) // 2]
        ctx.sample({"document": rb.render_doc(c["doc"], 0), "sources": hb.SOURCES, "handlers": ["native", "lxml"]})
    # fixed instances (whatever the seed draws below): union members whose descendants carry attributes
    xctx = XmlContext()
    for k, obj in enumerate((zoo.UnionModels(m=zoo.Amount(value=3, note=zoo.Leaf(value="t", flag=True)),
                                             ms=[zoo.Amount(value=4, note=zoo.Leaf(value="u", flag=False)), zoo.Label(value="x y")]),
                             zoo.UnionModels(ms=[zoo.Label(value="one"), zoo.Amount(value=0, note=zoo.Leaf(value="", flag=True))]))):
        ctx.case(("zoo-fixed", k))
        writers_agree(ctx, obj, xctx, {"model": type(obj).__name__, "obj": repr(obj)[:1500], "mixed": True})
        handlers_agree(ctx, rb.render(obj, xctx, "native"), type(obj), xctx, {"key": ("zoo-fixed", k), "model": type(obj).__name__})
    # the zoo through the three serializers
    xctx = XmlContext()
    for k, obj in enumerate(zoo.instances(ctx.seed + 8, ctx.pick(150, 10**7), roots=[c for c in zoo.ROOTS if c is not zoo.Mixed])):
        ctx.case(("zoo3", k))
        writers_agree(ctx, obj, xctx, {"model": type(obj).__name__, "obj": repr(obj)[:1500], "mixed": True},
                      ns_map=zoo.HOSTILE_MAPS[k % len(zoo.HOSTILE_MAPS)])
        # ... and the document of every third instance through both handlers from every kind of source
        if (k % 3 == 0 or type(obj) in (zoo.UnionModels, zoo.UnionEl, zoo.SameName)) and type(obj) not in (zoo.Wild, zoo.Order):
            try:
                text = rb.render(obj, xctx, "native")
            except Exception:  # noqa: BLE001
                continue
            f14 = ["F14"] if "xmlns:" in text.split(">", 1)[1] or type(obj) in (zoo.QNames, zoo.Prims, zoo.UnionEl) else []
            handlers_agree(ctx, text, type(obj), xctx, {"key": ("zoo", k), "model": type(obj).__name__}, tags_native_tree=f14)


def replay(ctx, doc):
    print(doc["what"])
    print(doc["case"].get("text") or doc["case"].get("obj"))
