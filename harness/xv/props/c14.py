"""C14 - parsers, serializers and the binding context are history-independent.

spec/Context.tla (sequential part) + MC_ContextH: TLC explores every history of API-level
operations (abstracted to their context footprint) up to MaxLen and checks, in every
reachable state, that every operation answers as on a fresh context.  Binding: for every
distinct reachable state TLC prints the first history that reaches it; the harness replays
that history on SHARED real XmlContext / XmlParser / XmlSerializer / JsonParser /
JsonSerializer instances and then performs every pool operation on the shared instances and
on FRESH ones: results (objects, rendered text, exception types) must be equal (decisive).
The context operations the real calls perform are recorded and compared with the
specification's footprint (advisory).  Longer random histories over a larger real pool
(model zoo) are checked the same way.
"""
from __future__ import annotations

import atexit
import gc
import importlib
import json
import os
import random
import shutil
import sys
import tempfile
from typing import List, Optional

from xsdata.formats.dataclass.context import XmlContext
from xsdata.formats.dataclass.parsers import JsonParser, XmlParser
from xsdata.formats.dataclass.parsers.config import ParserConfig
from xsdata.formats.dataclass.serializers import JsonSerializer, XmlSerializer
from xsdata.formats.dataclass.serializers.config import SerializerConfig

from .. import zoo
from ..policy import context_variant

XSI = "http://www.w3.org/2001/XMLSchema-instance"

M1 = '''
from dataclasses import dataclass, field
from decimal import Decimal
from typing import List, Optional, Dict, Callable, Union
from xsdata.models.datatype import XmlDate, XmlDuration


@dataclass
class Child:
    v: Optional[str] = field(default=None, metadata={"type": "Element"})


@dataclass
class A:
    class Meta:
        namespace = "urn:a"

    child: Optional[Child] = field(default=None, metadata={"type": "Element"})


@dataclass
class B:
    class Meta:
        namespace = "urn:b"

    child: Optional[Child] = field(default=None, metadata={"type": "Element"})


@dataclass
class Base:
    class Meta:
        namespace = "urn:a"

    x: Optional[int] = field(default=None, metadata={"type": "Element"})


@dataclass
class Derived(Base):
    class Meta:
        namespace = "urn:a"

    y: Optional[str] = field(default=None, metadata={"type": "Element"})


@dataclass
class Other:
    class Meta:
        namespace = "urn:b"

    z: Optional[str] = field(default=None, metadata={"type": "Element"})


@dataclass
class W1:
    class Meta:
        namespace = "urn:w"

    ext: list[object] = field(default_factory=list, metadata={"type": "Wildcard", "namespace": "urn:allowed"})


@dataclass
class W2:
    class Meta:
        namespace = "urn:w"

    ext: list[object] = field(default_factory=list, metadata={"type": "Wildcard", "namespace": "##other"})


@dataclass
class Ev:
    when: Optional[Union[XmlDate, XmlDuration]] = field(default=None, metadata={
        "type": "Elements", "choices": ({"name": "on", "type": XmlDate}, {"name": "for", "type": XmlDuration})})


@dataclass
class UCat:
    name: Optional[str] = field(default=None, metadata={"type": "Element"})


@dataclass
class UDog:
    bark: Optional[int] = field(default=None, metadata={"type": "Element"})


@dataclass
class UHolder:
    u: Optional[Union[UCat, UDog]] = field(default=None, metadata={"type": "Element"})


@dataclass
class UAmount:
    value: int = field(metadata={"type": "Element"})


@dataclass
class ULabel:
    value: str = field(metadata={"type": "Element"})


@dataclass
class UVal:
    """a union of models with the SAME property names: which one a JSON object is depends on its values"""
    v: Optional[Union[UAmount, ULabel]] = field(default=None, metadata={"type": "Element"})
    vs: List[Union[UAmount, ULabel]] = field(default_factory=list, metadata={"type": "Element"})


@dataclass
class FacAttr:
    """attributes whose defaults come from FACTORIES (the serializer's ignore_default_attributes option asks the field
    metadata whether a value equals the default; the decoder asks it what an explicit null stands for)"""
    v: str = field(default="", metadata={"type": "Element"})
    rate: Optional[Decimal] = field(default_factory=lambda: Decimal("1.5"), metadata={"type": "Attribute"})
    codes: List[int] = field(default_factory=lambda: [1, 2], metadata={"type": "Attribute", "tokens": True})


@dataclass
class NilPair:
    """a compound field with TWO nillable choices, a plain one and a tokens one: None belongs to the first,
    an empty token list to the second - which one a nil value takes must not depend on what was asked before"""
    vals: List[Union[None, int, List[str]]] = field(default_factory=list, metadata={
        "type": "Elements", "choices": ({"name": "n", "type": Optional[int], "nillable": True},
                                        {"name": "toks", "type": List[str], "tokens": True, "nillable": True})})


@dataclass
class Ping:
    """a model WITHOUT fields (an empty element): known by its name only"""


@dataclass
class Town:
    """a STRING forward reference, resolved in this module: Street below"""
    streets: List["Street"] = field(default_factory=list, metadata={"type": "Element"})


@dataclass
class Street:
    name: Optional[str] = field(default=None, metadata={"type": "Element"})


@dataclass
class Broken:
    bad: Optional[Callable] = field(default=None, metadata={"type": "Element"})
'''


def _local_models():
    """Classes of a LOCAL scope whose string annotations only resolve through the globalns option of the serializer /
    parser configuration - among them another class called Street."""
    from dataclasses import dataclass, field
    from typing import List, Optional

    @dataclass
    class Street:
        name: Optional[str] = field(default=None, metadata={"type": "Element"})
        lanes: Optional[int] = field(default=None, metadata={"type": "Attribute"})

    @dataclass
    class Road:
        streets: List["Street"] = field(default_factory=list, metadata={"type": "Element"})

    return Street, Road


LSTREET, LROAD = _local_models()

M2 = '''
from dataclasses import dataclass, field
from typing import Optional


@dataclass
class Other2:
    class Meta:
        name = "Other"
        namespace = "urn:b"

    z: Optional[str] = field(default=None, metadata={"type": "Element"})
    extra: Optional[str] = field(default=None, metadata={"type": "Attribute"})
'''

_S: dict = {"n": 0}


def pool():
    if "m1" in _S:
        return _S
    d = tempfile.mkdtemp(prefix="xv-c14-")
    atexit.register(shutil.rmtree, d, ignore_errors=True)
    _S["dir"] = d
    _S["pkg"] = f"xvc14_{os.getpid()}"
    os.mkdir(os.path.join(d, _S["pkg"]))
    open(os.path.join(d, _S["pkg"], "__init__.py"), "w").close()
    with open(os.path.join(d, _S["pkg"], "m1.py"), "w") as f:
        f.write(M1)
    sys.path.insert(0, d)
    _S["m1"] = importlib.import_module(_S["pkg"] + ".m1")
    return _S


def do_import():
    """The environment's `import`: a new module defining a second class named {urn:b}Other."""
    S = pool()
    if S.get("m2"):
        return
    S["n"] += 1
    name = f"m2_{S['n']}"
    with open(os.path.join(S["dir"], S["pkg"], name + ".py"), "w") as f:
        f.write(M2)
    importlib.invalidate_caches()
    S["m2"] = importlib.import_module(f"{S['pkg']}.{name}")


def undo_import():
    S = pool()
    m2 = S.pop("m2", None)
    if m2 is not None:
        sys.modules.pop(m2.__name__, None)
        setattr(sys.modules[S["pkg"]], m2.__name__.rsplit(".", 1)[1], None)
        del m2
        gc.collect()


class Shared:
    """One set of shared instances (or a fresh one per call)."""

    def __init__(self):
        S = pool()
        self.ctx = XmlContext(models_package=S["pkg"])
        cfg = SerializerConfig(xml_declaration=False)
        self.xp = XmlParser(context=self.ctx)
        self.xpl = XmlParser(context=self.ctx, config=ParserConfig(fail_on_unknown_properties=False))
        self.xs = XmlSerializer(context=self.ctx, config=cfg)
        self.xsd = XmlSerializer(context=self.ctx, config=SerializerConfig(xml_declaration=False, ignore_default_attributes=True))
        self.jp = JsonParser(context=self.ctx)
        self.js = JsonSerializer(context=self.ctx)
        # the streaming writer (output is produced WHILE the object is walked) with the xml declaration switched on
        from xsdata.formats.dataclass.serializers.writers import XmlEventWriter

        self.xsn = XmlSerializer(context=self.ctx, writer=XmlEventWriter)


def api_ops():
    m = pool()["m1"]
    return {
        # class auto-detection from the keys of a JSON object: Base {x} and Derived {x, y} both hold every key of {"x": 1};
        # the narrowest class wins, whatever the shared context has seen so far (decDerived shows it Derived alone)
        # type information handed in for ONE call (globalns names the classes of a local scope) belongs to that call: the
        # next class built through the same context resolves its own string annotations in its own module
        # a render that FAILS after the document has started (a compound value no choice admits): nothing of it may show
        # in what the same serializer instances write next
        "serFails": lambda sh: sh.xs.render(m.Ev(when=3.5)),
        "serFailsStreaming": lambda sh: sh.xsn.render(m.Ev(when=3.5)),
        "serStreaming": lambda sh: sh.xsn.render(m.Other(z="o")),
        "serLocalGlobalns": lambda sh: XmlSerializer(context=sh.ctx, config=SerializerConfig(xml_declaration=False, globalns={"Street": LSTREET, "Road": LROAD, "List": List, "Optional": Optional})).render(
            LROAD(streets=[LSTREET(name="l", lanes=2)])),
        "parseTown": lambda sh: _name_and_value(sh.xp.from_string("<Town><streets><name>a</name></streets></Town>", m.Town)),
        "decTown": lambda sh: [type(x).__module__.rsplit(".", 1)[-1][:2] for x in sh.jp.from_string('{"streets": [{"name": "a"}]}', m.Town).streets],
        "decDerived": lambda sh: sh.jp.from_string('{"x": 1, "y": "s"}', m.Derived),
        "decNoClassNarrow": lambda sh: _name_and_value(sh.jp.from_string('{"x": 1}')),
        "decNoClassWide": lambda sh: _name_and_value(sh.jp.from_string('{"x": 1, "y": "s"}')),
        "serA": lambda sh: sh.xs.render(m.A(child=m.Child(v="1"))),
        "serB": lambda sh: sh.xs.render(m.B(child=m.Child(v="2"))),
        "parseA": lambda sh: sh.xp.from_string('<A xmlns="urn:a"><child><v>1</v></child></A>', m.A),
        "parseB": lambda sh: sh.xp.from_string('<B xmlns="urn:b"><child><v>2</v></child></B>', m.B),
        "parseXsi": lambda sh: sh.xp.from_string(
            f'<Base xmlns="urn:a" xmlns:xsi="{XSI}" xsi:type="Derived"><x>1</x><y>s</y></Base>', m.Base),
        "parseXsiWrong": lambda sh: sh.xp.from_string(
            f'<Other xmlns="urn:b" xmlns:a="urn:a" xmlns:xsi="{XSI}" xsi:type="a:Derived"><z>q</z></Other>', m.Other),
        "parseNoClass": lambda sh: _name_and_value(sh.xp.from_string('<Other xmlns="urn:b"><z>q</z></Other>')),
        "parseUnknown": lambda sh: sh.xp.from_string('<Unknown xmlns="urn:x"/>'),
        "parseBroken": lambda sh: sh.xp.from_string("<Broken/>", m.Broken),
        "serOther": lambda sh: sh.xs.render(m.Other(z="o")),
        # more API surface with the same context footprints
        "encA": lambda sh: sh.js.render(m.A(child=m.Child(v="1"))),
        "decB": lambda sh: sh.jp.from_string('{"child": {"v": "2"}}', m.B),
        "decNoClass": lambda sh: _name_and_value(sh.jp.from_string('{"z": "k"}')),
        "parseA_prefixed": lambda sh: sh.xp.from_string('<p:A xmlns:p="urn:a"><p:child><p:v>1</p:v></p:child></p:A>', m.A),
        "parseB_prefix_clash": lambda sh: sh.xp.from_string('<p:B xmlns:p="urn:b"><p:child><p:v>2</p:v></p:child></p:B>', m.B),
        "parseBadValue": lambda sh: sh.xp.from_string('<Base xmlns="urn:a"><x>notint</x></Base>', m.Base),
        "parseW1ok": lambda sh: sh.xp.from_string(W_DOC.format(c="W1", ns="urn:allowed", l="item"), m.W1),
        "parseW1bad": lambda sh: sh.xp.from_string(W_DOC.format(c="W1", ns="urn:forbidden", l="item"), m.W1),
        "parseW1bad_lenient": lambda sh: sh.xpl.from_string(W_DOC.format(c="W1", ns="urn:forbidden", l="item"), m.W1),
        "parseW1other": lambda sh: sh.xpl.from_string(W_DOC.format(c="W1", ns="urn:allowed", l="other"), m.W1),
        "parseW2same": lambda sh: sh.xpl.from_string(W_DOC.format(c="W2", ns="urn:w", l="item"), m.W2),
        "parseW2other": lambda sh: sh.xpl.from_string(W_DOC.format(c="W2", ns="urn:allowed", l="item"), m.W2),
        "parseMalformed": lambda sh: sh.xp.from_string("<A xmlns='urn:a'><child>", m.A),
        # an element typed with a union of models: the candidates are tried with a STRICTER copy of the parser's
        # configuration - nothing of that may stay behind on the shared parser (parseBadValue is the witness)
        # a compound field whose choices are told apart by PROBING the converter with the text (JSON carries no
        # element name): the verdict for one string says nothing about the next string
        "decCompoundDate": lambda sh: sh.jp.from_string('{"when": "2024-02-29"}', m.Ev),
        "decCompoundDuration": lambda sh: sh.jp.from_string('{"when": "P1DT12H"}', m.Ev),
        "decUnionLabel": lambda sh: sh.jp.from_string('{"v": {"value": "abc"}, "vs": [{"value": "x y"}]}', m.UVal),
        "decUnionAmount": lambda sh: sh.jp.from_string('{"v": {"value": 7}, "vs": [{"value": 8}, {"value": "nine"}]}', m.UVal),
        "parseUnionLabel": lambda sh: sh.xp.from_string("<UVal><v><value>abc</value></v></UVal>", m.UVal),
        "parseUnionAmount": lambda sh: sh.xp.from_string("<UVal><v><value>7</value></v></UVal>", m.UVal),
        "serFacDefault": lambda sh: sh.xsd.render(m.FacAttr(v="a")),
        "serFacOther": lambda sh: sh.xsd.render(m.FacAttr(v="a", rate=Decimal("2"), codes=[3])),
        "decFacNull": lambda sh: sh.jp.from_string('{"v": "a", "rate": null, "codes": null}', m.FacAttr),
        "decFacAbsent": lambda sh: sh.jp.from_string('{"v": "a"}', m.FacAttr),
        "parseFac": lambda sh: sh.xp.from_string('<FacAttr><v>a</v></FacAttr>', m.FacAttr),
        "serNilPlain": lambda sh: sh.xs.render(m.NilPair(vals=[None, 3])),
        "serNilTokens": lambda sh: sh.xs.render(m.NilPair(vals=[[], ["a", "b"]])),
        "encNilPlain": lambda sh: sh.js.render(m.NilPair(vals=[None])),
        "encNilTokens": lambda sh: sh.js.render(m.NilPair(vals=[[]])),
        "decNilPlain": lambda sh: sh.jp.from_string('{"vals": [null, 3]}', m.NilPair),
        "decNilTokens": lambda sh: sh.jp.from_string('{"vals": [[], ["a"]]}', m.NilPair),
        "parseUnion": lambda sh: sh.xp.from_string("<UHolder><u><bark>3</bark></u></UHolder>", m.UHolder),
        # a name looked up AFTER the scans by field names above (decNoClass...): a model without fields stays known
        "parsePingNoClass": lambda sh: _name_and_value(sh.xp.from_string("<Ping/>")),
        "decNoClassAgain": lambda sh: _name_and_value(sh.jp.from_string('{"z": "k"}')),
        "parsePingNoClass2": lambda sh: _name_and_value(sh.xp.from_string("<Ping/>")),
    }


W_DOC = '<w:{c} xmlns:w="urn:w" xmlns:x="{ns}"><x:{l}>t</x:{l}></w:{c}>'


def _name_and_value(obj):
    return (type(obj).__name__, type(obj).__module__.rsplit(".", 1)[-1][:2], obj)


def call(fn, sh):
    import warnings

    with warnings.catch_warnings(record=True) as w:
        warnings.simplefilter("always")
        try:
            return ("ok", fn(sh), tuple(sorted(str(x.category.__name__) for x in w)))
        except Exception as ex:  # noqa: BLE001
            return ("exc", type(ex).__name__, ())


def hits_f3(history: list[str], name: str) -> bool:
    """Selector of the open finding F3, computed from the call history alone: Child's
    metadata was first built under the other parent namespace."""
    side = {"serA": "a", "parseA": "a", "encA": "a", "parseA_prefixed": "a",
            "serB": "b", "parseB": "b", "decB": "b", "parseB_prefix_clash": "b"}
    if name not in side:
        return False
    first = None
    for h in history:
        if h == "reset":
            first = None
        elif h in side and first is None:
            first = side[h]
    return first is not None and first != side[name]


def check_history(ctx, ops, history, probes, spec_f3=None):
    undo_import()
    shared = Shared()
    done: list[str] = []
    for h in history:
        if h == "import":
            do_import()
        elif h == "reset":
            shared.ctx.reset()
        else:
            call(ops[h], shared)
        done.append(h)
    for name in probes:
        got = call(ops[name], shared)
        fresh_sh = Shared()
        fresh = call(ops[name], fresh_sh)
        # the shared instances have now one more call in their history
        ctx.case(("hist", tuple(done), name))
        if got != fresh:
            tags = f3_selector(shared.ctx, fresh_sh.ctx)
            ctx.violation(
                f"{name} after history {done} returned {repr(got)[:300]}; on fresh instances it returns {repr(fresh)[:300]}",
                {"history": list(done), "op": name, "finding_tags": tags},
            )
        elif spec_f3 is not None and name in spec_f3 and context_variant()["CachePolicy"] == "class":
            # the specification (as shipped) expects a difference here and the code shows none
            ctx.divergences.append({"kind": "spec-expected-F3", "history": list(done), "op": name})
        done.append(name)


def run(ctx):
    ctx.rule = (
        "TLC: every history of API-level operations (11 kinds, abstracted to context footprints) up to MaxLen on the "
        "Context specification, invariant HistoryIndependence in every reachable state. Real code: for each distinct "
        "reachable state the first history reaching it is replayed on shared XmlContext/XmlParser/XmlSerializer/JsonParser/"
        "JsonSerializer instances, then every pool operation is compared with fresh instances; plus seeded random longer "
        "histories incl. the model zoo. A case is a distinct (history, operation)."
    )
    ctx.assumptions += ["process-wide lru_caches (build_qname/split_qname) and the converter registry hold pure functions of their keys"]
    ops = api_ops()
    known_f3 = any(f["id"] == "F3" and f["status"] == "open" for f in ctx.findings)
    maxlen = ctx.pick(3, 5)
    cfg = (
        "SPECIFICATION Spec\nCONSTANTS\n  Classes <- MCClasses\n  QNs <- MCQNs\n  Vars <- MCVars\n  MemoPolicy = \"qname\"\n"
        f'  XsiPolicy = "{context_variant()["XsiPolicy"]}"\n  CachePolicy = "{context_variant()["CachePolicy"]}"\n'
        f"  MaxLen = {maxlen}\n  KnownF3 = {'TRUE' if known_f3 else 'FALSE'}\nVIEW View\n"
    )
    ctx.tlc("MC_ContextH", "run.cfg", extra_files={"run.cfg": cfg + "INVARIANT HistoryIndependence\nCHECK_DEADLOCK FALSE\n"},
            label=f"MC_ContextH histories<={maxlen}", timeout=1500)
    ctx.exhaustive = True
    res = ctx.tlc("MC_ContextH", "run.cfg", workers=1,
                  extra_files={"run.cfg": cfg + "CONSTRAINT EmitState\nCHECK_DEADLOCK FALSE\n"},
                  label="MC_ContextH state cover", tags=("HIST",), timeout=1500)
    hists = [p for _t, p in res.printed]
    if ctx.quick and len(hists) > 500:
        hists = random.Random(ctx.seed).sample(hists, 500)
    ctx.extra["reachable_states_replayed"] = len(hists)
    all_probes = list(ops)
    # fixed histories, whatever the sample above holds: a name resolved BEFORE a module defining it again is imported
    # (the freshness of the index), resets, failed calls first
    # the probes run one after the other on the same shared instances, so each sees the ones before it: two orders (the
    # operations added last come first / come last), alternating over the histories, both for the fixed ones
    k0 = all_probes.index("serA")
    alt_probes = all_probes[k0:] + all_probes[:k0]
    for h in (["parseNoClass", "import"], ["decNoClass", "import"], ["parseXsi", "import"], ["serOther", "import"], ["parseUnknown", "import"],
              ["parseNoClass", "import", "reset"], ["import", "parseNoClass"], ["parseBroken", "parseNoClass", "import"], ["parseMalformed", "parseA"]):
        check_history(ctx, ops, h, all_probes)
        check_history(ctx, ops, h, alt_probes)
    for i, p in enumerate(hists):
        check_history(ctx, ops, p["hist"], all_probes if i % 2 == 0 else alt_probes, spec_f3=set(p["f3"]))
    if hists:
        ctx.sample({"kind": "tlc-history", "history": hists[len(hists) // 2]["hist"], "probes": all_probes})
    # random longer histories, incl. failed calls, import and reset
    rnd = random.Random(ctx.seed)
    names = list(ops) + ["import", "reset"]
    for _ in range(ctx.pick(60, 1500)):
        h = [rnd.choice(names) for _ in range(rnd.randint(3, 9))]
        check_history(ctx, ops, h, rnd.sample(all_probes, 5))
    undo_import()
    # the model zoo through shared serializer/parser instances vs fresh ones
    zoo_histories(ctx, rnd, ctx.pick(150, 10**7))   # thorough: until the time budget is used


def zoo_histories(ctx, rnd, n):
    cfg = SerializerConfig(xml_declaration=False)
    shared_ctx = XmlContext()
    sx, sp = XmlSerializer(context=shared_ctx, config=cfg), XmlParser(context=shared_ctx)
    sj, sjp = JsonSerializer(context=shared_ctx), JsonParser(context=shared_ctx)
    hist = []
    for k, obj in enumerate(zoo.instances(ctx.seed + 14, n)):
        ns_map = rnd.choice(zoo.HOSTILE_MAPS)
        fctx = XmlContext()
        name = type(obj).__name__
        a = _try(lambda: sx.render(obj, ns_map=dict(ns_map) if ns_map else None))
        b = _try(lambda: XmlSerializer(context=fctx, config=cfg).render(obj, ns_map=dict(ns_map) if ns_map else None))
        ctx.case(("zoo-ser", k))
        if a != b:
            ctx.violation(f"render({name}) on shared instances after {len(hist)} calls differs from fresh instances",
                          {"model": name, "obj": repr(obj)[:1200], "shared": repr(a)[:800], "fresh": repr(b)[:800], "history_tail": hist[-6:],
                           "finding_tags": f3_selector(shared_ctx, fctx)})
        if a[0] == "ok":
            pa = _try(lambda: sp.from_string(a[1], type(obj)))
            pctx = XmlContext()
            pb = _try(lambda: XmlParser(context=pctx).from_string(a[1], type(obj)))
            ctx.case(("zoo-parse", k))
            if repr(pa) != repr(pb):
                ctx.violation(f"parse({name}) on shared instances after {len(hist)} calls differs from fresh instances",
                              {"model": name, "xml": a[1][:1200], "shared": repr(pa)[:800], "fresh": repr(pb)[:800],
                               "finding_tags": f3_selector(shared_ctx, pctx)})
        if name not in ("Wild", "Mixed", "Order", "SameName"):     # (SameName: one JSON key for three members)
            ja = _try(lambda: sj.render(obj))
            jb = _try(lambda: JsonSerializer(context=XmlContext()).render(obj))
            if ja != jb:
                ctx.violation(f"JSON render({name}) shared vs fresh differ", {"model": name, "shared": repr(ja)[:800], "fresh": repr(jb)[:800]})
            if ja[0] == "ok":
                da = _try(lambda: sjp.from_string(ja[1], type(obj)))
                db = _try(lambda: JsonParser(context=XmlContext()).from_string(ja[1], type(obj)))
                if repr(da) != repr(db):
                    ctx.violation(f"JSON parse({name}) shared vs fresh differ", {"model": name, "json": ja[1][:800]})
        hist.append(name)


def f3_selector(shared_ctx, fresh_ctx):
    """F3 applies exactly when the shared context holds metadata of a class WITHOUT a namespace
    of its own that was built under another parent namespace than the fresh context built it."""
    for cls, meta in fresh_ctx.cache.items():
        if not isinstance(cls, type):
            return []       # the cache is not keyed by class: whatever differs, it is not the finding
        own = "Meta" in cls.__dict__ and hasattr(cls.Meta, "namespace")
        other = shared_ctx.cache.get(cls)
        if not own and other is not None and other.namespace != meta.namespace:
            return ["F3"]
    return []


def _try(fn):
    try:
        return ("ok", fn())
    except Exception as ex:  # noqa: BLE001
        return ("exc", type(ex).__name__)


def replay(ctx, doc):
    case = doc["case"]
    if "history" in case and "op" in case:
        check_history(ctx, api_ops(), case["history"], [case["op"]])
    else:
        print(json.dumps(case, indent=1)[:3000])
