"""C11 - arbitrary XML survives the generic element model.

spec/Generic.tla: WildcardNode.bind / parse_any_attribute / convert_any_element transcribed as
WildParse and Written next to the reference (the source tree minus whitespace-only text next to
child elements).  TLC checks Faithful on ALL generic trees of depth <= 2 over small alphabets
(bounded-exhaustive, as the property's quantifier asks).  Every tree is spelled as XML, parsed
through five wildcard placements and the stand-alone TreeParser with both handlers, compared with
the specification's AnyElement (advisory), serialised with both writers and read back
independently: the infoset must be the reference (decisive); TreeParser must build the same
generic tree as the wildcard path (decisive).  Larger random trees come from the model zoo.
"""
from __future__ import annotations

import dataclasses
import json
import random
from dataclasses import dataclass, field
from typing import Optional

from xsdata.formats.dataclass.context import XmlContext
from xsdata.formats.dataclass.models.generics import AnyElement, DerivedElement
from xsdata.formats.dataclass.parsers import TreeParser, XmlParser
from xsdata.formats.dataclass.parsers.config import ParserConfig

from .. import infoset
from .. import roundtrip_bind as rb
from .. import handler_bind as hb
from ..policy import generic_variant

NONE = "__none__"
XSI = "http://www.w3.org/2001/XMLSchema-instance"


@dataclass
class PList:
    class Meta:
        name = "R"

    any: list[object] = field(default_factory=list, metadata={"type": "Wildcard", "namespace": "##any"})


@dataclass
class PSingle:
    class Meta:
        name = "R"

    any: Optional[object] = field(default=None, metadata={"type": "Wildcard", "namespace": "##any"})


@dataclass
class PMixed:
    class Meta:
        name = "R"

    content: list[object] = field(default_factory=list, metadata={"type": "Wildcard", "namespace": "##any", "mixed": True})


@dataclass
class PTyped:
    class Meta:
        name = "R"
        namespace = "urn:r"

    head: Optional[str] = field(default=None, metadata={"type": "Element"})
    any: list[object] = field(default_factory=list, metadata={"type": "Wildcard", "namespace": "##other"})
    attrs: dict[str, str] = field(default_factory=dict, metadata={"type": "Attributes", "namespace": "##any"})


@dataclass
class PLocal:
    class Meta:
        name = "R"
        namespace = "urn:r"

    any: list[object] = field(default_factory=list, metadata={"type": "Wildcard", "namespace": "##local"})


@dataclass
class TSpan:
    """a class the context knows by its element name: inside a wildcard, <tspan> binds to it (not to a generic element)"""
    class Meta:
        name = "tspan"

    content: list[object] = field(default_factory=list, metadata={"type": "Wildcard", "namespace": "##any", "mixed": True})


@dataclass
class TBox:
    class Meta:
        name = "tbox"

    kids: list[object] = field(default_factory=list, metadata={"type": "Wildcard", "namespace": "##any"})


@dataclass
class PChoices:
    """a mixed wildcard WITH CHOICES: named children of primitive types bind to typed values, everything else stays generic"""
    class Meta:
        name = "R"

    content: list[object] = field(default_factory=list, metadata={
        "type": "Wildcard", "namespace": "##any", "mixed": True,
        "choices": ({"name": "n", "type": int}, {"name": "flag", "type": bool}, {"name": "tbox", "type": TBox})})


PLACEMENTS = {"list": PList, "single": PSingle, "mixed": PMixed, "typed-other": PTyped, "local": PLocal}


def _esc(s, attr=False):
    return rb._esc(s, attr)


def tree_text(x, declared=None) -> str:
    """Spell a source tree of Generic.tla as XML text."""
    declared = dict(declared or {})
    decls = []
    uri, local = x["name"]

    def pfx(u):
        for p, v in declared.items():
            if v == u and p:
                return p
        p = f"n{len(declared)}"
        declared[p] = u
        decls.append((p, u))
        return p

    # prefixes used inside attribute VALUES are (re)declared first, so that the names of the element and
    # of its attributes are spelled with prefixes that still mean the right namespace afterwards
    for _name, v in x["attrs"]:
        if "s" not in v and v["u"] != NONE and declared.get(v["p"]) != v["u"]:
            declared[v["p"]] = v["u"]
            decls.append((v["p"], v["u"]))
    tag = f"{pfx(uri)}:{local}" if uri else local
    if not uri and declared.get(""):
        declared[""] = ""
        decls.append(("", ""))
    attrs = []
    for name, v in x["attrs"]:
        an = f"{pfx(name[0])}:{name[1]}" if name[0] else name[1]
        val = v["s"] if "s" in v else f"{v['p']}:{v['l']}"
        attrs.append(f'{an}="{_esc(val, True)}"')
    dt = "".join(f' xmlns{":" + p if p else ""}="{u}"' for p, u in decls)
    body = _esc(x["text"]) + "".join(tree_text(k, declared) for k in x["kids"])
    head = f"<{tag}{dt}{' ' if attrs else ''}{' '.join(attrs)}"
    return (f"{head}>{body}</{tag}>" if body else f"{head}/>") + _esc(x["tail"])


def ref_canon(r):
    """Reference tree of the spec -> the canonical form of infoset.canon (content list)."""
    content = []
    if r["text"]:
        content.append(r["text"])
    for k in r["kids"]:
        content.append(ref_canon(k))
        if k["tail"]:
            content.append(k["tail"])
    merged = []
    for c in content:
        if isinstance(c, str) and merged and isinstance(merged[-1], str):
            merged[-1] += c
        else:
            merged.append(c)
    return {"name": list(r["name"]), "attrs": sorted([list(n), v] for n, v in r["attrs"]), "content": merged}


def f18_image(src, r):
    """The reference tree with exactly the transformation of finding F18 applied: an attribute value
    prefix:local whose prefix is declared becomes {in-scope uri}local (the RIGHT uri - anything else
    is a different defect and is reported)."""
    attrs = []
    for (name, v), (rn, rv) in zip(src["attrs"], r["attrs"]):
        attrs.append([rn, f"{{{v['u']}}}{v['l']}" if "s" not in v and v["u"] != NONE and tuple(name) != (XSI, "type") else rv])
    return {**r, "attrs": attrs, "kids": [f18_image(a, b) for a, b in zip(src["kids"], r["kids"])]}


def xcanon(el, **kw):
    """infoset.canon with every xsi:type value in the VALUE space: Q(uri|local) when its prefix resolves, the raw
    text otherwise (a value written as a literal {uri}local does not resolve and stays visible)."""
    for e in infoset.elements(el):
        v = e["attrs"].get((XSI, "type"))
        if v is not None:
            r = infoset.resolve_qname(v.strip(), e["nsmap"])
            if r and r[0]:
                e["attrs"][(XSI, "type")] = f"Q({r[0]}|{r[1]})"
    return infoset.canon(el, **kw)


def spec_any(p) -> AnyElement:
    return AnyElement(qname=rb.clark(p["qname"]), text=p["text"], tail=None if p["tail"] == NONE else p["tail"],
                      attributes={rb.clark(n): v for n, v, *_w in p["attrs"]}, children=[spec_any(k) for k in p["children"]])


def find_el(tree, name):
    for el in infoset.elements(tree):
        if list(el["name"]) == list(name):
            return el
    return None


def check_tree(ctx, case, placements):
    src, ref = case["src"], case["ref"]
    want = ref_canon(ref)
    want_f18 = ref_canon(f18_image(src, ref)) if case["f18"] else None
    tags = []
    inner = tree_text(src)
    xctx = XmlContext()
    # the stand-alone tree parser
    generic = {}
    for h in ("native", "lxml"):
        try:
            generic[h] = TreeParser(context=xctx, handler=hb.HANDLERS[h]).from_string(inner)
        except Exception as ex:  # noqa: BLE001
            ctx.violation(f"TreeParser ({h}) failed on well-formed XML: {type(ex).__name__}: {ex}", {"text": inner, "finding_tags": tags})
    sp = spec_any(case["parsed"])
    for h, g in generic.items():
        if g != sp:
            ctx.divergences.append({"kind": "treeparser-vs-spec", "handler": h, "text": inner, "real": repr(g)[:400], "spec": repr(sp)[:400]})
    for pname in placements:
        cls = PLACEMENTS[pname]
        ns = "urn:r" if pname in ("typed-other", "local") else ""
        if pname == "local" and src["name"][0] != "":
            continue  # ##local captures unqualified elements only
        root_open = f'<r:R xmlns:r="urn:r">' if ns else "<R>"
        root_close = "</r:R>" if ns else "</R>"
        text = root_open + inner + root_close
        for h in ("native", "lxml"):
            ctx.case(("tree", inner, pname, h))
            st, obj, _w = hb.parse(text, h, xctx, cls, "str", ParserConfig())
            info = {"placement": pname, "handler": h, "text": text, "finding_tags": tags}
            if st != "ok":
                ctx.violation(f"wildcard placement {pname} ({h}) failed: {type(obj).__name__}: {obj}", info)
                continue
            val = obj.content if pname == "mixed" else obj.any
            val = val[0] if isinstance(val, list) and val else val
            # TreeParser builds the same generic tree as the wildcard path
            if h in generic and isinstance(val, AnyElement) and val != generic[h]:
                ctx.violation(f"TreeParser and the wildcard path ({pname}, {h}) build different trees: {generic[h]!r} vs {val!r}", info)
            for w in ("native", "lxml"):
                try:
                    out = rb.render(obj, xctx, w)
                    got = xcanon(find_el(infoset.parse(out), src["name"]), strip_ws_between_children=False)
                except Exception as ex:  # noqa: BLE001
                    ctx.violation(f"serialising the captured tree ({pname}, {w}) failed: {type(ex).__name__}: {ex}", info)
                    continue
                if got != want:
                    ctx.violation(f"placement {pname} ({h} handler, {w} writer): the fragment came back as {got}, the source says {want}",
                                  {**info, "out": out, "finding_tags": ["F18"] if want_f18 is not None and got == want_f18 else []})


SIB = '<sib k="v">x<in/></sib>'
SIB_CANON = {"name": ["", "sib"], "attrs": [[["", "k"], "v"]], "content": ["x", {"name": ["", "in"], "attrs": [], "content": []}]}


def check_siblings(ctx, case):
    """Several elements captured by ONE wildcard field (a single-valued field wraps them in an anonymous generic
    element, a list field holds them side by side): they come back as the same siblings in the same order."""
    src, ref = case["src"], case["ref"]
    if src["tail"].strip():
        return
    want = [ref_canon(ref), SIB_CANON]
    want_f18 = [ref_canon(f18_image(src, ref)), SIB_CANON] if case["f18"] else None
    inner = tree_text(src)
    xctx = XmlContext()
    for pname in ("single", "list", "mixed"):
        cls = PLACEMENTS[pname]
        for order in (0, 1):
            text = "<R>" + (inner + SIB if order == 0 else SIB + inner) + "</R>"
            exp = want if order == 0 else want[::-1]
            exp18 = None if want_f18 is None else (want_f18 if order == 0 else want_f18[::-1])
            for h in ("native", "lxml"):
                ctx.case(("tree-siblings", inner, pname, order, h))
                st, obj, _w = hb.parse(text, h, xctx, cls, "str", ParserConfig())
                info = {"placement": pname, "handler": h, "text": text}
                if st != "ok":
                    ctx.violation(f"two elements for wildcard placement {pname} ({h}) failed: {type(obj).__name__}: {obj}", info)
                    continue
                try:
                    out = rb.render(obj, xctx, "native")
                    root = infoset.parse(out)
                    got = [xcanon(c, strip_ws_between_children=False) for c in root["content"] if isinstance(c, dict)]
                except Exception as ex:  # noqa: BLE001
                    ctx.violation(f"serialising two captured elements ({pname}) failed: {type(ex).__name__}: {ex}", info)
                    continue
                if got != exp:
                    ctx.violation(f"placement {pname} ({h}): two sibling elements came back as {got}, the source says {exp}",
                                  {**info, "out": out, "finding_tags": ["F18"] if exp18 is not None and got == exp18 else []})


def check_owner_text(ctx):
    """Character data of the OWNING element next to wildcard content: before the first captured child, between
    children (their tails) and after the last one.  A list wildcard and a mixed wildcard keep it, in order; whatever
    the field keeps must come back in the same order (both writers, both handlers)."""
    bodies = ["lead<a>x</a>", "lead<a>x</a>mid<b/>end", '<a k="v">x<b>y</b>z</a>mid<c/>', "lead<a/><b/>", "<a/>tail", "lead",
              # text PADDED with white space is text: it comes back with its padding (only white-space-only runs may go)
              '<a k="" xmlns:f="urn:f" f:y="">x<b j=""/></a>tail<c k="v" e=""/>',      # attributes whose value is the empty string
              "lead <a>x</a> mid <b/> end", "<a> p <b/> q </a> r <c/>s ", " one\n<a/>\ttwo"]
    # children that bind to classes of their own (with wildcards of their own) instead of generic elements: a class instance
    # has no slot for its tail, so only MIXED content (which keeps text as items of the list) can hold the text after it
    typed = ["one<tspan>two<b/>x</tspan>three", "<tbox><a/><b>q</b></tbox>tail<tspan/>end", "<tspan><tbox><c/></tbox>in</tspan>out<tbox/>"]
    xctx = XmlContext()
    # children that are CHOICES of the wildcard with primitive types (typed values, no generic element around them)
    choice = ["lead<n>5</n>tail1<a/>tail2", "<n>5</n>x<n>6</n>y<flag>true</flag>z", "<a>q</a>p<n>7</n>r<tbox><c/></tbox>s<n>8</n>"]
    for body in bodies + typed + choice:
        text = f"<R>{body}</R>"
        want = infoset.canon(infoset.parse(text), strip_ws_between_children=False)["content"]
        for placement in (("mixed-choices",) if body in choice else ("mixed", "mixed-choices") if body in typed else ("list", "mixed", "mixed-choices")):
            for h in ("native", "lxml"):
                st, obj, _w = hb.parse(text, h, xctx, {**PLACEMENTS, "mixed-choices": PChoices}[placement], "str", ParserConfig())
                info = {"text": text, "handler": h, "placement": placement}
                if st != "ok":
                    ctx.case(("owner-text", body, placement, h))
                    ctx.violation(f"owner text next to wildcard content ({placement}, {h}): {type(obj).__name__}: {obj}", info)
                    continue
                for w in ("native", "lxml"):
                    ctx.case(("owner-text", body, placement, h, w))
                    try:
                        out = rb.render(obj, xctx, w)
                        got = infoset.canon(infoset.parse(out), strip_ws_between_children=False)["content"]
                    except Exception as ex:  # noqa: BLE001
                        ctx.violation(f"owner text next to wildcard content ({placement}, {h}): writing the parsed object failed ({w}): {type(ex).__name__}: {ex}", {**info, "obj": repr(obj)[:600]})
                        continue
                    if got != want:
                        ctx.violation(f"owner text next to wildcard content ({placement}, {h} handler, {w} writer): {body!r} came back as {out}", {**info, "out": out, "obj": repr(obj)[:600]})


def chunk_boundaries(ctx):
    """LARGE documents: the sources are read in chunks (16 KiB by xml.etree, 32 KiB by lxml); an end tag, or the text
    after it, that falls on a chunk boundary is content like any other - tails before, across and after the boundary."""
    xctx = XmlContext()
    for size in (16384, 32768, 65536):
        for off in (-9, -4, -1, 0, 1, 5):
            # a short tail next to the boundary (off around 0) and a LONG one that starts well before it and ends after it
            long_tail = off in (-9, 5)
            head, rest = "<R>lead<a>", "</a>" + ("TAILTEXT" * 250 if long_tail else "TAILTEXT") + "<b/>mid<c>q</c>end</R>"
            text = head + "x" * (size + off - (1000 if long_tail else 0) - len(head) - len("</a>")) + rest
            want = infoset.canon(infoset.parse(text), strip_ws_between_children=False)["content"]
            for placement in ("list", "mixed"):
                for h in ("native", "lxml"):
                    for src in ("str", "bytes", "file"):
                        ctx.case(("chunk-boundary", size, off, placement, h, src))
                        st, obj, _w = hb.parse(text, h, xctx, PLACEMENTS[placement], src, ParserConfig())
                        info = {"size": size, "offset": off, "handler": h, "placement": placement, "source": src, "text": text[:40] + " ... " + text[-60:]}
                        if st != "ok":
                            ctx.violation(f"large document ({placement}, {h}, {src}): {type(obj).__name__}: {obj}", info)
                            continue
                        try:
                            got = infoset.canon(infoset.parse(rb.render(obj, xctx, "native")), strip_ws_between_children=False)["content"]
                        except Exception as ex:  # noqa: BLE001
                            ctx.violation(f"large document ({placement}, {h}, {src}): writing the parsed object / re-reading it failed: {type(ex).__name__}: {ex}", info)
                            continue
                        if got != want:
                            ctx.violation(f"large document ({placement}, {h} handler, {src} source): end tag of <a> at byte {size + off}: the text after it comes back as "
                                          f"{[c[:24] for c in got if isinstance(c, str)]!r} (lengths {[len(c) for c in got if isinstance(c, str)]}), the document says {[c[:24] for c in want if isinstance(c, str)]!r} (lengths {[len(c) for c in want if isinstance(c, str)]})", info)


def check_two_wildcards(ctx):
    """Two namespace-restricted wildcards in one model (##targetNamespace and ##other): every captured element
    lands in the field whose namespace rule admits it - also when its LOCAL name was seen before in the other
    namespace - and the children come back as written."""
    from ..poly_models import WildTwo

    docs = ['<w:item>1</w:item><w:mid>2</w:mid><o:item>3</o:item>', '<w:a/><o:a/>', '<w:a>x</w:a><w:b/><o:b k="v">y</o:b><o:a/>',
            '<w:n><o:n/></w:n><o:n><w:n/></o:n>']
    xctx = XmlContext()
    for body in docs:
        text = f'<w:WildTwo xmlns:w="urn:wild" xmlns:o="urn:o">{body}</w:WildTwo>'
        src = infoset.parse(text)
        want = [infoset.canon(c, strip_ws_between_children=False) for c in src["content"] if isinstance(c, dict)]
        for h in ("native", "lxml"):
            ctx.case(("two-wildcards", body, h))
            st, obj, _w = hb.parse(text, h, xctx, WildTwo, "str", ParserConfig())
            info = {"text": text, "handler": h}
            if st != "ok":
                ctx.violation(f"two restricted wildcards ({h}): {type(obj).__name__}: {obj}", info)
                continue
            wrong = [e.qname for e in obj.own if not e.qname.startswith("{urn:wild}")] + [e.qname for e in obj.other if e.qname.startswith("{urn:wild}")]
            if wrong:
                ctx.violation(f"two restricted wildcards ({h}): {wrong} captured by the wildcard that does not admit their namespace", {**info, "obj": repr(obj)[:600]})
            out = rb.render(obj, xctx, "native")
            got = [infoset.canon(c, strip_ws_between_children=False) for c in infoset.parse(out)["content"] if isinstance(c, dict)]
            if got != want:
                ctx.violation(f"two restricted wildcards ({h}): the children came back as {got}, the source says {want}", {**info, "out": out})


def run(ctx):
    ctx.rule = (
        "TLC: ALL generic trees of depth <= 2 with <= MaxKids children over 3 names x 4 attribute sets x 3 texts x 3 tails "
        "(bounded-exhaustive), invariant Faithful. Real code: every tree through 5 wildcard placements + TreeParser x both "
        "handlers x both writers, compared with the reference tree. A case is a distinct (tree, placement, handler)."
    )
    ctx.assumptions += ["xsi:type markers of primitive values may be re-typed to the narrowest XSD type (DataType.from_value); the typed value is compared, not the marker"]
    known = any(f["id"] == "F18" and f["status"] == "open" for f in ctx.findings)
    mk = 2
    texts = ctx.pick('{"", "t"}', '{"", "t", " "}')
    cfg = (f'SPECIFICATION Spec\nCONSTANTS\n  AnyAttrPolicy = "{generic_variant()}"\n  MaxKids = {mk}\n  LeafTexts = {texts}\n'
           f"  KnownF18 = {'TRUE' if known else 'FALSE'}\n")
    ctx.tlc("MC_Generic", "run.cfg", extra_files={"run.cfg": cfg + "INVARIANT InvFaithful\nCHECK_DEADLOCK FALSE\n"},
            label=f"MC_Generic all trees, <= {mk} kids", timeout=3000)
    ctx.exhaustive = True
    res = ctx.tlc("MC_Generic", "run.cfg", workers=1, extra_files={"run.cfg": cfg + "CONSTRAINT Emit\nCHECK_DEADLOCK FALSE\n"},
                  label="Gen_Generic trees", tags=("TREE",), timeout=3000)
    seen, cases = set(), []
    for _t, c in res.printed:
        k = str(c["src"])
        if k not in seen:
            seen.add(k)
            cases.append(c)
    lim = ctx.pick(1200, 40000)
    if len(cases) > lim:
        cases = random.Random(ctx.seed).sample(cases, lim)
    if ctx.quick:
        # white-space-only leaves (with every tail) are outside the quick universe: all trees with ONE such child, a
        # seeded third of them replayed
        cfg1 = cfg.replace(f"MaxKids = {mk}", "MaxKids = 1").replace(f"LeafTexts = {texts}", 'LeafTexts = {" "}')
        res1 = ctx.tlc("MC_Generic", "run.cfg", workers=1, extra_files={"run.cfg": cfg1 + "CONSTRAINT Emit\nCHECK_DEADLOCK FALSE\n"},
                       label="Gen_Generic trees with a white-space-only leaf", tags=("TREE",), timeout=3000)
        extra = []
        for _t, c in res1.printed:
            k = str(c["src"])
            if k not in seen and c["src"]["kids"]:
                seen.add(k)
                extra.append(c)
        cases += random.Random(ctx.seed + 11).sample(extra, min(len(extra), 300))
    for k, c in enumerate(cases):
        check_tree(ctx, c, list(PLACEMENTS))
        if k % 6 == 0:
            check_siblings(ctx, c)
    if cases:
        c = cases[len(cases) // 2]
        ctx.sample({"source_tree": c["src"], "as_text": tree_text(c["src"]), "reference": c["ref"]})
    ctx.extra["trees_replayed"] = len(cases)
    check_two_wildcards(ctx)
    check_owner_text(ctx)
    chunk_boundaries(ctx)
    xsi_primitives(ctx)
    xsi_text(ctx)


def xsi_primitives(ctx):
    """xsi:type'd primitives captured by a wildcard keep their typed value."""
    from decimal import Decimal

    xctx = XmlContext()
    xs = 'xmlns:xs="http://www.w3.org/2001/XMLSchema" xmlns:xsi="http://www.w3.org/2001/XMLSchema-instance"'
    for tp, lex, val in [("int", "5", 5), ("boolean", "true", True), ("decimal", "1.50", Decimal("1.50")), ("string", "t", "t"),
                         ("double", "1.5", 1.5), ("long", "-7", -7)]:
        text = f'<R><w {xs} xsi:type="xs:{tp}">{lex}</w></R>'
        for h in ("native", "lxml"):
            st, obj, _w = hb.parse(text, h, xctx, PList, "str", ParserConfig())
            ctx.case(("xsi-prim", tp, h))
            if st != "ok":
                ctx.violation(f"xsi:type'd primitive failed to parse: {obj}", {"text": text})
                continue
            for w in ("native", "lxml"):
                out = rb.render(obj, xctx, w)
                st2, obj2, _ = hb.parse(out, h, xctx, PList, "str", ParserConfig())
                if st2 != "ok" or obj2 != obj or getattr(obj.any[0], "value", None) != val:
                    ctx.violation(f"xsi:type'd primitive xs:{tp} {lex!r} does not survive: {obj!r} -> {out} -> {obj2!r}", {"text": text})


XSI_LEX = {"int": ("5", 5), "boolean": ("true", True), "decimal": ("1.50", None), "string": ("t", "t"), "double": ("1.5", 1.5), "long": ("-7", -7),
           "date": ("2020-02-29", None), "dateTime": ("2020-02-29T12:00:00Z", None), "duration": ("P1DT2H", None), "hexBinary": ("0AFF", None),
           "base64Binary": ("a2V5", None), "float": ("INF", float("inf"))}


def xsi_text(ctx):
    """spec/MC_XsiText.tla: typed character data of wildcard content, QName values at every placement of their
    namespace declaration."""
    from xml.etree.ElementTree import QName as Q

    res = ctx.tlc("MC_XsiText", "run.cfg", workers=1,
                  extra_files={"run.cfg": "SPECIFICATION Spec\nINVARIANT InvTotal\nCONSTRAINT Emit\nCHECK_DEADLOCK FALSE\n"},
                  label="MC_XsiText types x declaration placement x namespace x wildcard", tags=("XSITEXT",), timeout=1500)
    cases, seen = [], set()
    for _t, c in res.printed:
        key = json.dumps(c, sort_keys=True)
        if key not in seen:
            seen.add(key)
            cases.append(c)
    xctx = XmlContext()
    xsd = 'xmlns:xs="http://www.w3.org/2001/XMLSchema" xmlns:xsi="http://www.w3.org/2001/XMLSchema-instance"'
    uris = {"fresh": "urn:fresh", "ownElement": "urn:w", "sibling": "urn:sib", "none": ""}
    for c in cases:
        u = uris[c["uri"]]
        if c["type"] == "QName":
            lex, want = ("p:z", Q(u, "z")) if u else ("z", Q("z"))
            d = f' xmlns:p="{u}"' if u else ""
        else:
            lex, want = XSI_LEX[c["type"]]
            d = ""
        at = {k: (d if c["decl"] == k else "") for k in ("self", "root")}
        inner = f'<w:w xmlns:w="urn:w"{at["self"]} xsi:type="xs:{c["type"]}">{lex}</w:w>'
        text = f'<R {xsd}{at["root"]}><s:sib xmlns:s="urn:sib">t</s:sib>{inner}</R>'
        clazz = PLACEMENTS[c["placement"]]
        for h in ("native", "lxml"):
            ctx.case(("xsi-text", json.dumps(c, sort_keys=True), h))
            st, obj, _w = hb.parse(text, h, xctx, clazz, "str", ParserConfig())
            if st != "ok":
                ctx.violation(f"xsi:type'd text failed to parse: {obj}", {"text": text, "handler": h})
                continue
            got = _typed_values(obj)
            if len(got) != 1 or (want is not None and (got[0] != want or type(got[0]) is not type(want))):
                ctx.violation(f"xsi:type=xs:{c['type']} text {lex!r} ({c['placement']} wildcard, {h}): value {got!r}, expected {want!r}", {"text": text, "handler": h})
                continue
            for w in ("native", "lxml"):
                try:
                    out = rb.render(obj, xctx, w)
                except Exception as ex:  # noqa: BLE001
                    ctx.violation(f"serializing xsi:type'd text xs:{c['type']} failed ({w}): {type(ex).__name__}: {ex}", {"text": text, "writer": w})
                    continue
                st2, obj2, _ = hb.parse(out, h, xctx, clazz, "str", ParserConfig())
                if st2 != "ok" or obj2 != obj:
                    ctx.violation(f"xsi:type=xs:{c['type']} text {lex!r} (namespace declared on {c['decl']}, {c['uri']}; {c['placement']} wildcard) does not survive "
                                  f"({w} writer, {h} handler): {out} -> {repr(obj2)[:300]}", {"text": text, "serialized": out, "handler": h, "writer": w})


def _typed_values(obj):
    """The typed values (DerivedElement.value that is not a generic element) anywhere below obj."""
    out = []

    def walk(o):
        if isinstance(o, DerivedElement):
            if isinstance(o.value, (AnyElement, DerivedElement)) or dataclasses.is_dataclass(o.value):
                walk(o.value)
            else:
                out.append(o.value)
        elif isinstance(o, AnyElement):
            for k in o.children:
                walk(k)
        elif isinstance(o, (list, tuple)):
            for k in o:
                walk(k)
        elif dataclasses.is_dataclass(o):
            for f in dataclasses.fields(o):
                walk(getattr(o, f.name))

    walk(obj)
    return out


def replay(ctx, doc):
    print(doc["what"])
    print(doc["case"].get("text"))
