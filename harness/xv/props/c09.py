"""C09 - parsing depends only on the XML infoset.

spec/Handler.tla: TLC enumerates every placement of namespace declarations over a
root > (element | wrapper) > leaf chain and checks that the map each pump hands to the
parser resolves the leaf's QName value as XML Namespaces prescribes (PumpsAgree).  Every
such document is parsed by both real handlers (decisive: the value is the QName the scoping
rule gives).  The documents of the RoundTrip universe are re-spelled (other prefixes,
default namespace, attribute order, whitespace between children, CDATA, character references,
comments, PIs, XML declaration, UTF-16 / Latin-1, XInclude) and must parse to the same object.
"""
from __future__ import annotations

import os
import tempfile
from xml.etree.ElementTree import QName

from xsdata.exceptions import ParserError
from xsdata.formats.dataclass.context import XmlContext
from xsdata.formats.dataclass.parsers import XmlParser
from xsdata.formats.dataclass.parsers.config import ParserConfig

from .. import handler_bind as hb
from .. import roundtrip_bind as rb
from .. import rt_engine as rt
from ..policy import handler_variant, union_variant

NONE = "__none__"


def handler_cfg(emit=False, mids='{"element", "wrapper", "union", "wildModel"}'):
    out = (f'SPECIFICATION Spec\nCONSTANTS\n  WrapperPolicy = "{handler_variant()}"\n  UnionPolicy = "{union_variant()}"\n  MidKinds = {mids}\n  Pfxs = {{"p", ""}}\n')
    return out + ("CONSTRAINT Emit\n" if emit else "INVARIANT PumpsAgree\n") + "CHECK_DEADLOCK FALSE\n"


def scoping_cases(ctx):
    ctx.tlc("MC_Handler", "run.cfg", extra_files={"run.cfg": handler_cfg()}, label="MC_Handler PumpsAgree", timeout=600)
    res = ctx.tlc("MC_Handler", "run.cfg", workers=1, extra_files={"run.cfg": handler_cfg(emit=True)}, label="Gen_Handler documents",
                  tags=("DOC",), timeout=600)
    seen, out = set(), []
    for _t, c in res.printed:
        k = str(c["levels"])
        if k not in seen:
            seen.add(k)
            out.append(c)
    return out


def expected_leaf(uri, prefix):
    if uri == NONE:
        return None  # undeclared prefix: the value cannot be converted
    return QName(uri, "x") if uri else QName("x")


def check_scoping(ctx, case, want_agree=True):
    xctx = XmlContext()
    for prefix, decoys in (("p", False), ("", False), ("p", True), ("", True)):
        text = hb.scoping_doc(case["levels"], prefix, decoys)
        exp = expected_leaf(case["scope"][prefix], prefix)
        got = {}
        for h in ("native", "lxml"):
            st, obj, nwarn = hb.parse(text, h, xctx)
            ctx.case(("scope", str(case["levels"]), prefix, decoys, h))
            if st != "ok":
                if exp is None and case["levels"][1]["kind"] == "union" and isinstance(obj, ParserError):
                    # an unresolvable QName inside a union: every candidate is tried strictly, none fits - a documented
                    # refusal, the same for both handlers
                    got[h] = "refused"
                    continue
                ctx.violation(f"{h} handler failed on a well-formed document: {type(obj).__name__}: {obj}", {"levels": case["levels"], "text": text})
                continue
            val = hb.leaf_value(obj)
            got[h] = val
            if exp is not None and val != exp:
                ctx.violation(f"{h} handler: QName value {('p:x' if prefix else 'x')!r} resolved to {val!r}; the in-scope namespaces give {exp!r}",
                              {"levels": case["levels"], "text": text, "handler": h})
            elif exp is None and nwarn == 0 and isinstance(val, QName):
                ctx.violation(f"{h} handler resolved an undeclared prefix to {val!r}", {"levels": case["levels"], "text": text})
            spec = case["native"][prefix] if h == "native" else case["scope"][prefix]
            spec_val = expected_leaf(spec, prefix)
            if (spec_val is None) != (not isinstance(val, QName)) or (spec_val is not None and val != spec_val):
                ctx.divergences.append({"kind": "handler-map", "handler": h, "levels": case["levels"], "prefix": prefix, "spec": spec, "real": repr(val)})
        if want_agree and len(got) == 2 and got["native"] != got["lxml"]:
            ctx.violation(f"handlers disagree on {text!r}: native {got['native']!r}, lxml {got['lxml']!r}", {"levels": case["levels"], "text": text})


def check_union_siblings(ctx, case):
    """spec/Handler.tla, middle kind union: declarations made by a CHILD of the union element end with that child - the
    union element's own QName attribute and its later children see the scope of the union element."""
    if case["levels"][1]["kind"] != "union":
        return
    scope = {"m": hb.NS_M}
    for lv in case["levels"][:2]:
        for p, u in lv["decls"]:
            scope[p] = u
    xctx = XmlContext()
    for prefix in ("p", ""):
        uri = scope.get(prefix, "" if prefix == "" else None)
        inner_uri = case["scope"][prefix]
        if uri is None or inner_uri == NONE:
            continue            # (an unresolvable value anywhere makes every candidate of the union fail)
        exp = QName(uri, "x") if uri else QName("x")
        text = hb.union_sibling_doc(case["levels"], prefix)
        for h in ("native", "lxml"):
            ctx.case(("union-siblings", str(case["levels"]), prefix, h))
            st, obj, _nwarn = hb.parse(text, h, xctx)
            if st != "ok":
                ctx.violation(f"{h} handler failed on a well-formed document: {type(obj).__name__}: {obj}", {"levels": case["levels"], "text": text})
                continue
            got = (getattr(obj.u, "ref", None), obj.u.after.q if getattr(obj.u, "after", None) else None)
            if got != (exp, exp):
                ctx.violation(f"{h} handler: attribute and later child of a union element resolved to {got!r}; the scope of the union element gives {exp!r}",
                              {"levels": case["levels"], "text": text, "handler": h})


def check_spellings(ctx, case, styles=(0, 1, 2, 3, 4), respell=hb.RESPELL):
    """All spellings of one prescribed document parse to the object itself."""
    r = rt.Real(case)
    cfg = ParserConfig(fail_on_unknown_properties=True, fail_on_unknown_attributes=True)
    # the reference point: the plain spelling through the native handler
    st0, base, _w0 = hb.parse(rb.render_doc(case["doc"], 0), "native", r.ctx, r.mod.Root, "str", cfg)
    if st0 != "ok":
        ctx.violation(f"the plain spelling of a prescribed document does not parse: {base}", r.info(text=rb.render_doc(case["doc"], 0)))
        return
    for style in styles:
        if style in (3, 4) and any(f["kind"] == "Wildcard" for f in case["m"]["fields"]):
            pass
        text = rb.render_doc(case["doc"], style)
        variants = [("plain", text)] + [(how, hb.respell(text, how)) for how in respell if style == 0]
        for how, t in variants:
            for h in ("native", "lxml"):
                kind = "bytes" if isinstance(t, bytes) else "str"
                st, obj, _w = hb.parse(t, h, r.ctx, r.mod.Root, kind, cfg)
                ctx.case(("spell", str(case["m"]), str(case["inst"]), style, how, h))
                if st != "ok" or obj != base:
                    ctx.violation(f"spelling style={style}/{how} ({h}) parses to {repr(obj)[:300]}; the plain spelling parses to {base!r}",
                                  r.info(text=t if isinstance(t, str) else repr(t), handler=h, style=style, respell=how))
    # XInclude: the first child element factored out into a second file
    kids = [c for c in case["doc"]["content"] if "el" in c]
    if kids:
        d = tempfile.mkdtemp(prefix="xv-xi-")
        try:
            part = rb.render_doc(kids[0]["el"], 0)
            # compositions of rewrites: the included part may itself carry markup inside its character data
            for how in ("comment-in-text", "pi-in-text"):
                if (len(part) + len(how)) % 3 == 0:
                    part = hb.respell(part, how) if "</" in part else part
                    break
            with open(os.path.join(d, "part.xml"), "w", encoding="utf-8") as f:
                f.write(part)
            doc2 = dict(case["doc"])
            marker = {"name": ["http://www.w3.org/2001/XInclude", "include"], "attrs": [[["", "href"], [{"s": "part.xml"}]]], "content": []}
            doc2["content"] = [({"el": marker} if c is kids[0] else c) for c in case["doc"]["content"]]
            main = os.path.join(d, "main.xml")
            with open(main, "w", encoding="utf-8") as f:
                f.write(rb.render_doc(doc2, 0))
            for h in ("native", "lxml"):
                p = XmlParser(context=r.ctx, handler=hb.HANDLERS[h], config=ParserConfig(process_xinclude=True, base_url=main))
                try:
                    obj = p.parse(main, r.mod.Root)
                except Exception as ex:  # noqa: BLE001
                    obj = ex
                ctx.case(("xinclude", str(case["m"]), str(case["inst"]), h))
                if obj != base:
                    ctx.violation(f"XInclude spelling ({h}) parses to {repr(obj)[:300]}; the plain spelling parses to {base!r}",
                                  r.info(handler=h, finding_tags=["F14"] if h == "native" and has_qualified_qname(case["doc"]) else []))
        finally:
            import shutil

            shutil.rmtree(d, ignore_errors=True)


def anytype_spellings(ctx):
    """Hand-written documents for xs:anyType elements with plain text (no xsi:type): white space between the
    children of the element-only parent must not change what they bind to."""
    from ..poly_models import AnyHolder

    xs = 'xmlns:xs="http://www.w3.org/2001/XMLSchema" xmlns:xsi="http://www.w3.org/2001/XMLSchema-instance"'
    bodies = [["<v>plain</v>", "<w>one</w>", "<w>two words</w>", "<last>t</last>"],
              ["<v>7</v>", f'<w {xs} xsi:type="xs:int">5</w>', "<w>x</w>"],
              ["<w>a</w>", "<last>z</last>"]]
    seps = {"compact": "", "newline-indent": "\n  ", "blank": " ", "tab": "\t", "crlf": "\r\n", "blank-lines": "\n\n    \n"}
    xctx = XmlContext()
    for body in bodies:
        base = {}
        for name, sep in seps.items():
            text = "<AnyHolder>" + sep + sep.join(body) + (sep if sep else "") + "</AnyHolder>"
            for h in ("native", "lxml"):
                ctx.case(("anytype", "".join(body), name, h))
                st, obj, _w = hb.parse(text, h, xctx, AnyHolder, "str", ParserConfig())
                cur = (st, obj if st == "ok" else type(obj).__name__)
                if name == "compact":
                    base[h] = cur
                elif cur != base[h]:
                    ctx.violation(f"anyType elements: the {name} spelling ({h}) parses to {repr(cur[1])[:300]}; the compact spelling parses to {repr(base[h][1])[:300]}",
                                  {"text": text, "handler": h})


PAD_FIELDS = {("element", "int"): "i", ("element", "float"): "f", ("element", "boolean"): "b", ("element", "decimal"): "d",
              ("element", "hexBinary"): "hx", ("element", "base64Binary"): "b64", ("element", "date"): "dt", ("element", "dateTime"): "dtm",
              ("element", "time"): "tm", ("element", "duration"): "du", ("element", "period"): "pe", ("element", "enum"): "e",
              ("element", "intTokens"): "ints", ("element", "string"): "s",
              ("attribute", "int"): "ai", ("attribute", "float"): "af", ("attribute", "enum"): "n"}


def padded_values(ctx):
    """spec/MC_Pad.tla: XML whitespace around the lexical form of a non-string value is not part of the value
    (whiteSpace = collapse); around a string it is (preserve)."""
    import xml.etree.ElementTree as ET

    from .. import zoo

    res = ctx.tlc("MC_Pad", "run.cfg", workers=1,
                  extra_files={"run.cfg": "SPECIFICATION Spec\nINVARIANT InvStripIdempotent\nCONSTRAINT Emit\nCHECK_DEADLOCK FALSE\n"},
                  label="MC_Pad type x position x pads", tags=("PAD",), timeout=1500)
    pads, seen = [], set()
    for _t, c in res.printed:
        key = (c["type"], c["pos"], c["lpad"], c["rpad"])
        if key not in seen:
            seen.add(key)
            pads.append(c)
    xctx = XmlContext()
    insts = list(zoo.instances(ctx.seed + 9, ctx.pick(40, 400), roots=[zoo.Prims]))
    cfg = ParserConfig(fail_on_converter_warnings=True)
    n = 0
    for c in pads:
        fname = PAD_FIELDS[(c["pos"], c["type"])]
        have = [o for o in insts if getattr(o, fname) not in (None, [], "")]
        if not have:
            ctx.divergences.append({"kind": "pad-field-never-set", "field": fname})
            continue
        for obj in have[: ctx.pick(3, 12)]:
            text = rb.render(obj, xctx, "native")
            root = ET.fromstring(text)
            if c["pos"] == "element":
                target = [e for e in root if e.tag.rpartition("}")[2] == fname][0]
                target.text = c["lpad"] + (target.text or "") + c["rpad"]
            else:
                key = [k for k in root.attrib if k.rpartition("}")[2] == fname][0]
                root.set(key, c["lpad"] + root.get(key) + c["rpad"])
            padded = ET.tostring(root, encoding="unicode")
            want = obj
            if c["facet"] == "preserve":
                # the independent oracle for what the document says: expat's infoset (line ends normalised)
                import dataclasses

                want = dataclasses.replace(obj, **{fname: [e for e in ET.fromstring(padded) if e.tag.rpartition("}")[2] == fname][0].text})
            for h in ("native", "lxml"):
                n += 1
                ctx.case(("pad", c["type"], c["pos"], c["lpad"], c["rpad"], repr(getattr(obj, fname)), h))
                st, got, _w = hb.parse(padded, h, xctx, zoo.Prims, "str", cfg)
                if st != "ok" or not c01eq(got, want):
                    ctx.violation(f"{c['type']} {c['pos']} padded with {c['lpad']!r} / {c['rpad']!r} ({h}): parses to {fname}={repr(getattr(got, fname, got))[:200]}, expected {getattr(want, fname)!r}",
                                  {"text": padded, "handler": h, "type": c["type"], "position": c["pos"]})
    ctx.extra["padded_value_cases"] = n


def c01eq(a, b):
    from .c01 import _eq

    return _eq(a, b)


def xinclude_text(ctx):
    """Splitting a document with XInclude, parse="text": the included file is character data in ITS OWN encoding
    (the encoding attribute); the object is the one the inline document gives."""
    import shutil

    from ..poly_models import AnyHolder

    texts = ["caf\u00e9", "plain", "\u00fc\u00df \u00a9 x", "a < b & c"]
    # (name in the document, Python codec); no byte order mark: what a processor does with one inside text is its own affair
    encodings = [("utf-8", "utf-8"), ("ISO-8859-1", "latin-1"), ("UTF-16LE", "utf-16-le"), ("windows-1252", "cp1252")]
    for text in texts:
        inline = "<AnyHolder><last>" + text.replace("&", "&amp;").replace("<", "&lt;") + "</last></AnyHolder>"
        for enc, codec in encodings:
            d = tempfile.mkdtemp(prefix="xv-xit-")
            try:
                with open(os.path.join(d, "part.txt"), "wb") as f:
                    f.write(text.encode(codec))
                main = os.path.join(d, "main.xml")
                with open(main, "w", encoding="utf-8") as f:
                    f.write(f'<AnyHolder xmlns:xi="http://www.w3.org/2001/XInclude"><last><xi:include href="part.txt" parse="text" encoding="{enc}"/></last></AnyHolder>')
                for h in ("native", "lxml"):
                    ctx.case(("xinclude-text", text, enc, h))
                    xctx = XmlContext()
                    st, base, _w = hb.parse(inline, h, xctx, AnyHolder, "str", ParserConfig())
                    import pathlib

                    # three ways to hand the file over: path string + explicit base URL, path string alone, from_path(Path)
                    # without a base URL (the location of the document is the base of its relative references)
                    routes = {"parse(str, base_url)": lambda: XmlParser(context=xctx, handler=hb.HANDLERS[h], config=ParserConfig(process_xinclude=True, base_url=main)).parse(main, AnyHolder),
                              "parse(str)": lambda: XmlParser(context=xctx, handler=hb.HANDLERS[h], config=ParserConfig(process_xinclude=True)).parse(main, AnyHolder),
                              "from_path(Path)": lambda: XmlParser(context=xctx, handler=hb.HANDLERS[h], config=ParserConfig(process_xinclude=True)).from_path(pathlib.Path(main), AnyHolder)}
                    for rname, route in routes.items():
                        try:
                            obj = route()
                        except Exception as ex:  # noqa: BLE001
                            obj = ex
                        if st != "ok" or obj != base:
                            ctx.violation(f"XInclude parse=text encoding={enc} ({h}, {rname}) parses to {repr(obj)[:200]}; the inline document parses to {base!r}",
                                          {"handler": h, "encoding": enc, "text": text, "route": rname})
            finally:
                shutil.rmtree(d, ignore_errors=True)


def attribute_order(ctx):
    """The attributes of an element are a SET: every order of the same attributes gives the same outcome.  Models with a
    declared attribute next to an attribute wildcard restricted to a namespace (some attributes are admitted, some not),
    with and without fail_on_unknown_attributes, both handlers."""
    import dataclasses
    import itertools
    from typing import Dict, Optional

    from xsdata.exceptions import ParserError as PE

    def model(name, ns_rule):
        return dataclasses.make_dataclass(name, [
            ("id", Optional[int], dataclasses.field(default=None, metadata={"type": "Attribute"})),
            ("rest", Dict[str, str], dataclasses.field(default_factory=dict, metadata={"type": "Attributes", "namespace": ns_rule}))])

    attrs = ['id="7"', 'ok:a="1"', 'bad:b="2"', 'ok:c="3"', 'plain="4"']
    xctx = XmlContext()
    for mname, rule in (("AttrOk", "urn:ok"), ("AttrOther", "##other"), ("AttrLocal", "##local"), ("AttrAny", "##any")):
        clazz = model(mname, rule)
        for subset in (attrs, attrs[1:4], attrs[1:3], attrs[2:]):
            for strict in (False, True):
                ref = None
                for perm in itertools.permutations(subset):
                    text = f'<{mname} xmlns:ok="urn:ok" xmlns:bad="urn:bad" {" ".join(perm)}/>'
                    for h in ("native", "lxml"):
                        ctx.case(("attr-order", mname, perm, strict, h))
                        try:
                            cur = ("ok", XmlParser(context=xctx, handler=hb.HANDLERS[h], config=ParserConfig(fail_on_unknown_attributes=strict)).from_string(text, clazz))
                        except PE as ex:
                            cur = ("exc", "ParserError")
                        except Exception as ex:  # noqa: BLE001
                            cur = ("exc", type(ex).__name__)
                        if ref is None:
                            ref = (cur, text)
                        elif cur != ref[0]:
                            ctx.violation(f"the order of the attributes changes the outcome ({rule} attribute wildcard, fail_on_unknown_attributes={strict}, {h}): "
                                          f"{text} gives {cur[1]!r}, {ref[1]} gives {ref[0][1]!r}", {"text": text, "other": ref[1], "handler": h})
                            break


def default_ns_attribute_values(ctx):
    """Attribute VALUES are not names: an unprefixed value stays what it is whether the document binds its namespace
    to a prefix or makes it the default namespace (on the root or further in).  Attribute wildcards of a typed model
    and of generic elements, both handlers."""
    import dataclasses
    from typing import Dict, List, Optional

    clazz = dataclasses.make_dataclass("DnsAttrs", [
        ("rest", Dict[str, str], dataclasses.field(default_factory=dict, metadata={"type": "Attributes"})),
        ("any", List[object], dataclasses.field(default_factory=list, metadata={"type": "Wildcard", "namespace": "##any"}))],
        namespace={"Meta": type("Meta", (), {"namespace": "urn:d"})})
    xctx = XmlContext()
    for val in ("plain", "two words", "http://example.com/x", "x:y", ""):   # (no value uses a DECLARED prefix: those are read as names)
        spellings = [
            f'<d:DnsAttrs xmlns:d="urn:d" k="{val}"><d:item k="{val}"><d:sub j="{val}"/></d:item></d:DnsAttrs>',
            f'<DnsAttrs xmlns="urn:d" k="{val}"><item k="{val}"><sub j="{val}"/></item></DnsAttrs>',
            f'<d:DnsAttrs xmlns:d="urn:d" k="{val}"><item xmlns="urn:d" k="{val}"><sub j="{val}"/></item></d:DnsAttrs>',
            f'<DnsAttrs xmlns="urn:d" xmlns:d="urn:d" k="{val}"><d:item k="{val}"><sub j="{val}"/></d:item></DnsAttrs>',
        ]
        ref = None
        for text in spellings:
            for h in ("native", "lxml"):
                ctx.case(("dns-attr-value", val, text, h))
                try:
                    cur = ("ok", XmlParser(context=xctx, handler=hb.HANDLERS[h]).from_string(text, clazz))
                except Exception as ex:  # noqa: BLE001
                    cur = ("exc", type(ex).__name__)
                if ref is None:
                    ref = (cur, text)
                elif cur != ref[0]:
                    ctx.violation(f"the same infoset spelled with a default namespace parses differently ({h}): {text} gives {cur[1]!r}; {ref[1]} gives {ref[0][1]!r}"[:900],
                                  {"text": text, "other": ref[1], "handler": h})


def whitespace_around_wildcard_holders(ctx):
    """White space between the children of element-only content is no content: a document parses to the same object
    indented and compact - also around elements whose class holds a wildcard (list or single) and no text field."""
    import dataclasses
    from typing import List, Optional

    inner_list = dataclasses.make_dataclass("WsPayloadList", [("any", List[object], dataclasses.field(default_factory=list, metadata={"type": "Wildcard", "namespace": "##any"}))])
    inner_one = dataclasses.make_dataclass("WsPayloadOne", [("any", Optional[object], dataclasses.field(default=None, metadata={"type": "Wildcard", "namespace": "##any"}))])
    xctx = XmlContext()
    for inner, body in ((inner_list, "<a>1</a><b/>"), (inner_list, ""), (inner_one, "<c>x</c>"), (inner_one, "")):
        holder = dataclasses.make_dataclass("WsHolder" + inner.__name__, [
            ("payload", Optional[inner], dataclasses.field(default=None, metadata={"type": "Element"})),
            ("items", List[inner], dataclasses.field(default_factory=list, metadata={"type": "Element", "name": "item"})),
            ("n", Optional[int], dataclasses.field(default=None, metadata={"type": "Element"}))])
        name = holder.__name__
        compact = f"<{name}><payload>{body}</payload><item>{body}</item><item>{body}</item><n>5</n></{name}>"
        spellings = [compact, compact.replace("><", ">\n  <"), compact.replace("</payload>", "</payload>\n").replace("</item>", "</item>\t "),
                     compact.replace("<payload>", "<payload>\n").replace("</payload>", "\n</payload>") if body else compact]
        ref = None
        for text in spellings:
            for h in ("native", "lxml"):
                ctx.case(("ws-wildcard-holder", name, body, text, h))
                try:
                    cur = ("ok", XmlParser(context=xctx, handler=hb.HANDLERS[h]).from_string(text, holder))
                except Exception as ex:  # noqa: BLE001
                    cur = ("exc", type(ex).__name__)
                if ref is None:
                    ref = (cur, text)
                elif cur != ref[0]:
                    ctx.violation(f"white space between elements changes the parsed object ({h}): {text!r} gives {cur[1]!r}; {ref[1]!r} gives {ref[0][1]!r}"[:900],
                                  {"text": text, "other": ref[1], "handler": h})


def has_qualified_qname(doc) -> bool:
    """Selector part of F14: the document carries a namespace-qualified QName value or xsi:type."""
    for _n, atoms in doc["attrs"]:
        if any("q" in a and a["q"][0] for a in atoms):
            return True
    for c in doc["content"]:
        if "text" in c and any("q" in a and a["q"][0] for a in c["text"]):
            return True
        if "el" in c and has_qualified_qname(c["el"]):
            return True
    return False


def run(ctx):
    ctx.rule = (
        "TLC: all placements of 6 declaration sets over a 3-level chain x {element, wrapper} parents (MC_Handler); every such "
        "document parsed by both handlers and compared with the XML Namespaces scoping rule. Documents of the RoundTrip universe "
        "re-spelled in 5 styles x 6 lexical rewrites + XInclude, both handlers, compared with the original object. "
        "A case is a distinct (document, spelling, handler)."
    )
    ctx.assumptions += ["expat / libxml2 deliver the XML infoset for CDATA, character references, comments, PIs and encodings"]
    for c in scoping_cases(ctx):
        check_scoping(ctx, c)
        check_union_siblings(ctx, c)
    ctx.exhaustive = True
    cases = rt.generate(ctx, label="Gen_RoundTrip documents 1 field", max_fields=1, faults=("none",), cfgs="StrictOnly")
    cases += rt.generate(ctx, label="Gen_RoundTrip documents 2 fields (simulate)", max_fields=2, faults=("none",), cfgs="StrictOnly",
                         simulate=ctx.pick(400, 12000))
    for k, case in enumerate(cases):
        check_spellings(ctx, case, respell=hb.RESPELL if k % 4 == 0 else ())
    if cases:
        c = cases[len(cases) // 3]
        ctx.sample({"document": c["doc"], "spellings": [rb.render_doc(c["doc"], s) for s in (0, 1, 2)]})
    ctx.extra["documents_respelled"] = len(cases)
    anytype_spellings(ctx)
    padded_values(ctx)
    xinclude_text(ctx)
    attribute_order(ctx)
    default_ns_attribute_values(ctx)
    whitespace_around_wildcard_holders(ctx)


def replay(ctx, doc):
    case = doc["case"]
    if "levels" in case:
        res = scoping_cases(ctx)
        for c in res:
            if c["levels"] == case["levels"]:
                check_scoping(ctx, c)
    else:
        print(case.get("text"))
