"""C10 - strictness options do what they say.

RoundTrip.tla: the three fail_on_* options are constants of the parser node-stack machine; TLC
injects an unknown element (with a nested subtree, first or last child), an unknown attribute,
an attribute in the XSI namespace, or an unconvertible value into every prescribed document of
the universe and checks InvStrictUnknown, InvUnknownAttr, InvXsiAttr, InvBadValue for all eight
option combinations.  Binding: every case is parsed by both real handlers; decisive are the
statement's own observables (equal to the un-injected parse, ParserError, exactly one
ConverterWarning with the value kept as given).  The dictionary / JSON decoder gets unknown keys
and unconvertible values under the same options.
"""
from __future__ import annotations

import copy
import json
import warnings

from xsdata.exceptions import ConverterWarning, ParserError
from xsdata.formats.dataclass.parsers import DictDecoder, JsonParser
from xsdata.formats.dataclass.parsers.config import ParserConfig
from xsdata.formats.dataclass.serializers import DictEncoder

from .. import roundtrip_bind as rb
from .. import rt_engine as rt

FAULTS = ("none", "unknownFirst", "unknownLast", "siblingInWrapper", "unknownAttr", "xsiAttr", "badValue")
INVS = ("InvSlots", "InvStrictUnknown", "InvUnknownAttr", "InvXsiAttr", "InvBadValue", "InvValidAccepted")


def check_case(ctx, case):
    r, doc, results = rt.run_fault_case(ctx, case, styles=(0, 1))
    cfg, fault = case["cfg"], case["fault"]
    for style, h, out, nwarn, text in results:
        ctx.case(("opt", str(case["m"]), str(case["inst"]), fault, str(cfg), str(case["evs"]), h, style))
        info = r.info(text=text, handler=h)
        # the statement's reference: the parse of the un-injected document
        b_out, _bw, _bt = rb.record_parse(rb.render_doc(case["doc"], style), r.mod.Root, r.ctx, h, rt.STRICT)
        if b_out[0] != "ok":
            ctx.violation(f"the un-injected document does not parse: {b_out[1]}", info)
            continue
        base = b_out[1]
        if fault in ("none", "xsiAttr"):
            if out[0] != "ok" or out[1] != base:
                ctx.violation(f"{fault}: expected the plain object, got {repr(out[1])[:200]}", info)
        elif fault in ("unknownFirst", "unknownLast", "siblingInWrapper"):
            if cfg["unknownProps"]:
                if out[0] != "exc" or not isinstance(out[1], ParserError):
                    ctx.violation(f"unknown element with fail_on_unknown_properties: expected ParserError, got {repr(out[1])[:200]}", info)
            elif out[0] != "ok" or out[1] != base:
                ctx.violation(f"unknown element with fail_on_unknown_properties off changed the result: {repr(out[1])[:200]} vs {base!r}", info)
        elif fault == "unknownAttr":
            if cfg["unknownAttrs"]:
                if out[0] != "exc" or not isinstance(out[1], ParserError):
                    ctx.violation(f"unknown attribute with fail_on_unknown_attributes: expected ParserError, got {repr(out[1])[:200]}", info)
            elif out[0] != "ok" or out[1] != base:
                ctx.violation(f"unknown attribute with the option off changed the result: {repr(out[1])[:200]}", info)
        elif fault == "badValue":
            if cfg["convWarnings"]:
                if out[0] != "exc" or not isinstance(out[1], ParserError):
                    ctx.violation(f"unconvertible value with fail_on_converter_warnings: expected ParserError, got {repr(out[1])[:200]}", info)
            else:
                kept = out[0] == "ok" and "x1" in repr(out[1])
                if not kept or nwarn != 1:
                    ctx.violation(f"unconvertible value: expected it kept as given with one ConverterWarning, got {repr(out[1])[:200]} with {nwarn} warning(s)", info)


def _dict_paths(x, path=()):
    """Paths to every dict node of a JSON-like document."""
    out = []
    if isinstance(x, dict):
        out.append(path)
        for k, v in x.items():
            out += _dict_paths(v, path + (k,))
    elif isinstance(x, list):
        for i, v in enumerate(x):
            out += _dict_paths(v, path + (i,))
    return out


def around_union_trials(ctx):
    """Unconvertible values before / after / next to a union-of-models element, and in the NEXT document parsed with the
    same parser and configuration objects: kept with a warning, or ParserError when conversion warnings fail."""
    from xsdata.formats.dataclass.context import XmlContext
    from xsdata.formats.dataclass.parsers import XmlParser

    from .. import handler_bind as hb
    from ..poly_models import UThenInt

    U = "<u><w>s</w><v>1</v></u>"
    docs = [("after", f"<UThenInt>{U}<n>abc</n></UThenInt>", "abc"), ("before", f"<UThenInt><before>abc</before>{U}</UThenInt>", "abc"),
            ("attribute", f'<UThenInt a="abc">{U}</UThenInt>', "abc"), ("next-document", "<UThenInt><n>abc</n></UThenInt>", "abc")]
    xctx = XmlContext()
    for h in ("native", "lxml"):
        for strict in (False, True):
            cfg = ParserConfig(fail_on_converter_warnings=strict)
            parser = XmlParser(context=xctx, handler=hb.HANDLERS[h], config=cfg)      # ONE parser and ONE configuration for all documents
            for label, text, raw in docs:
                ctx.case(("around-union", h, strict, label))
                with warnings.catch_warnings(record=True) as w:
                    warnings.simplefilter("always")
                    try:
                        got = ("ok", parser.from_string(text, UThenInt))
                    except Exception as ex:  # noqa: BLE001
                        got = ("exc", ex)
                nw = sum(1 for x in w if issubclass(x.category, ConverterWarning))
                info = {"text": text, "handler": h, "strict": strict}
                if strict and not (got[0] == "exc" and isinstance(got[1], ParserError)):
                    ctx.violation(f"unconvertible value {label} a union element with fail_on_converter_warnings ({h}): expected ParserError, got {got[1]!r}"[:400], info)
                if not strict and not (got[0] == "ok" and raw in (got[1].n, got[1].before, got[1].a) and nw >= 1):
                    ctx.violation(f"unconvertible value {label} a union element ({h}): expected the value kept with a ConverterWarning, got {got[1]!r} with {nw} warning(s)"[:400], info)
                if cfg.fail_on_converter_warnings is not strict:
                    ctx.violation(f"parsing changed the caller's ParserConfig: fail_on_converter_warnings is now {cfg.fail_on_converter_warnings} ({h}, document {label})", info)
                    cfg.fail_on_converter_warnings = strict


def union_element_attributes(ctx):
    """Unknown attributes ON a union-of-models element (no candidate declares them): ignored unless
    fail_on_unknown_attributes, xsi attributes always tolerated - exactly as on any other element."""
    from xsdata.formats.dataclass.context import XmlContext
    from xsdata.formats.dataclass.parsers import XmlParser

    from .. import handler_bind as hb
    from ..poly_models import UThenInt

    XSI = 'xmlns:xsi="http://www.w3.org/2001/XMLSchema-instance"'
    plain = "<UThenInt><u><w>s</w><v>1</v></u><n>2</n></UThenInt>"
    xctx = XmlContext()
    for h in ("native", "lxml"):
        base = XmlParser(context=xctx, handler=hb.HANDLERS[h]).from_string(plain, UThenInt)
        for label, attrs, unknown in (("unknown", ' zz="1"', True), ("qualified-unknown", ' xmlns:o="urn:o" o:zz="1"', True),
                                      ("xsi", f' {XSI} xsi:schemaLocation="urn:a a.xsd"', False), ("xsi-nil-false", f' {XSI} xsi:nil="false"', False)):
            text = plain.replace("<u>", f"<u{attrs}>")
            for ua in (False, True):
                ctx.case(("union-attrs", h, label, ua))
                try:
                    got = ("ok", XmlParser(context=xctx, handler=hb.HANDLERS[h], config=ParserConfig(fail_on_unknown_attributes=ua)).from_string(text, UThenInt))
                except Exception as ex:  # noqa: BLE001
                    got = ("exc", ex)
                info = {"text": text, "handler": h, "fail_on_unknown_attributes": ua}
                if ua and unknown:
                    if not (got[0] == "exc" and isinstance(got[1], ParserError)):
                        ctx.violation(f"unknown attribute on a union element with fail_on_unknown_attributes ({h}): expected ParserError, got {got[1]!r}"[:400], info)
                elif got != ("ok", base):
                    ctx.violation(f"{label} attribute on a union element ({h}, fail_on_unknown_attributes={ua}) changed the result: {got[1]!r} vs {base!r}"[:500], info)


def restricted_wildcards(ctx):
    """Unknown content whose LOCAL name also occurs, in an admitted namespace, earlier or later in the same document:
    a ##other wildcard admits o:note / o:id and must not thereby admit w:note / w:id (the target namespace)."""
    import itertools

    from xsdata.formats.dataclass.context import XmlContext
    from xsdata.formats.dataclass.parsers import XmlParser

    from .. import handler_bind as hb
    from ..poly_models import WildBoth

    head = '<w:WildBoth xmlns:w="urn:wild" xmlns:o="urn:o"{attrs}><w:head>h</w:head>{body}</w:WildBoth>'
    good_el, bad_el = "<o:note>n</o:note>", "<w:note><w:x>1</w:x></w:note>"
    good_at, bad_at = ' o:id="1"', ' w:id="2"'
    xctx = XmlContext()
    n = 0
    for up, ua, cw in itertools.product((False, True), repeat=3):
        cfg = ParserConfig(fail_on_unknown_properties=up, fail_on_unknown_attributes=ua, fail_on_converter_warnings=cw)
        for h in ("native", "lxml"):
            base = XmlParser(context=XmlContext(), handler=hb.HANDLERS[h], config=cfg).from_string(head.format(attrs=good_at, body=good_el), WildBoth)
            docs = {"element after": (head.format(attrs=good_at, body=good_el + bad_el), "el"),
                    "element before": (head.format(attrs=good_at, body=bad_el + good_el), "el"),
                    "attribute after": (head.format(attrs=good_at + bad_at, body=good_el), "at"),
                    "attribute before": (head.format(attrs=bad_at + good_at, body=good_el), "at")}
            for name, (text, kind) in docs.items():
                n += 1
                ctx.case(("restricted-wildcard", name, up, ua, cw, h))
                try:
                    got = ("ok", XmlParser(context=xctx, handler=hb.HANDLERS[h], config=cfg).from_string(text, WildBoth))
                except Exception as ex:  # noqa: BLE001
                    got = ("exc", ex)
                strict = up if kind == "el" else ua
                info = {"text": text, "handler": h, "options": {"unknownProps": up, "unknownAttrs": ua, "convWarnings": cw}}
                if strict:
                    if got[0] != "exc" or not isinstance(got[1], ParserError):
                        ctx.violation(f"restricted wildcard, unknown {name} (strict, {h}): expected ParserError, got {repr(got[1])[:200]}", info)
                elif got[0] != "ok" or got[1] != base:
                    ctx.violation(f"restricted wildcard, unknown {name} (lenient, {h}) changed the result: {repr(got[1])[:250]} vs {base!r}", info)
    ctx.extra["restricted_wildcard_cases"] = n


def dict_poly(ctx):
    """Unknown keys at every object level of documents with polymorphic objects x the 8 option combinations."""
    import itertools

    from xsdata.formats.dataclass.context import XmlContext

    from ..poly_models import DOCS, ENV_DOCS, TWO_ITEMS_DOCS, EnvHolder, PRoot, TwoItems
    xctx = XmlContext()
    n = 0
    envelopes = (xctx.class_type.derived_keys, xctx.class_type.any_keys)
    for data, root in [(d, PRoot) for d in DOCS] + [(d, EnvHolder) for d in ENV_DOCS] + [(d, TwoItems) for d in TWO_ITEMS_DOCS]:
        base = DictDecoder(context=xctx).decode(data, root)
        for up, ua, cw in itertools.product((False, True), repeat=3):
            dec = DictDecoder(context=xctx, config=ParserConfig(fail_on_unknown_properties=up, fail_on_unknown_attributes=ua, fail_on_converter_warnings=cw))
            for path in _dict_paths(data):
                for shape in ({"deep": [{"er": 1}]}, None, 5):
                    bad = copy.deepcopy(data)
                    node = bad
                    for k in path:
                        node = node[k]
                    # an ENVELOPE object ({qname, value, type} / the generic element) is recognised by its exact key set: with an
                    # extra key it is no envelope any more, so only the strict half of the property applies there
                    envelope = node.keys() in envelopes
                    if (envelope and not up) or (path and path[-1] == "attributes"):      # (the attribute MAP of a generic element takes any key)
                        continue
                    node["note" if root is TwoItems and "note" not in node else "zz_unknown"] = shape
                    n += 1
                    ctx.case(("dict-poly", json.dumps(data), str(path), up, ua, cw, str(shape)))
                    try:
                        got = ("ok", dec.decode(bad, root))
                    except Exception as ex:  # noqa: BLE001
                        got = ("exc", ex)
                    where = "/".join(map(str, path)) or "(root)"
                    info = {"data": bad, "options": {"unknownProps": up, "unknownAttrs": ua, "convWarnings": cw}}
                    if up:
                        if got[0] != "exc" or not isinstance(got[1], ParserError):
                            ctx.violation(f"DictDecoder (polymorphic model): unknown key at {where} with fail_on_unknown_properties: expected ParserError, got {repr(got[1])[:200]}", info)
                    elif got[0] != "ok" or got[1] != base:
                        ctx.violation(f"DictDecoder (polymorphic model): unknown key at {where} with the option off changed the result: {repr(got[1])[:200]} vs {base!r}", info)
    ctx.extra["dict_poly_cases"] = n


def dict_options(ctx, cases):
    n = 0
    for case in cases:
        if case["fault"] != "none" or any(f["kind"] in ("Wildcard",) for f in case["m"]["fields"]):
            continue
        r = rt.Real(case)
        try:
            data = DictEncoder(context=r.ctx).encode(r.obj)
        except Exception:  # noqa: BLE001
            continue
        cfg = case["cfg"]
        pc = ParserConfig(fail_on_unknown_properties=cfg["unknownProps"], fail_on_unknown_attributes=cfg["unknownAttrs"],
                          fail_on_converter_warnings=cfg["convWarnings"])
        dec = DictDecoder(context=r.ctx, config=pc)
        n += 1
        ctx.case(("dict", str(case["m"]), str(case["inst"]), str(cfg)))
        # unknown key, injected at EVERY object level of the document (one position at a time)
        info = r.info(data=json.dumps(data, default=str)[:800])
        try:
            base = DictDecoder(context=r.ctx).decode(data, r.mod.Root)
        except Exception:  # noqa: BLE001
            continue
        for path in _dict_paths(data)[:8]:
            bad = copy.deepcopy(data)
            node = bad
            for k in path:
                node = node[k]
            node["zz_unknown"] = {"deep": [1, 2]}
            try:
                got = ("ok", dec.decode(bad, r.mod.Root))
            except Exception as ex:  # noqa: BLE001
                got = ("exc", ex)
            where = "/".join(map(str, path)) or "(root)"
            if cfg["unknownProps"]:
                if got[0] != "exc" or not isinstance(got[1], ParserError):
                    ctx.violation(f"DictDecoder: unknown key at {where} with fail_on_unknown_properties: expected ParserError, got {repr(got[1])[:200]}", {**info, "path": path})
            elif got[0] != "ok" or got[1] != base:
                ctx.violation(f"DictDecoder: unknown key at {where} with the option off changed the result: {repr(got[1])[:200]} vs {base!r}", {**info, "path": path})
        # unconvertible value in an int list
        for f in case["m"]["fields"]:
            if f["tp"] == "int" and f["card"] == "list" and data.get(f["name"]):
                bad = {**data, f["name"]: ["x1"] + list(data[f["name"]][1:])}
                with warnings.catch_warnings(record=True) as w:
                    warnings.simplefilter("always")
                    try:
                        got = ("ok", dec.decode(bad, r.mod.Root))
                    except Exception as ex:  # noqa: BLE001
                        got = ("exc", ex)
                nw = sum(1 for x in w if issubclass(x.category, ConverterWarning))
                if cfg["convWarnings"]:
                    if got[0] != "exc" or not isinstance(got[1], ParserError):
                        ctx.violation(f"DictDecoder: unconvertible value with fail_on_converter_warnings: got {repr(got[1])[:200]}", info)
                elif got[0] != "ok" or "x1" not in repr(got[1]) or nw != 1:
                    ctx.violation(f"DictDecoder: unconvertible value: expected kept with one warning, got {repr(got[1])[:200]} / {nw} warning(s)", info)
    ctx.extra["dict_decoder_cases"] = n


def run(ctx):
    ctx.rule = (
        "TLC: 5 injections x every position the kind allows x every prescribed document of the RoundTrip universe x the 8 "
        "combinations of fail_on_*; invariants InvStrictUnknown/InvUnknownAttr/InvXsiAttr/InvBadValue. Real code: every case "
        "parsed by both handlers in two spellings and judged by the statement's own observables; DictDecoder with unknown keys "
        "and unconvertible values. A case is a distinct (document, injection, options, handler)."
    )
    ctx.tlc("MC_RoundTrip", "run.cfg", extra_files={"run.cfg": rt.cfg_text(max_fields=1, faults=FAULTS, cfgs="AllCfgs", invariants=INVS)},
            label="MC_RoundTrip injections x 8 option sets", timeout=3000)
    ctx.exhaustive = True
    from .. import xmlshape_bind

    xmlshape_bind.run_matrix(ctx, "C10")   # spec/XmlShape.tla: field kinds x XML shapes x positions
    from .. import dictshape_bind

    dictshape_bind.run_matrix(ctx, "C10")  # spec/DictShape.tla: Unconvertible(kind, shape)
    cases = rt.generate(ctx, label="Gen_RoundTrip injections 1 field", max_fields=1, faults=FAULTS, cfgs="AllCfgs", limit=ctx.pick(3000, None))
    cases += rt.generate(ctx, label="Gen_RoundTrip injections 2 fields (simulate)", max_fields=2, faults=FAULTS, cfgs="AllCfgs",
                         simulate=ctx.pick(600, 20000))
    # models that pair a wrapper field with unwrapped element fields: exhaustive, 2 fields
    cases += rt.generate(ctx, label="Gen_RoundTrip wrapper siblings (2 fields, exhaustive)", max_fields=2, faults=("siblingInWrapper",),
                         cfgs="AllCfgs", cats="{1, 2, 3, 4, 6, 11, 12, 13}", limit=ctx.pick(1500, None))
    for case in cases:
        check_case(ctx, case)
    dict_options(ctx, cases)
    dict_poly(ctx)
    around_union_trials(ctx)
    union_element_attributes(ctx)
    restricted_wildcards(ctx)
    if cases:
        c = next((x for x in cases if x["fault"] == "unknownLast"), cases[0])
        ctx.sample({"fault": c["fault"], "options": c["cfg"], "document": rb.render_doc(rb.faulted(c["doc"], c["fault"], c["evs"], c["m"]), 0),
                    "spec_outcome": [c["st"], c["err"], c["warn"]]})


def replay(ctx, doc):
    print(doc["what"])
    print(doc["case"].get("text"))
