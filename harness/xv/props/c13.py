"""C13 - models generated from sample documents accept those documents.

spec/MC_Infer.tla: a hidden regular model (a content particle of Schema.tla over consistently
used names, canonically spelled values) yields 1..4 sample documents; the mapper is modelled by
its contract (merged occurrence ranges, set of inferred types per name) and TLC checks that every
sample is accepted by the merged model.  Binding: the samples are written as XML files (and, in
a second pass, as JSON files), the REAL transformer generates classes from them, each sample is
parsed into the generated root class with all fail_on_* options set (decisive: no error, no
conversion warning) and re-serialised; the result must reproduce the sample (XML modulo prefixes
and insignificant whitespace, JSON modulo key order and explicit nulls).
"""
from __future__ import annotations

import json
import random
import warnings
from decimal import Decimal

from xsdata.exceptions import ConverterWarning
from xsdata.formats.dataclass.context import XmlContext
from xsdata.formats.dataclass.parsers import JsonParser, XmlParser
from xsdata.formats.dataclass.parsers.config import ParserConfig
from xsdata.formats.dataclass.serializers import JsonSerializer, XmlSerializer
from xsdata.formats.dataclass.serializers.config import SerializerConfig

from .. import codegen_run as cg
from .. import infoset

NONE = "__none__"
STRICT = ParserConfig(fail_on_unknown_properties=True, fail_on_unknown_attributes=True, fail_on_converter_warnings=True)

# (a "decimal" member is a NUMBER: some of its values are whole - the field then has two inferable numeric types)
CANON = {"int": ["1", "-7"], "boolean": ["true", "false"], "decimal": ["1.5", "-0.25", "2"], "date": ["2020-02-29", "1999-12-31"], "string": ["t", "a b", "01234", "007", "+5", "1E5", "1.", "0x1F"]}     # strings that merely LOOK numeric are strings (no strict test accepts them)


def canon_text(o, idx):
    vals = CANON.get(o["tp"])
    return vals[idx % len(vals)] if vals else o["text"]


def sample_xml(tns, attrs_variant, doc, k):
    # the namespace slot of MC_Infer: none, one namespace for every element, or a namespace that CHANGES on the way
    # down ("|alt": root and grandchildren qualified, children not; "|kids": only the children qualified)
    tns, _, mode = tns.partition("|")
    q = tns != NONE
    decl = f' xmlns:t="{tns}"' if q else ""
    counter = {"n": 0}

    def qualified(depth):
        return q and (not mode or (depth % 2 == 0) == (mode == "alt"))

    def el(o, depth=1):
        counter["n"] += 1
        tag = f"t:{o['name']}" if qualified(depth) else o["name"]
        if o["kids"]:
            return f"<{tag}>" + "".join(el(c, depth + 1) for c in o["kids"]) + f"</{tag}>"
        return f"<{tag}>{canon_text(o, counter['n'])}</{tag}>"

    # variant 4: an ATTRIBUTE with the same local name as the first child element (two different members of the class)
    same = f' {doc[0]["name"]}="7"' if doc else ""
    attrs = {1: "", 2: ' id="7"', 3: ' id="8" lang="en"' if k % 2 else ' id="9"', 4: same}[attrs_variant]
    rtag = "t:Root" if qualified(0) else "Root"
    return f"<{rtag}{decl}{attrs}>" + "".join(el(o) for o in doc) + f"</{rtag}>"


def sample_json(doc, multi_names):
    counter = {"n": 0}

    def val(o):
        counter["n"] += 1
        if o["kids"]:
            return {c["name"]: val(c) for c in o["kids"]}
        t = canon_text(o, counter["n"])
        return {"int": int, "boolean": lambda x: x == "true", "decimal": lambda x: float(x) if "." in x else int(x), "date": str, "string": str}.get(o["tp"], str)(t)

    out: dict = {}
    for o in doc:
        v = val(o)
        if o["name"] in multi_names:
            out.setdefault(o["name"], []).append(v)
        else:
            out[o["name"]] = v
    return out


def _unordered(t):
    """canonical form with the child elements of every element sorted (order-insensitive)."""
    kids = sorted((json.dumps(_unordered(c), sort_keys=True) for c in t["content"] if isinstance(c, dict)))
    text = "".join(c for c in t["content"] if isinstance(c, str))
    return {"name": t["name"], "attrs": t["attrs"], "text": text, "kids": kids}


def xml_same(a: str, b: str, ordered: bool):
    ta, tb = infoset.canon(infoset.parse(a)), infoset.canon(infoset.parse(b))
    if ordered:
        return ta == tb, ta, tb
    return _unordered(ta) == _unordered(tb), ta, tb


def _regular_groups(kids) -> bool:
    """The children are a sequence of SEGMENTS over pairwise disjoint names: a run of one name, or k identical rounds of
    one tuple of distinct names (one 'sequence' group each) - the interleavings the generated lists can replay."""
    i, used = 0, set()
    while i < len(kids):
        n = kids[i]
        if n in used:
            return False
        nxt = next((j for j in range(i + 1, len(kids)) if kids[j] == n), None)
        if nxt is None or nxt == i + 1:
            j = i
            while j < len(kids) and kids[j] == n:      # a single name, possibly repeated contiguously
                j += 1
            used.add(n)
            i = j
            continue
        tup = kids[i:nxt]
        if len(set(tup)) != len(tup) or used & set(tup):
            return False
        j = i
        while kids[j:j + len(tup)] == tup:
            j += len(tup)
        used |= set(tup)
        i = j
    return True


def irregular_interleaving(t) -> bool:
    """Selector of F29: some element has repeated children that are interleaved with others, and the child
    names are not k identical rounds of one tuple of distinct names with the singles outside the repeating
    run (the only interleaving the generated 'sequence' lists can replay)."""
    kids = [tuple(c["name"]) for c in t["content"] if isinstance(c, dict)]
    seen = set()
    noncontig = False
    for i, n in enumerate(kids):
        if n in seen and kids[i - 1] != n:
            noncontig = True
        seen.add(n)
    if noncontig and not _regular_groups(kids):
        return True
    return any(irregular_interleaving(c) for c in t["content"] if isinstance(c, dict))


def orders_consistent(trees) -> bool:
    """Several samples can all be reproduced in order by ONE class iff, element by element (by path), the child
    names of every sample occur in contiguous runs and the precedences between names are free of cycles."""
    prec: dict = {}

    def walk(t, path):
        kids = [c for c in t["content"] if isinstance(c, dict)]
        names = [tuple(c["name"]) for c in kids]
        runs = [n for i, n in enumerate(names) if i == 0 or names[i - 1] != n]
        if len(runs) != len(set(runs)):
            return False
        g = prec.setdefault(path, {})
        for a, b in zip(runs, runs[1:]):
            g.setdefault(a, set()).add(b)
        return all(walk(c, path + (tuple(c["name"]),)) for c in kids)

    if not all(walk(t, (tuple(t["name"]),)) for t in trees):
        return False
    for g in prec.values():
        state: dict = {}

        def cyc(n):
            if state.get(n) == 1:
                return True
            if state.get(n) == 2:
                return False
            state[n] = 1
            r = any(cyc(m) for m in g.get(n, ()))
            state[n] = 2
            return r

        if any(cyc(n) for n in list(g)):
            return False
    return True


def strip_nulls(x):
    if isinstance(x, dict):
        return {k: strip_nulls(v) for k, v in x.items() if v is not None and v != []}
    if isinstance(x, list):
        return [strip_nulls(v) for v in x]
    return x


def run(ctx):
    ctx.rule = (
        "TLC: hidden models (seq/choice x occurrences x typed elements x nested group x namespace x attribute variants) and "
        "1..4 of their documents drawn by simulation, invariant InvSamplesAccepted on the mapper's contract. Real code: samples "
        "written as XML and as JSON, real transformer, each sample parsed with all fail_on_* set and re-serialised, compared with "
        "the sample. A case is a distinct (sample set, format)."
    )
    ctx.assumptions += ["stand-ins for jinja2/click/toposort/ruff", "values are spelled canonically, names are used consistently (the property's own premises)"]
    printed = []
    for multi, num in ((True, ctx.pick(90, 4000)), (False, ctx.pick(50, 1500))):
        res = ctx.tlc("MC_Infer", "run.cfg", workers=1, simulate=f"num={num}", depth=12,
                      extra_files={"run.cfg": f"SPECIFICATION Spec\nCONSTANTS\n  MaxDocIdx = 5\n  MultiSample = {'TRUE' if multi else 'FALSE'}\nINVARIANT InvSamplesAccepted\nCONSTRAINT Emit\nCHECK_DEADLOCK FALSE\n"},
                      label=f"MC_Infer sample sets ({'1..4 samples' if multi else 'single sample'})", tags=("SAMPLES",), require_cases=True, timeout=3000)
        printed += res.printed
    # second family: subsets of six optional elements in a hidden order (consistent orders: ORDER is demanded)
    res = ctx.tlc("MC_InferSub", "run.cfg", workers=1, simulate=f"num={ctx.pick(120, 5000)}", depth=7,
                  extra_files={"run.cfg": "SPECIFICATION Spec\nINVARIANT InvOrderRealisable\nINVARIANT InvOptional\nCONSTRAINT Emit\nCHECK_DEADLOCK FALSE\n"},
                  label="MC_InferSub subsets of optional elements", tags=("SAMPLES",), require_cases=True, timeout=3000)
    printed += res.printed
    seen = set()
    n = 0
    for _t, c in printed:
        key = json.dumps(c, sort_keys=True)
        if key in seen:
            continue
        seen.add(key)
        n += 1
        xml_case(ctx, c, n)
        json_case(ctx, c, n)
        if len(ctx.samples) < 2 and n % 40 == 1:
            ctx.sample({"samples": [sample_xml(c["tns"], c["attrs"], d, k) for k, d in enumerate(c["samples"])]})
    ctx.extra["sample_sets"] = n
    # the reproducer of F29 (irregular interleaving) and its regular counterpart, in every run
    xml_files(ctx, {"s0.xml": "<Root><b>-7</b><c>1</c><d>a b</d><b>1</b><b>-7</b><c>1</c><d>a b</d></Root>"})
    xml_files(ctx, {"s0.xml": "<Root><h>1</h><b>-7</b><c>1</c><d>a b</d><b>1</b><c>2</c><d>t</d><z>9</z></Root>"})
    # TWO disjoint repeating groups in one element (regular rounds), a single element between them; and three groups
    xml_files(ctx, {"s0.xml": "<Root><sku>a</sku><qty>1</qty><sku>b</sku><qty>2</qty><note>n</note><code>c</code><amount>1.5</amount><code>d</code><amount>2.5</amount></Root>"})
    xml_files(ctx, {"s0.xml": "<Root><a>1</a><b>x</b><a>2</a><b>y</b><c>t</c><d>1</d><c>u</c><d>2</d><e>p</e><f>q</f><e>r</e><f>s</f><e>v</e><f>w</f></Root>"})
    # JSON literals that are EQUAL in Python and differ in JSON (1 / true / 1.0, 0 / false / 0.0, 2 / 2.0): each key keeps its type
    json_files(ctx, {"s0.json": '{"id": 1, "paid": true, "ratio": 1.0, "zero": 0, "off": false, "none": 0.0, "two": 2, "twof": 2.0, "rows": [{"n": 1, "ok": true}, {"n": 0, "ok": false}]}'})
    json_files(ctx, {"s0.json": '{"paid": true, "id": 1, "rows": [{"ok": false, "n": 0}]}', "s1.json": '{"paid": false, "id": 0, "rows": [{"ok": true, "n": 1}]}'})
    namespace_mixes(ctx)
    mixed_samples(ctx)
    cg.cleanup_all()


def namespace_mixes(ctx):
    """Samples whose elements change namespace on the way down (MC_Infer keeps one namespace per sample set): an
    unqualified root with qualified children with unqualified grandchildren, the reverse, two alternating namespaces,
    and a default namespace switched off half way.  A fixed corpus, in every run."""
    P, Q = 'xmlns:p="urn:p"', 'xmlns:q="urn:q"'
    sets = [
        {"s0.xml": f'<Root id="1"><who>al</who><p:part {P} code="x"><qty>1</qty><p:detail><size>3</size><p:grade>A</p:grade></p:detail></p:part>'
                   f'<p:part {P} code="y"><qty>2</qty><p:detail><size>4</size><p:grade>B</p:grade></p:detail></p:part><total>12.5</total></Root>',
         "s1.xml": f'<Root id="2"><who>bo</who><p:part {P} code="z"><qty>7</qty><p:detail><size>5</size><p:grade>C</p:grade></p:detail></p:part><total>1.5</total></Root>'},
        {"s0.xml": f'<p:Root {P}><a>1</a><b><p:c>2</p:c><d>x</d></b></p:Root>'},
        {"s0.xml": f'<p:Root {P} {Q}><q:a><p:b><q:c>1</q:c></p:b><p:b><q:c>2</q:c></p:b></q:a><p:e>t</p:e></p:Root>'},
        {"s0.xml": '<Root xmlns="urn:p"><a>1</a><b xmlns=""><c>2</c><d xmlns="urn:q"><e>3</e></d></b></Root>'},
        {"s0.xml": f'<Root><p:a {P}>1</p:a><a>2</a><q:a {Q}>3</q:a></Root>'},
    ]
    for files in sets:
        xml_files(ctx, files)


KID_XML = {"s": "<em>x{i}</em>", "a": '<ref kind="k{i}">b{i}</ref>', "k": "<k><v>{i}</v></k>"}   # one name per kind of child: names are used consistently


def mixed_xml(kids, texts, sibling):
    parts = ["lead " if 0 in texts else ""]
    for i, k in enumerate(kids, 1):
        parts.append(KID_XML[k].format(i=i))
        if i in texts:
            parts.append(f" tail {i} ")
    return "<Root><note>" + "".join(parts).strip(" ") + "</note>" + ("<id>4</id>" if sibling else "") + "</Root>"


def mixed_samples(ctx):
    """spec/MC_InferMixed.tla: text next to child elements, at every position, next to every kind of child."""
    res = ctx.tlc("MC_InferMixed", "run.cfg", workers=1,
                  extra_files={"run.cfg": "SPECIFICATION Spec\nINVARIANT InvEveryPositionCounts\nINVARIANT InvPlainStaysPlain\nCONSTRAINT Emit\nCHECK_DEADLOCK FALSE\n"},
                  label="MC_InferMixed children x text positions x second sample", tags=("MIXED",), require_cases=True, timeout=1500)
    cases, seen = [], set()
    for _t, c in res.printed:
        key = json.dumps(c, sort_keys=True)
        if key not in seen:
            seen.add(key)
            cases.append(c)
    # every run: one text position at a time next to each kind of child (the corpus); the rest is drawn by the seed
    corpus = [c for c in cases if len(c["texts"]) == 1 and len(c["kids"]) <= 2 and c["second"] == "none" and not c["sibling"]]
    rest = [c for c in cases if c not in corpus]
    rnd = random.Random(ctx.seed + 13)
    picked = corpus + (rnd.sample(rest, min(len(rest), ctx.pick(40, 1500))))
    for c in picked:
        files = {"s0.xml": mixed_xml(c["kids"], set(c["texts"]), c["sibling"])}
        if c["second"] == "plain":
            files["s1.xml"] = mixed_xml(c["kids"], set(), c["sibling"])
        elif c["second"] == "textElsewhere":
            files["s1.xml"] = mixed_xml(c["kids"], {len(c["kids"])}, c["sibling"])
        xml_files(ctx, files)
    ctx.extra["mixed_sample_sets"] = len(picked)
    # F44 (open): inside a MIXED element, a child name that occurs once with an attribute and once without
    xml_files(ctx, {"s0.xml": '<Root><note>lead <em kind="k1">b1</em><em>x2</em></note></Root>'}, parse_tags=("F44",))
    # ... its regular counterparts (the same without text; the attribute on every occurrence) are decided normally
    xml_files(ctx, {"s0.xml": '<Root><note><em kind="k1">b1</em><em>x2</em></note></Root>'})
    xml_files(ctx, {"s0.xml": '<Root><note>lead <em kind="k1">b1</em><em kind="k2">x2</em></note></Root>'})


def xml_case(ctx, c, n):
    xml_files(ctx, {f"s{k}.xml": sample_xml(c["tns"], c["attrs"], d, k) for k, d in enumerate(c["samples"])})


def xml_files(ctx, files, parse_tags=()):
    gen = cg.generate(files, sorted(files))
    try:
        info = {"samples": files}
        if gen.error is not None:
            ctx.violation(f"generation from XML samples failed: {type(gen.error).__name__}: {gen.error}", info)
            return
        try:
            root = gen.module().Root
        except Exception as ex:  # noqa: BLE001
            ctx.violation(f"package generated from samples does not import / has no Root: {type(ex).__name__}: {ex}", {**info, "files": {k: v[:2500] for k, v in gen.files.items()}})
            return
        xctx = XmlContext(models_package=gen.pkg)
        src = next((v for v in gen.files.values() if "class Root" in v), "")[:3500]
        # element ORDER: a single sample always; several samples when their child orders are mutually consistent
        # (one total order of names reproduces them all)
        try:
            ordered = len(files) == 1 or orders_consistent([infoset.canon(infoset.parse(t)) for t in files.values()])
        except Exception:  # noqa: BLE001
            ordered = len(files) == 1
        for name, text in files.items():
            ctx.case(("xml-sample", json.dumps(files, sort_keys=True), name))
            with warnings.catch_warnings(record=True) as w:
                warnings.simplefilter("always")
                try:
                    obj = XmlParser(context=xctx, config=STRICT).from_string(text, root)
                    out = XmlSerializer(context=xctx, config=SerializerConfig(xml_declaration=False)).render(obj)
                except Exception as ex:  # noqa: BLE001
                    ctx.violation(f"sample {name} does not parse into the class generated from it: {type(ex).__name__}: {ex}",
                                  {**info, "sample": text, "source": src, "finding_tags": list(parse_tags) if "Unknown attribute" in str(ex) else []})
                    continue
            if any(issubclass(x.category, ConverterWarning) for x in w):
                ctx.violation(f"sample {name} parses with a conversion warning", {**info, "sample": text, "source": src})
            # element ORDER is demanded only when there is a single sample: several samples that
            # interleave the same names differently cannot all be reproduced by one model
            same, ta, tb = xml_same(text, out, ordered=ordered)
            if not same:
                tags = []
                if len(files) == 1 and _unordered(ta) == _unordered(tb) and irregular_interleaving(ta):
                    tags = ["F29"]     # same elements and values, only the sibling order of an irregular interleaving differs
                if len(files) >= 3 and _unordered(ta) == _unordered(tb):
                    tags = ["F38"]     # three or more partial samples: the pairwise merge of field orders is not globally consistent
                ctx.violation(f"sample {name} is not reproduced: {out}", {**info, "sample": text, "out": out, "source": src, "finding_tags": tags})
    finally:
        gen.cleanup()


def json_case(ctx, c, n):
    merged = c["merged"] if isinstance(c["merged"], dict) else {}
    # arrays: what repeats in some sample, and what the hidden model lets repeat (an array of ONE item is still an array)
    multi = {nm for nm, v in merged.items() if v["max"] > 1} | set(c.get("hiddenMulti") or [])
    docs = [sample_json(d, multi) for d in c["samples"]]
    if any(not d for d in docs):
        return
    json_files(ctx, {f"s{k}.json": json.dumps(d) for k, d in enumerate(docs)})


def json_files(ctx, files):
    gen = cg.generate(files, sorted(files), pkg=None)
    try:
        info = {"samples": files}
        if gen.error is not None:
            ctx.violation(f"generation from JSON samples failed: {type(gen.error).__name__}: {gen.error}", info)
            return
        try:
            mod = gen.module()
            clsname = "".join(p.capitalize() if p.islower() else p for p in [gen.pkg.split(".")[-1]])
            root = next((getattr(mod, a) for a in dir(mod) if a.lower() == gen.pkg.split(".")[-1].replace("_", "").lower()), None)
            if root is None:
                raise AttributeError(f"no root class among {[a for a in dir(mod) if not a.startswith('_')]}")
        except Exception as ex:  # noqa: BLE001
            ctx.violation(f"package generated from JSON samples does not import / has no root class: {type(ex).__name__}: {ex}", {**info, "files": {k: v[:2500] for k, v in gen.files.items()}})
            return
        xctx = XmlContext(models_package=gen.pkg)
        src = "\n".join(gen.files.values())[:3500]
        for name, text in files.items():
            ctx.case(("json-sample", json.dumps(files, sort_keys=True), name))
            with warnings.catch_warnings(record=True) as w:
                warnings.simplefilter("always")
                try:
                    obj = JsonParser(context=xctx, config=STRICT).from_string(text, root)
                    out = JsonSerializer(context=xctx).render(obj)
                except Exception as ex:  # noqa: BLE001
                    ctx.violation(f"JSON sample {name} does not parse into the class generated from it: {type(ex).__name__}: {ex}", {**info, "sample": text, "source": src})
                    continue
            if any(issubclass(x.category, ConverterWarning) for x in w):
                ctx.violation(f"JSON sample {name} parses with a conversion warning", {**info, "sample": text, "source": src})
            if strip_nulls(json.loads(out)) != strip_nulls(json.loads(text)):
                ctx.violation(f"JSON sample {name} is not reproduced: {out}", {**info, "sample": text, "out": out, "source": src})
    finally:
        gen.cleanup()


def replay(ctx, doc):
    print(doc["what"])
    c = doc["case"]
    print(json.dumps(c.get("samples"), indent=1))
    print(c.get("out"))
    print(c.get("source"))
