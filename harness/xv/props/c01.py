"""C01 - XML round trip.

spec/RoundTrip.tla: TLC enumerates the universe of small binding models x instances (MC_RoundTrip),
checks that the prescribed document of every instance is accepted by the parser's node-stack
machine under the strictest options, and prints every case.  Each case is materialised as real
dataclasses, serialised with every writer / serializer configuration / user prefix map, parsed back
with both handlers and compared with the original object (decisive); the real parser's
start/end trace is compared step by step with the specification's node stack.  The model zoo
(hand-written richer models, random instances) is round-tripped the same way.
"""
from __future__ import annotations

import math

from xsdata.exceptions import ConverterError, SerializerError, XmlContextError, XmlWriterError
from xsdata.formats.dataclass.context import XmlContext

from .. import roundtrip_bind as rb
from .. import rt_engine as rt
from .. import zoo

VALID_INVS = ("InvSlots", "InvDocumented", "InvProgress", "InvValidAccepted")


def run(ctx):
    ctx.rule = (
        "TLC: every model with 1..MaxFields fields from a 29-entry catalogue x root/child namespaces x every instance over the "
        "value sets; node-stack invariants in every state. Real code: each case serialised with 7 serializer configurations x "
        "prefix maps, parsed back with both handlers, compared with the original; parser traces compared with the "
        "specification step by step. Compound fields (spec/Compound.tla: choices of pairwise different types x namespaces x "
        "nillable x list/single; TLC checks that the documented contract is injective and determined) are serialised, compared "
        "with the prescribed document, parsed back, and the harness-written prescribed document is parsed. A case is a distinct (model, instance)."
    )
    ctx.assumptions += ["values are drawn from the stated value sets (XML 1.0 representable)", "dataclass equality; NaN is not in the TLC universe (zoo covers it)"]
    from .. import xmlshape_bind

    xmlshape_bind.run_matrix(ctx, "C01")   # spec/XmlShape.tla: field kinds x XML shapes x positions
    from .. import typing_bind

    typing_bind.run_matrix(ctx, "C01")     # spec/Typing.tla: documented annotation forms x XML types x leaf types
    mf = ctx.pick(1, 2)
    ctx.tlc("MC_RoundTrip", "run.cfg", extra_files={"run.cfg": rt.cfg_text(max_fields=mf, faults=("none",), cfgs="StrictOnly", invariants=VALID_INVS)},
            label=f"MC_RoundTrip valid documents, {mf} field(s)", timeout=3000)
    ctx.exhaustive = True
    strict = "StrictOnly"
    cases = rt.generate(ctx, label="Gen_RoundTrip 1 field", max_fields=1, faults=("none",), cfgs=strict)
    cases += rt.generate(ctx, label="Gen_RoundTrip 2 fields (simulate)", max_fields=2, faults=("none",), cfgs=strict,
                         simulate=ctx.pick(1500, 30000))
    for k, case in enumerate(cases):
        ctx.case(("rt", str(case["m"]), str(case["inst"])))
        maps = rt.NS_MAPS if k % 5 == 0 else (None,)
        rt.check_roundtrip(ctx, case, ns_maps=maps, want=("C01",))
        rt.run_fault_case(ctx, case)
        if len(ctx.samples) < 3 and k % 97 == 0:
            ctx.sample({"model_fields": [f"{f['name']}:{f['kind']}:{f['tp']}:{f['card']}" for f in case["m"]["fields"]],
                        "root_ns": case["m"]["ns"], "instance": case["inst"], "prescribed": case["doc"]})
    ctx.extra["tlc_cases_replayed"] = len(cases)
    # compound ("Elements") fields: spec/Compound.tla
    from .. import compound_bind

    compound_bind.run_phase(ctx)
    zoo_roundtrip(ctx, ctx.pick(250, 10**7))   # thorough: until the time budget is used


def _eq(a, b):
    """Dataclass equality with NaN equal to NaN (the statement's own notion)."""
    import dataclasses

    if a == b:
        return True
    if isinstance(a, float) and isinstance(b, float):
        return math.isnan(a) and math.isnan(b)
    if dataclasses.is_dataclass(a) and type(a) is type(b):
        return all(_eq(getattr(a, f.name), getattr(b, f.name)) for f in dataclasses.fields(a) if f.compare)
    if isinstance(a, (list, tuple)) and type(a) is type(b) and len(a) == len(b):
        return all(_eq(x, y) for x, y in zip(a, b))
    if isinstance(a, dict) and isinstance(b, dict) and a.keys() == b.keys():
        return all(_eq(a[k], b[k]) for k in a)
    return False


DEFAULT_CFG = {"unknownProps": True, "unknownAttrs": False, "convWarnings": False}


def zoo_roundtrip(ctx, n):
    xctx = XmlContext()
    k = 0
    for obj in zoo.instances(ctx.seed + 1, n, roots=[c for c in zoo.ROOTS if c not in (zoo.Mixed,)]):
        k += 1
        nm = zoo.HOSTILE_MAPS[k % len(zoo.HOSTILE_MAPS)]
        for writer in ("native", "lxml"):
            try:
                text = rb.render(obj, xctx, writer, ns_map=dict(nm) if nm else None)
            except (SerializerError, XmlWriterError, ConverterError, XmlContextError) as ex:
                # every zoo instance is a legal value of its model: a refusal is reported, never skipped
                ctx.violation(f"zoo: render({type(obj).__name__}) refused a legal instance with {type(ex).__name__}: {ex}", {"obj": repr(obj)[:1500], "ns_map": repr(nm),
                              "finding_tags": zoo_tags(obj)})
                continue
            except Exception as ex:  # noqa: BLE001
                ctx.violation(f"zoo: render({type(obj).__name__}) raised {type(ex).__name__}: {ex}", {"obj": repr(obj)[:1500], "ns_map": repr(nm),
                              "finding_tags": zoo_tags(obj)})
                continue
            for h in ("native", "lxml"):
                out, _w, _t = rb.record_parse(text, type(obj), xctx, h, rt.STRICT)
                ctx.case(("zoo", k, writer, h))
                if out[0] != "ok" or not _eq(out[1], obj):
                    ctx.violation(f"zoo: {type(obj).__name__} does not round-trip ({writer}/{h}): {repr(out[1])[:300]}",
                                  {"obj": repr(obj)[:1500], "text": text[:1500], "ns_map": repr(nm), "finding_tags": zoo_tags(obj)})
                # the parser's DEFAULT configuration (conversion warnings do not fail): the same object comes back
                out, _w, _t = rb.record_parse(text, type(obj), xctx, h, DEFAULT_CFG)
                ctx.case(("zoo-default-config", k, writer, h))
                if out[0] != "ok" or not _eq(out[1], obj):
                    ctx.violation(f"zoo: {type(obj).__name__} does not round-trip under the default parser configuration ({writer}/{h}): {repr(out[1])[:300]}",
                                  {"obj": repr(obj)[:1500], "text": text[:1500], "ns_map": repr(nm), "finding_tags": zoo_tags(obj)})


def zoo_tags(obj):
    """F13 in the zoo: Holder.note / Holder.notes / ReqNil.req are nillable str elements."""
    def has_empty_nillable(o):
        if isinstance(o, zoo.ReqNil):
            return o.req == ""
        if isinstance(o, zoo.Holder):
            return o.note == "" or "" in o.notes
        if isinstance(o, zoo.Order):
            return o.holder is not None and has_empty_nillable(o.holder)
        return False
    return ["F13"] if has_empty_nillable(obj) else []


def replay(ctx, doc):
    case = doc["case"]
    if "m" in case:
        c = {"m": case["m"], "inst": case["inst"], "fault": "none", "cfg": rt.STRICT, "doc": None}
        r = rt.Real(c)
        for w in ("native", "lxml"):
            text = rb.render(r.obj, r.ctx, w)
            for h in ("native", "lxml"):
                out, _n, _t = rb.record_parse(text, r.mod.Root, r.ctx, h, rt.STRICT)
                if out[0] != "ok" or out[1] != r.obj:
                    ctx.violation(f"round trip {w}/{h}: {out[1]!r} vs {r.obj!r}", case)
    else:
        print(case)
