"""C02 - generated classes are faithful to the XML Schema they came from.

spec/Schema.tla: a fragment of XML Schema with CONSTRUCTIVE validity (DocsOf builds the valid
documents of a content model; Accepts cross-checks it inside TLC).  TLC assembles schemas slot
by slot and picks documents; the harness writes each schema as XSD text and each document as XML,
lets libxml2 confirm validity (a disagreement is a machinery error, not a violation), runs the REAL
generator, imports the package, parses the document under the strictest settings, serialises it
and compares elements, attributes and typed values in the value space (decisive); where
OrderPreserving(S) holds the element order and schema-validity of the output are compared too;
the same is repeated under output-only generator options and the results must agree.
"""
from __future__ import annotations

import json
import random

from xsdata.formats.dataclass.context import XmlContext
from xsdata.formats.dataclass.parsers import XmlParser
from xsdata.formats.dataclass.parsers.config import ParserConfig
from xsdata.formats.dataclass.serializers import XmlSerializer
from xsdata.formats.dataclass.serializers.config import SerializerConfig

from .. import codegen_run as cg
from .. import compose_bind as cb
from .. import infoset
from .. import schema_bind as sb
from ..tlc import MachineryError

STRICT = ParserConfig(fail_on_unknown_properties=True, fail_on_unknown_attributes=True, fail_on_converter_warnings=True)


def cfg(types, occs, maxdoc, *, mc=False, emit=False):
    out = f"SPECIFICATION Spec\nCONSTANTS\n  MaxDocIdx = {maxdoc}\n  Types = {types}\n  Occs <- {occs}\n"
    if mc:
        out += "CONSTRAINT MCOnly\nINVARIANT InvConstructionValid\nINVARIANT InvHasDocs\n"
    if emit:
        out += "CONSTRAINT Emit\n"
    return out + "CHECK_DEADLOCK FALSE\n"


def find_root(gen):
    for name in gen.all_modules():
        try:
            m = __import__(name, fromlist=["*"])
        except Exception as ex:  # noqa: BLE001
            return None, ex
        if hasattr(m, "Root"):
            return m.Root, None
    return None, None


def nillable_names(p, out=None):
    out = set() if out is None else out
    if p["k"] == "el":
        if p.get("nillable"):
            out.add(p["name"])
    else:
        for i in p["items"]:
            nillable_names(i, out)
    return out


def f23_applies(schema, fin, fout) -> bool:
    """Selector of F23: every invented entry is the nil form of a nillable element that the input lacks."""
    nn = nillable_names(schema["root"])
    present = {x[1][1] for x in fin}
    invented = [x for x in fout if x not in fin]
    return bool(invented) and all(x[2] == "nil" and x[1][1] in nn and x[1][1] not in present for x in invented) and all(x in fout for x in fin)


def run_schema(ctx, schema, docs, optsets):
    xsd = sb.schema_xsd(schema)
    results = {}
    for oname, opts in optsets:
        gen = cg.generate({"s.xsd": xsd}, ["s.xsd"], options=opts)
        try:
            info = {"schema": schema, "xsd": xsd, "options": oname}
            if gen.error is not None:
                ctx.violation(f"generation failed ({oname}): {type(gen.error).__name__}: {gen.error}", info)
                continue
            root, err = find_root(gen)
            if root is None:
                ctx.violation(f"generated package does not import / has no Root ({oname}): {err}", {**info, "files": {k: v[:1500] for k, v in gen.files.items()}})
                continue
            xctx = XmlContext(models_package=gen.pkg)
            for d, meta in docs:
                xml = sb.doc_xml(schema, d)
                ok, log = sb.validate(xsd, xml)
                if not ok:
                    raise MachineryError(f"the specification built a document libxml2 rejects:\n{xml}\n{xsd}\n{log}")
                ctx.case(("xsd", xsd, xml, oname))
                dinfo = {**info, "xml": xml, "source": next(iter([v for k, v in gen.files.items() if "class Root" in v]), "")[:3000]}
                try:
                    obj = XmlParser(context=xctx, config=STRICT).from_string(xml, root)
                    out = XmlSerializer(context=xctx, config=SerializerConfig(xml_declaration=False)).render(obj)
                except Exception as ex:  # noqa: BLE001
                    ctx.violation(f"schema-valid document does not parse/serialise under strict settings ({oname}): {type(ex).__name__}: {ex}", dinfo)
                    continue
                try:
                    tin, tout = infoset.parse(xml), infoset.parse(out)
                except Exception as ex:  # noqa: BLE001
                    ctx.violation(f"output is not well-formed: {ex}", {**dinfo, "out": out})
                    continue
                fin, fout = sb.flatten(tin, schema), sb.flatten(tout, schema)
                if tuple(tout["name"]) != tuple(tin["name"]):
                    ctx.violation(f"root element changed: {tout['name']} vs {tin['name']}", {**dinfo, "out": out})
                f23 = ["F23"] if f23_applies(schema, fin, fout) else []
                if sorted(map(repr, fin)) != sorted(map(repr, fout)):
                    ctx.violation(f"elements / typed values differ between input and output ({oname}): lost {[x for x in fin if x not in fout][:4]}, invented {[x for x in fout if x not in fin][:4]}",
                                  {**dinfo, "out": out, "finding_tags": f23})
                ain, aout = sb.root_attrs(tin, schema), sb.root_attrs(tout, schema)
                if ain != aout:
                    ctx.violation(f"attributes differ ({oname}): input {ain}, output {aout}", {**dinfo, "out": out})
                if schema["kind"] == "simpleContent" and infoset.text_of(tin) != infoset.text_of(tout):
                    ctx.violation(f"simple content differs: {infoset.text_of(tout)!r}", {**dinfo, "out": out})
                compound = bool(opts.get("compound_fields.enabled"))
                if (meta["op"] if compound else meta["opNoCompound"]):
                    if fin != fout:
                        ctx.violation(f"element order not preserved although the schema is order-preserving ({oname})", {**dinfo, "out": out, "finding_tags": f23})
                    ok2, log2 = sb.validate(xsd, out)
                    if not ok2:
                        ctx.violation(f"output is not schema-valid although the schema is order-preserving ({oname}): {log2}", {**dinfo, "out": out, "finding_tags": f23})
                results.setdefault(xml, {})[oname] = (sorted(map(repr, [x for x in fout if not (f23 and x not in fin)])), aout)
        finally:
            gen.cleanup()
    # output-only options must not change what is accepted and produced
    for xml, per in results.items():
        vals = list(per.items())
        for oname, v in vals[1:]:
            if v != vals[0][1]:
                ctx.violation(f"options {oname} and {vals[0][0]} produce different documents for the same input", {"xsd": xsd, "xml": xml})


def run_compose_schema(ctx, schema, cases, optsets):
    """One component-level schema (spec/Compose.tla) x its documents x option sets."""
    import tempfile
    import shutil

    files = cb.schema_files(schema)
    work = tempfile.mkdtemp(prefix="xv-cmp-")
    try:
        try:
            val = cb.Validator(files, work)
        except Exception as ex:  # noqa: BLE001
            raise MachineryError(f"libxml2 rejects a schema the specification built: {ex}\n{files}") from ex
        results = {}
        for oname, opts in optsets:
            gen = cg.generate(files, ["main.xsd"], options=opts)
            try:
                info = {"schema": schema, "xsd": files, "options": oname}
                if gen.error is not None:
                    ctx.violation(f"generation failed ({oname}): {type(gen.error).__name__}: {gen.error}", info)
                    continue
                root, err = find_root(gen)
                if root is None:
                    # F55: namespaces style + classes WITHOUT namespace next to namespaced ones: <pkg>.py beside <pkg>/
                    shadowed = err is None and any(k == f"{gen.pkg}.py" for k in gen.files) and any(k.startswith(f"{gen.pkg}/") for k in gen.files)
                    ctx.violation(f"generated package does not import / has no Root ({oname}): {err}",
                                  {**info, "files": {k: v[:1500] for k, v in gen.files.items()}, "finding_tags": ["F55"] if shadowed else []})
                    continue
                xctx = XmlContext(models_package=gen.pkg)
                for c in cases:
                    xml = cb.doc_xml(schema, c["doc"])
                    ok, log = val(xml)
                    if not ok:
                        raise MachineryError(f"the specification built a document libxml2 rejects:\n{xml}\n{files}\n{log}")
                    ctx.case(("cmp", json.dumps(schema, sort_keys=True), xml, oname))
                    dinfo = {**info, "xml": xml}
                    try:
                        obj = XmlParser(context=xctx, config=STRICT).from_string(xml, root)
                        out = XmlSerializer(context=xctx, config=SerializerConfig(xml_declaration=False)).render(obj)
                    except Exception as ex:  # noqa: BLE001
                        ctx.violation(f"schema-valid document does not parse/serialise under strict settings ({oname}): {type(ex).__name__}: {ex}", dinfo)
                        continue
                    try:
                        ci, co = cb.canon(infoset.parse(xml)), cb.canon(infoset.parse(out))
                    except Exception as ex:  # noqa: BLE001
                        ctx.violation(f"output is not well-formed: {ex}", {**dinfo, "out": out})
                        continue
                    if schema.get("mixed"):
                        # a mixed type: the whole content sequence (text pieces and elements) in document order
                        mi, mo = cb.canon_mixed(infoset.parse(xml)), cb.canon_mixed(infoset.parse(out))
                        if mi != mo:
                            ctx.violation(f"mixed content differs between input and output ({oname}): {mo[2]} vs {mi[2]}", {**dinfo, "out": out})
                        results.setdefault(xml, {})[oname] = mo
                        continue
                    bag_i, bag_o = sorted(map(repr, ci[3])), sorted(map(repr, co[3]))
                    if ci[:3] != co[:3] or bag_i != bag_o:
                        ctx.violation(f"elements / attributes / values (incl. xsi:type) differ between input and output ({oname}): "
                                      f"lost {[x for x in bag_i if x not in bag_o][:3]}, invented {[x for x in bag_o if x not in bag_i][:3]}", {**dinfo, "out": out})
                    elif c["uniform"]:
                        # no repeating group mixes element names: the document is a sequence of single elements
                        if ci != co:
                            ctx.violation(f"element order not preserved although no repeating group mixes names ({oname})", {**dinfo, "out": out})
                        ok2, log2 = val(out)
                        if not ok2:
                            ctx.violation(f"output is not schema-valid ({oname}): {log2}", {**dinfo, "out": out})
                    results.setdefault(xml, {})[oname] = (co[:3], bag_o)
            finally:
                gen.cleanup()
        for xml, per in results.items():
            vals = list(per.items())
            for oname, v in vals[1:]:
                if v != vals[0][1]:
                    ctx.violation(f"options {oname} and {vals[0][0]} produce different documents for the same input", {"xsd": files, "xml": xml})
    finally:
        shutil.rmtree(work, ignore_errors=True)


XSI_DECL = 'xmlns:xsi="http://www.w3.org/2001/XMLSchema-instance"'


def handwritten_corpus(ctx, optsets):
    """Schemas outside the generated universes, with their valid documents, through the same pipeline (libxml2
    validates schema and documents first).  A MAIN schema WITHOUT target namespace (base type, derived type selected by
    xsi:type, recursion) that imports a namespaced one: under the single-package style all classes share one module."""
    main = ('<xs:schema xmlns:xs="http://www.w3.org/2001/XMLSchema" xmlns:e="urn:ext" elementFormDefault="qualified">'
            '<xs:import namespace="urn:ext" schemaLocation="lib.xsd"/>'
            '<xs:complexType name="Party"><xs:sequence><xs:element name="name" type="xs:string"/><xs:element ref="e:note" minOccurs="0"/></xs:sequence>'
            '<xs:attribute name="id" type="xs:int"/></xs:complexType>'
            '<xs:complexType name="Company"><xs:complexContent><xs:extension base="Party"><xs:sequence><xs:element name="vat" type="xs:string"/>'
            '<xs:element name="tag" type="e:Tag" minOccurs="0"/></xs:sequence></xs:extension></xs:complexContent></xs:complexType>'
            '<xs:element name="root"><xs:complexType><xs:sequence><xs:element name="party" type="Party" maxOccurs="unbounded"/></xs:sequence></xs:complexType></xs:element>'
            "</xs:schema>")
    lib = ('<xs:schema xmlns:xs="http://www.w3.org/2001/XMLSchema" targetNamespace="urn:ext" xmlns:e="urn:ext" elementFormDefault="qualified">'
           '<xs:element name="note" type="xs:string"/>'
           '<xs:complexType name="Tag"><xs:sequence><xs:element name="k" type="xs:string"/></xs:sequence></xs:complexType></xs:schema>')
    docs = [f'<root {XSI_DECL}><party id="1"><name>n</name></party></root>',
            f'<root {XSI_DECL} xmlns:e="urn:ext"><party><name>n</name><e:note>x</e:note></party><party xsi:type="Company" id="2"><name>c</name><vat>v</vat>'
            f"<tag><e:k>t</e:k></tag></party></root>",
            f'<root {XSI_DECL}><party xsi:type="Company"><name>c</name><e:note xmlns:e="urn:ext">y</e:note><vat>v</vat></party><party><name>m</name></party></root>']
    schema = {"_files": {"main.xsd": main, "lib.xsd": lib}, "name": "no-namespace main schema importing a namespaced one"}
    run_compose_schema(ctx, schema, [{"doc": d, "uniform": True} for d in docs], optsets)
    # local elements of ONE name with DIFFERENT anonymous types under sibling (and nested) parents: the inner classes are
    # told apart by where they are declared, with or without unnest_classes
    def anon(body, attrs=""):
        return f"<xs:complexType><xs:sequence>{body}</xs:sequence>{attrs}</xs:complexType>"
    info_a = '<xs:element name="info">' + anon('<xs:element name="name" type="xs:string"/><xs:element name="email" type="xs:string" minOccurs="0"/>') + "</xs:element>"
    info_b = '<xs:element name="info">' + anon('<xs:element name="code" type="xs:int"/>', '<xs:attribute name="rating" type="xs:decimal" use="required"/>') + "</xs:element>"
    info_c = '<xs:element name="info">' + anon('<xs:element name="since" type="xs:date"/>' + info_a.replace('minOccurs="0"', "")) + "</xs:element>"
    twins = ('<xs:schema xmlns:xs="http://www.w3.org/2001/XMLSchema" targetNamespace="urn:tw" xmlns="urn:tw" elementFormDefault="qualified">'
             '<xs:element name="root">' + anon('<xs:element name="buyer">' + anon(info_a) + '</xs:element><xs:element name="seller">' + anon(info_b)
                                                + '</xs:element><xs:element name="agent" minOccurs="0">' + anon(info_c) + "</xs:element>") + "</xs:element></xs:schema>")
    docs = ['<root xmlns="urn:tw"><buyer><info><name>A</name><email>a@b</email></info></buyer><seller><info rating="4.5"><code>42</code></info></seller></root>',
            '<root xmlns="urn:tw"><buyer><info><name>A</name></info></buyer><seller><info rating="1"><code>7</code></info></seller>'
            "<agent><info><since>2020-02-29</since><info><name>N</name><email>e</email></info></info></agent></root>"]
    # a model group and an attribute group of ONE name (separate symbol spaces), both referenced by one type, in both orders
    def same_name(first_group):
        grp = '<xs:group name="G"><xs:sequence><xs:element name="p" type="xs:int"/><xs:element name="q" type="xs:string" minOccurs="0"/></xs:sequence></xs:group>'
        agr = '<xs:attributeGroup name="G"><xs:attribute name="a1" type="xs:int" use="required"/><xs:attribute name="a2" type="xs:string"/></xs:attributeGroup>'
        return ('<xs:schema xmlns:xs="http://www.w3.org/2001/XMLSchema" targetNamespace="urn:g" xmlns:t="urn:g" elementFormDefault="qualified">'
                + (grp + agr if first_group else agr + grp)
                + '<xs:element name="root"><xs:complexType><xs:sequence><xs:element name="h" type="xs:string"/><xs:group ref="t:G"/></xs:sequence>'
                '<xs:attributeGroup ref="t:G"/></xs:complexType></xs:element></xs:schema>')
    gdocs = ['<t:root xmlns:t="urn:g" a1="5" a2="two"><t:h>t</t:h><t:p>4</t:p></t:root>', '<t:root xmlns:t="urn:g" a1="6"><t:h>t</t:h><t:p>4</t:p><t:q>cue</t:q></t:root>']
    for first_group in (True, False):
        run_compose_schema(ctx, {"_files": {"main.xsd": same_name(first_group)}, "name": "group and attribute group of one name"},
                           [{"doc": d, "uniform": True} for d in gdocs], optsets[:2])
    # a REPEATING sequence in the base type and another one in the extension: each keeps its own rounds, in order
    ext_seq = ('<xs:schema xmlns:xs="http://www.w3.org/2001/XMLSchema" targetNamespace="urn:e" xmlns:t="urn:e" elementFormDefault="qualified">'
               '<xs:complexType name="Base"><xs:sequence maxOccurs="unbounded"><xs:element name="a" type="xs:int"/><xs:element name="b" type="xs:string"/></xs:sequence></xs:complexType>'
               '<xs:complexType name="Ext"><xs:complexContent><xs:extension base="t:Base"><xs:sequence maxOccurs="unbounded"><xs:element name="c" type="xs:int"/>'
               '<xs:element name="d" type="xs:string"/></xs:sequence></xs:extension></xs:complexContent></xs:complexType><xs:element name="root" type="t:Ext"/></xs:schema>')
    edocs = ['<t:root xmlns:t="urn:e"><t:a>1</t:a><t:b>x</t:b><t:a>2</t:a><t:b>y</t:b><t:c>3</t:c><t:d>z</t:d><t:c>4</t:c><t:d>w</t:d></t:root>',
             '<t:root xmlns:t="urn:e"><t:a>1</t:a><t:b>x</t:b><t:c>3</t:c><t:d>z</t:d><t:c>4</t:c><t:d>w</t:d><t:c>5</t:c><t:d>v</t:d></t:root>']
    run_compose_schema(ctx, {"_files": {"main.xsd": ext_seq}, "name": "repeating sequences in a base type and in its extension"},
                       [{"doc": d, "uniform": True} for d in edocs], optsets[:2])
    schema = {"_files": {"main.xsd": twins}, "name": "same-named local elements with different anonymous types"}
    run_compose_schema(ctx, schema, [{"doc": d, "uniform": True} for d in docs], optsets)


def run_compose(ctx):
    mc = ("SPECIFICATION Spec\nCONSTANTS\n  MaxDocIdx = 5\nCONSTRAINT MCOnly\nINVARIANT InvFixpointIsWalk\nINVARIANT InvLegalDerivation\n"
          "INVARIANT InvHeadsAccepted\nINVARIANT InvOccRespected\nCHECK_DEADLOCK FALSE\n")
    ctx.tlc("MC_Compose", "run.cfg", extra_files={"run.cfg": mc}, label="MC_Compose substitution closure / derivation / abstractness", timeout=1500)
    res = ctx.tlc("MC_Compose", "run.cfg", workers=1, simulate=f"num={ctx.pick(160, 4000)}", depth=18,      # (16 slots + the initial state)
                  extra_files={"run.cfg": "SPECIFICATION Spec\nCONSTANTS\n  MaxDocIdx = 5\nCONSTRAINT Emit\nCHECK_DEADLOCK FALSE\n"},
                  label="Gen_Compose schemas and documents", tags=("CMP",), require_cases=True, timeout=3000)
    by = {}
    for _t, c in res.printed:
        if c["hasInstance"]:
            by.setdefault(json.dumps(c["schema"], sort_keys=True), {})[json.dumps(c["doc"], sort_keys=True)] = c
    rnd = random.Random(ctx.seed + 2)
    optsets = sb.option_sets()
    for n, (k, docs) in enumerate(by.items()):
        pick = [optsets[0], optsets[1]] + ([rnd.choice(optsets[2:])] if n % 3 == 0 or not ctx.quick else [])
        cases = list(docs.values())
        run_compose_schema(ctx, cases[0]["schema"], cases, pick)
        if n == 0:
            ctx.sample({"xsd": cb.schema_files(cases[0]["schema"]), "document": cb.doc_xml(cases[0]["schema"], cases[0]["doc"])})
    ctx.extra["compose_schemas"] = len(by)
    if len(by) < 20:
        # a walk that is too short for the slots never completes a schema: the family would silently check nothing
        raise MachineryError(f"the Compose simulation produced only {len(by)} complete schemas")
    handwritten_corpus(ctx, optsets)


def run(ctx):
    ctx.rule = (
        "TLC: content models over seq/choice/all x occurrence ranges x 2 elements x nested group, exhaustive check that the "
        "constructive document generator and the independent acceptor agree; schemas (with namespaces, forms, named/anonymous "
        "types, attribute variants, simple content) and documents drawn by simulation. Real code: XSD + XML text validated by "
        "libxml2, real generator under several output-only option sets, strict parse, serialise, value-space comparison, order "
        "and re-validation where OrderPreserving. Second family (spec/Compose.tla): substitution groups (flat/chained, abstract heads), "
        "extension + xsi:type (abstract bases), named groups, attribute groups, recursion, wildcards, include/import; TLC checks the "
        "construction (closure fixpoint = parent walk, legal derivation, nothing abstract instantiated), same real-code pipeline with a "
        "canonical comparison that resolves xsi:type. A case is a distinct (schema, document, option set)."
    )
    ctx.assumptions += ["stand-ins for jinja2/click/toposort/ruff (see DESIGN.md section 5); libxml2 as independent validator",
                        "repetitions in documents bounded by 2"]
    ctx.tlc("MC_Schema", "run.cfg", extra_files={"run.cfg": cfg('{"int"}', "OccsSmall", 0, mc=True)}, label="MC_Schema construction vs acceptor", timeout=1500)
    ctx.exhaustive = False
    types = '{"int", "string", "boolean", "decimal", "date", "Color", "Ints", "IntsAnon", "IntOrStr", "ColorOrInt", "Kid", "FixedStr", "DefInt", "long"}'
    res = ctx.tlc("MC_Schema", "run.cfg", workers=1, simulate=f"num={ctx.pick(260, 6000)}", depth=13,
                  extra_files={"run.cfg": cfg(types, ctx.pick("OccsSmall", "OccsAll"), 6, emit=True)}, label="Gen_Schema schemas and documents",
                  tags=("XSD",), require_cases=True, timeout=3000)
    # the fixed corpus (reproducers and rarely drawn shapes): replayed in every run
    corpus = ctx.tlc("MC_Schema", "run.cfg", workers=1,
                     extra_files={"run.cfg": f"INIT InitCorpus\nNEXT Next\nCONSTANTS\n  MaxDocIdx = 6\n  Types = {types}\n  Occs <- OccsAll\nCONSTRAINT Emit\nCHECK_DEADLOCK FALSE\n"},
                     label="Gen_Schema fixed corpus", tags=("XSD",), require_cases=True, timeout=1500)
    by_schema = {}
    for _t, c in list(corpus.printed) + list(res.printed):
        k = json.dumps(c["schema"], sort_keys=True)
        by_schema.setdefault(k, {"schema": c["schema"], "docs": {}})
        by_schema[k]["docs"][json.dumps(c["doc"], sort_keys=True)] = (c["doc"], {"op": c["op"], "opNoCompound": c["opNoCompound"]})
    rnd = random.Random(ctx.seed)
    optsets = sb.option_sets()
    n = 0
    for k, ent in by_schema.items():
        n += 1
        pick = [optsets[0], optsets[1]] + ([rnd.choice(optsets[2:])] if n % 3 == 0 or not ctx.quick else [])
        run_schema(ctx, ent["schema"], list(ent["docs"].values()), pick)
        if len(ctx.samples) < 2 and n % 50 == 1:
            d0 = next(iter(ent["docs"].values()))[0]
            ctx.sample({"xsd": sb.schema_xsd(ent["schema"]), "document": sb.doc_xml(ent["schema"], d0)})
    ctx.extra["schemas"] = len(by_schema)
    run_compose(ctx)
    cg.cleanup_all()


def replay(ctx, doc):
    print(doc["what"])
    c = doc["case"]
    print(c.get("xsd"))
    print(c.get("xml"))
    print(c.get("out"))
