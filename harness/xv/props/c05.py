"""C05 - primitive values map to valid XSD lexical forms and back.

spec/Lexical.tla: the XSD lexical spaces of boolean, integer, decimal, float/double, hexBinary,
base64Binary (recognisers with structured values), the documented type priority (SortTypes,
Winner) and QName resolution.  TLC assembles literals from boundary grids (generated module
LXGrid) and prints the reference verdict for each; (c) every XSD-valid literal, with surrounding
whitespace, must be accepted by converter.deserialize with the XSD value (compared through exact
fractions); (a) the strings converter.serialize produces for a grid of values are fed back to TLC
and must be in the lexical space with the same value; (b) deserialize(serialize(v)) == v;
(d) for every subset of candidate types x probe literal the result has the type TLC's Winner
names; QName resolution/serialisation against prefix maps; enums and formatted date types.
"""
from __future__ import annotations

import base64
import datetime
import itertools
import json
import math
import random
from decimal import Decimal
from enum import Enum
from fractions import Fraction
from xml.etree.ElementTree import QName

from xsdata.exceptions import ConverterError
from xsdata.formats.converter import converter
from xsdata.models.datatype import XmlDate, XmlDateTime, XmlDuration, XmlPeriod, XmlTime

from ..dt_bind import chars, tla_set

KINDS = ["boolean", "integer", "decimal", "float", "hex", "base64"]
PYTYPE = {"boolean": bool, "integer": int, "decimal": Decimal, "float": float, "hex": bytes, "base64": bytes}
FORMAT = {"hex": "base16", "base64": "base64"}
TYPES = {"int": int, "bool": bool, "float": float, "Decimal": Decimal, "XmlDate": XmlDate, "QName": QName, "str": str}

PADS = ["", " ", "\n\t "]
SIGN = ["", "+", "-"]


def lex_slots(kind, tier):
    q = tier == "quick"
    if kind == "boolean":
        return [PADS, ["true", "false", "1", "0", "TRUE", "True", "yes", "", "2", "01", "t"], PADS]
    if kind == "integer":
        return [PADS[:2], SIGN, ["0", "1", "007", "42", "2147483648", "9223372036854775808", "123456789012345678901234567890", "", "1.0", "1e3", "٣", "1 2"], PADS[:2]]
    if kind == "decimal":
        return [PADS[:2], SIGN, ["0", "1", "1.", ".5", "1.50", "0.001", "123456789.123456789", "00.10", "", ".", "1e3", "1.2.3", "INF", "NaN", "1,5"], PADS[:2]]
    if kind == "float":
        mant = ["0", "1", "1.", ".5", "1.5", "0.1", "123456789012345678", "9007199254740993", "1.7976931348623157", "4.9", "", "."]
        exps = ["", "e0", "E3", "e-3", "E+3", "e22", "e308", "e-324", "e", "E+", "e1.5"] if not q else ["", "E3", "e-3", "e22", "e308", "e-324", "e"]
        return [PADS[:2], SIGN, mant, exps, PADS[:2]]
    if kind == "hex":
        return [PADS[:2], ["", "00", "0a", "0A", "ff", "FF", "0", "0g", "787364617461", "a b"], ["", "ff", "F"], PADS[:2]]
    if kind == "base64":
        return [PADS[:2], ["", "AA==", "AAA=", "AAAA", "eHNk", "eHNkYXRh", "A", "AA=", "AA", "A===", "!AAA", "eHN k", "eH\nNk"], ["", "YQ==", "="], PADS[:2]]
    raise ValueError(kind)


SPECIALS = ["INF", "-INF", "+INF", "NaN", "inf", "nan", "Infinity", "-inf"]

PROBES = ["1", "0", "true", "false", "1.5", "1e3", "INF", "NaN", "-7", "+3", "2020-02-29", "2020-02-30", "abc", "", " 1 ", "p:x", "007", ".5"]
PRIO_TYPES = ["int", "bool", "float", "Decimal", "XmlDate", "str"]


def grid_module(kind, tier, out_lits=None):
    lex = lex_slots(kind, tier) if kind in KINDS else [[""]]
    if kind == "float":
        pass
    lex_t = "<< " + ", ".join(tla_set(chars(x) for x in slot) for slot in lex) + " >>"
    subsets = []
    for n in range(1, len(PRIO_TYPES) + 1):
        for comb in itertools.combinations(PRIO_TYPES, n):
            # two orders of each subset: the priority must not depend on the declared order
            subsets.append(comb)
            if n > 1:
                subsets.append(tuple(reversed(comb)))
    prio_t = "<< " + tla_set("<<" + ", ".join(f'"{t}"' for t in s) + ">>" for s in subsets) + ", " + tla_set(chars(p) for p in PROBES) + " >>"
    maps = [[], [("p", "u1")], [("", "u0")], [("p", "u1"), ("", "u0")], [("p", "u1"), ("q", "u2")], [("p", "")]]
    maps_t = tla_set("<<" + ", ".join(f"<<{chars(p)}, {chars(u)}>>" for p, u in m) + ">>" for m in maps)
    qlits = ["p:x", "x", "q:x", "zz:x", ":x", "p:", "p:x:y", " p:x ", "1x", "p:1x", "x-1", "",
             "_x", "p:_x", "_", "-x", "p:-x", ".x", "x.y-z_", "\u00e9a", "p:\u00e9"]     # name start characters other than ASCII letters
    qn_t = "<< " + maps_t + ", " + tla_set(chars(x) for x in qlits) + " >>"
    out_t = "<< " + tla_set(chars(x) for x in (out_lits or [""])) + " >>"
    return (
        "------------------------------- MODULE LXGrid -------------------------------\n"
        "EXTENDS Naturals, Sequences\n"
        f"LexSlots(kind) == {lex_t}\nOutSlots(kind) == {out_t}\nPrioSlots == {prio_t}\nQNameSlots == {qn_t}\n"
        "=============================================================================\n"
    )


def cfg(kind, mode, invs=(), emit=True):
    out = f'SPECIFICATION Spec\nCONSTANTS\n  DatePolicy = "repaired"\n  Kind = "{kind}"\n  Mode = "{mode}"\n'
    for i in invs:
        out += f"INVARIANT {i}\n"
    return out + ("CONSTRAINT Emit\n" if emit else "") + "CHECK_DEADLOCK FALSE\n"


def lit(cs):
    return "".join(cs)


def frac(ref) -> Fraction:
    digits = lit(ref["digits"]) or "0"
    f = Fraction(int(digits), 10 ** ref["scale"]) * (Fraction(10) ** ref.get("exp", 0))
    return -f if ref["neg"] else f


def expected_value(kind, ref):
    if kind == "boolean":
        return ref["b"]
    if kind == "integer":
        return int(frac(ref))
    if kind == "decimal":
        return frac(ref)
    if kind == "float":
        if ref["special"] != "no":
            return {"nan": math.nan, "inf": math.inf, "-inf": -math.inf}[ref["special"]]
        f = frac(ref)
        try:
            v = float(f)  # correctly rounded nearest double, independent of float(str)
        except OverflowError:
            v = math.inf if f > 0 else -math.inf
        if v == 0 and ref["neg"]:
            v = -0.0
        return v
    if kind == "hex":
        return bytes.fromhex(lit(ref["hex"]))
    if kind == "base64":
        return base64.b64decode(lit(ref["b64"]))
    raise ValueError(kind)


def same(kind, got, want) -> bool:
    if kind == "float":
        if isinstance(got, bool) or not isinstance(got, float):
            return False
        if math.isnan(want):
            return math.isnan(got)
        return got == want and math.copysign(1, got) == math.copysign(1, want)
    if kind == "decimal":
        return isinstance(got, Decimal) and got.is_finite() and Fraction(got) == want
    if kind == "boolean":
        return got is want
    if kind == "integer":
        return type(got) is int and got == want
    return got == want


def check_lex(ctx, case):
    kind, s, ref = case["kind"], lit(case["lit"]), case["ref"]
    ctx.case(("lex", kind, s))
    try:
        got = ("ok", converter.deserialize(s, [PYTYPE[kind]], **({"format": FORMAT[kind]} if kind in FORMAT else {})))
    except ConverterError:
        got = ("reject", None)
    except Exception as ex:  # noqa: BLE001
        ctx.violation(f"{kind}: deserialize({s!r}) raised {type(ex).__name__}: {ex} (not a ConverterError)", {"kind": kind, "literal": s})
        return
    if ref.get("ok"):
        want = expected_value(kind, ref)
        if got[0] != "ok":
            ctx.violation(f"{kind}: XSD-valid literal {s!r} is rejected", {"kind": kind, "literal": s, "ref": ref})
        elif not same(kind, got[1], want):
            ctx.violation(f"{kind}: literal {s!r} converts to {got[1]!r}, XSD assigns {want!r}", {"kind": kind, "literal": s, "ref": ref})


VALUES = {
    "boolean": [True, False],
    "integer": [0, 1, -1, 7, 2**31, -(2**63), 10**30, -(10**30)],
    "decimal": [Decimal("0"), Decimal("1.50"), Decimal("-0.001"), Decimal("1E+2"), Decimal("1E-10"), Decimal("123456789.123456789"),
                Decimal("-0"), Decimal("0E-7"), Decimal("1E+20"), Decimal("9.999999999999999999999999999")],
    "float": [0.0, -0.0, 1.0, -1.5, 0.1, 1 / 3, 1e16, 1e21, 1e22, 1e23, 123456789012345680.0, 1e-5, 1e-7, 5e-324, 2.0**53, 2.0**63,
              1.7976931348623157e308, 2.2250738585072014e-308, math.inf, -math.inf, math.nan, 1e100, 123456.789e-20],
    "hex": [b"", b"\x00", b"\xff\xfe", b"xsdata", bytes(range(16))],
    "base64": [b"", b"\x00", b"ab", b"abc", b"abcd", b"\xff\xfe\xfd", bytes(range(40))],
}


class Color(Enum):
    RED = "red"
    TWO_WORDS = "two words"
    # values of a string enumeration are compared as they are: runs of blanks, tabs inside the value belong to it
    WIDE = "two  words"
    TABBED = "x\ty"


class Num(Enum):
    ONE = 1
    BIG = 10**20


class Flt(Enum):
    HALF = 0.5
    INF = math.inf


class Toks(Enum):
    AB = ("a", "b")
    C = ("c",)


class QE(Enum):
    A = QName("urn:x-y", "a")
    B = QName("urn:b", "beta")


class Blob(Enum):
    X = b"\x01\xff"
    Y = b"xsdata"


def run(ctx):
    ctx.rule = (
        "TLC assembles literals from boundary grids per datatype and prints the XSD reference verdict and structured value; "
        "every literal goes through converter.deserialize (value compared via exact fractions); strings produced by "
        "converter.serialize for a value grid are validated by TLC against the lexical space; all subsets (both orders) of 6 "
        "candidate types x 18 probes against Winner; QName maps x literals against QResolve; enums, formatted dates, strings. "
        "A case is a distinct (datatype, literal), (datatype, value), (type list, probe) or (map, QName literal)."
    )
    ctx.assumptions += ["float(Fraction) of CPython is correctly rounded (used as the XSD value of a float literal)",
                        "leniency (accepting strings outside the XSD lexical space) is not a violation of C05"]
    produced = {}
    for kind in KINDS:
        files = {"LXGrid.tla": grid_module(kind, ctx.tier)}
        ctx.tlc("MC_Lexical", "run.cfg", extra_files={**files, "run.cfg": cfg(kind, "lex", ["InvPadding"], emit=False)},
                label=f"MC_Lexical {kind} lex", timeout=1500)
        res = ctx.tlc("MC_Lexical", "run.cfg", workers=1, extra_files={**files, "run.cfg": cfg(kind, "lex")}, label=f"Gen_Lexical {kind}",
                      tags=("LEX",), timeout=1500)
        seen = set()
        for _t, c in res.printed:
            k = lit(c["lit"])
            if k not in seen:
                seen.add(k)
                check_lex(ctx, c)
        if res.printed:
            c = res.printed[len(res.printed) // 2][1]
            ctx.sample({"datatype": kind, "literal": lit(c["lit"]), "xsd": c["ref"]})
        # values -> real serialize
        table = {}
        kw = {"format": FORMAT[kind]} if kind in FORMAT else {}
        for v in VALUES[kind]:
            ctx.case(("val", kind, repr(v)))
            try:
                s = converter.serialize(v, **kw)
                back = converter.deserialize(s, [PYTYPE[kind]], **kw)
            except Exception as ex:  # noqa: BLE001
                ctx.violation(f"{kind}: serialize/deserialize of {v!r} raised {type(ex).__name__}: {ex}", {"kind": kind, "value": repr(v)})
                continue
            table[s] = v
            ok = (math.isnan(back) and math.isnan(v)) if isinstance(v, float) and math.isnan(v) else (back == v and type(back) is type(v) and str(back) == str(v) if kind != "decimal" else back == v)
            if not ok:
                ctx.violation(f"{kind}: deserialize(serialize({v!r})) = {back!r} via {s!r}", {"kind": kind, "value": repr(v), "str": s})
        produced[kind] = table
    ctx.exhaustive = True
    # code -> spec: produced strings validated against the lexical space by TLC
    for kind, table in produced.items():
        res = ctx.tlc("MC_Lexical", "run.cfg", workers=1, extra_files={"LXGrid.tla": grid_module(kind, ctx.tier, out_lits=sorted(table)), "run.cfg": cfg(kind, "out")},
                      label=f"Trace_Lexical {kind} produced strings", tags=("LEX",), timeout=1500)
        seen = set()
        for _t, c in res.printed:
            s = lit(c["lit"])
            if s in seen or s not in table:
                continue
            seen.add(s)
            v = table[s]
            if not c["ref"].get("ok"):
                ctx.violation(f"{kind}: serialize({v!r}) = {s!r} is not in the XSD lexical space", {"kind": kind, "value": repr(v), "str": s})
            elif not same(kind, v if kind != "decimal" else v, expected_value(kind, c["ref"])) and not (kind == "decimal" and Fraction(v) == expected_value(kind, c["ref"])):
                ctx.violation(f"{kind}: serialize({v!r}) = {s!r} denotes {expected_value(kind, c['ref'])!r}", {"kind": kind, "value": repr(v), "str": s})
            else:
                ctx.traces_validated += 1
    # (d) candidate type lists
    res = ctx.tlc("MC_Lexical", "run.cfg", workers=1, extra_files={"LXGrid.tla": grid_module("integer", ctx.tier), "run.cfg": cfg("integer", "prio", ["InvWinner"])},
                  label="Gen_Lexical priority", tags=("PRIO",), timeout=1500)
    seen = set()
    for _t, c in res.printed:
        k = json.dumps([c["types"], c["lit"]])
        if k in seen:
            continue
        seen.add(k)
        check_prio(ctx, c)
    # QName resolution
    res = ctx.tlc("MC_Lexical", "run.cfg", workers=1, extra_files={"LXGrid.tla": grid_module("integer", ctx.tier), "run.cfg": cfg("integer", "qname")},
                  label="Gen_Lexical qname", tags=("QN",), timeout=1500)
    seen = set()
    for _t, c in res.printed:
        k = json.dumps([c["map"], c["lit"]])
        if k not in seen:
            seen.add(k)
            check_qname(ctx, c)
    extras(ctx)


def check_prio(ctx, c):
    types = [TYPES[t] for t in c["types"]]
    s = lit(c["lit"])
    ctx.case(("prio", tuple(c["types"]), s))
    real_sorted = [t.__name__ for t in converter.sort_types(types)]
    if real_sorted != c["sorted"]:
        ctx.violation(f"sort_types({c['types']}) = {real_sorted}, the documented priority gives {c['sorted']}", {"types": c["types"]})
        return
    winner = c["winner"]
    # leniency guard: skip probes that an earlier candidate accepts outside its XSD lexical space
    for t in c["sorted"]:
        if t == winner:
            break
        try:
            converter.deserialize(s, [TYPES[t]])
            return  # an earlier type accepts leniently: the statement does not decide this case
        except ConverterError:
            pass
    try:
        got = converter.deserialize(s, converter.sort_types(types))
        got_t = type(got).__name__
    except ConverterError:
        got_t = "none"
    if got_t != winner:
        ctx.violation(f"candidate types {c['types']} and literal {s!r}: result is {got_t}, the priority order gives {winner}", {"types": c["types"], "literal": s})


def check_qname(ctx, c):
    m = {lit(p) or None: lit(u) for p, u in c["map"]}
    s = lit(c["lit"])
    ctx.case(("qn", json.dumps(c["map"]), s))
    try:
        got = converter.deserialize(s, [QName], ns_map=m)
    except ConverterError:
        got = None
    res = c["res"]
    if res.get("ok"):
        want = QName(lit(res["uri"]), lit(res["local"])) if res["uri"] else QName(lit(res["local"]))
        if got != want:
            ctx.violation(f"QName literal {s!r} with prefixes {m}: got {got!r}, XML Namespaces gives {want!r}", {"map": repr(m), "literal": s})
        else:
            # and back: serialising with the same map gives a literal that resolves to the same name
            s2 = converter.serialize(want, ns_map=dict(m))
            if converter.deserialize(s2, [QName], ns_map=dict(m)) != want and lit(res["uri"]):
                ctx.violation(f"serialize({want!r}) with {m} = {s2!r} does not resolve back", {"map": repr(m)})
    elif got is not None and s.strip().count(":") == 1 and s.strip().split(":")[0] not in ("", *[k for k in m if k]) and s.strip().split(":")[1]:
        ctx.violation(f"QName literal {s!r} with an undeclared prefix was accepted as {got!r}", {"map": repr(m), "literal": s})


def extras(ctx):
    """Enums, strings, QName without a map, date types with formats, whitespace for the value types of C06."""
    for enum_cls in (Color, Num, Flt, QE):
        for member in enum_cls:
            ctx.case(("enum", enum_cls.__name__, member.name))
            try:
                s = converter.serialize(member)
                back = converter.deserialize(s, [enum_cls])
                padded = converter.deserialize(f" {s}\n", [enum_cls])
            except Exception as ex:  # noqa: BLE001
                ctx.violation(f"enum {member!r}: {type(ex).__name__}: {ex}", {"enum": repr(member)})
                continue
            if back is not member or padded is not member:
                ctx.violation(f"enum {member!r} -> {s!r} -> {back!r} / padded {padded!r}", {"enum": repr(member)})
    # enumerations over numbers are matched in the VALUE space (an enumeration facet lists values, not spellings):
    # every lexical form of a member's value selects that member - other exponents, signs, zero of either sign
    class Zf(Enum):
        ZERO = 0.0
        HALF = 0.5
        BIG = 1e3

    class Zi(Enum):
        ZERO = 0
        SEVEN = 7

    forms = {Zf.ZERO: ["0", "0.0", "-0", "-0.0", "+0.0", "0E0", "-0E0", ".0", "-.0", "0e5"], Zf.HALF: ["0.5", ".5", "5E-1", "+0.50", "0.5e0"],
             Zf.BIG: ["1000", "1e3", "1E3", "1000.0", "+1.0E3", "0.1e4"], Zi.ZERO: ["0", "-0", "+0", "000"], Zi.SEVEN: ["7", "+7", "007"]}
    for member, lits in forms.items():
        for lex in lits:
            for raw in (lex, f"\n {lex}\t"):
                ctx.case(("enum-number", type(member).__name__, member.name, raw))
                try:
                    back = converter.deserialize(raw, [type(member)])
                except Exception as ex:  # noqa: BLE001
                    ctx.violation(f"enum over numbers {member!r}: lexical form {raw!r} of its value is refused: {type(ex).__name__}: {ex}", {"enum": repr(member), "literal": raw})
                    continue
                if back is not member:
                    ctx.violation(f"enum over numbers {member!r}: lexical form {raw!r} of its value gives {back!r}", {"enum": repr(member), "literal": raw})
    # xs:decimal is arbitrary precision: more significant digits than the decimal context of the interpreter holds (28)
    for lex in ("1.00000000000000000000000000001", "12345678901234567890123456789012345", "-0.000000000000000000000000000000000001234567890123456789012345678901",
                "+99999999999999999999999999999.99999999999999999999999999999", str(2 ** 100), "0.10000000000000000000000000000000000000"):
        ctx.case(("decimal-precision", lex))
        try:
            back = converter.deserialize(lex, [Decimal])
            again = converter.deserialize(converter.serialize(back), [Decimal])
        except Exception as ex:  # noqa: BLE001
            ctx.violation(f"decimal literal {lex!r} is refused: {type(ex).__name__}: {ex}", {"literal": lex})
            continue
        if back != Decimal(lex) or str(back.normalize()) != str(Decimal(lex).normalize()) or again != back:
            ctx.violation(f"decimal literal {lex!r} gives {back!r} (written back and read again: {again!r}); xs:decimal assigns it {Decimal(lex)!r}", {"literal": lex})
    # SEVERAL enumerations in one candidate list (a union of enumerations): each is asked in the documented order, the first
    # that holds the value wins, a string candidate at the end takes what none of them holds
    for lex, types, want in (("7", [Zf, Zi], Zi.SEVEN), ("0.5", [Zi, Zf], Zf.HALF), ("0", [Zf, Zi], Zf.ZERO), ("0", [Zi, Zf], Zi.ZERO),
                             ("7", [Zf, Zi, str], Zi.SEVEN), ("nine", [Zf, Zi, str], "nine"), ("1e3", [Zi, Color, Zf], Zf.BIG),
                             ("red", [Zi, Zf, Color], Color.RED) if hasattr(Color, "RED") else ("7", [Zi], Zi.SEVEN)):
        ctx.case(("enum-candidates", lex, tuple(t.__name__ for t in types)))
        try:
            back = converter.deserialize(lex, types)
        except Exception as ex:  # noqa: BLE001
            ctx.violation(f"candidate list {[t.__name__ for t in types]}: {lex!r} is refused: {type(ex).__name__}: {ex}", {"literal": lex})
            continue
        if back is not want and back != want:
            ctx.violation(f"candidate list {[t.__name__ for t in types]}: {lex!r} gives {back!r}, the first candidate that holds the value gives {want!r}", {"literal": lex})
    # enums whose members need the keyword arguments of the member converter: a QName member written with a PREFIX
    # (resolved through the prefix map), a bytes member in base16 / base64
    for member in QE:
        uri, local = member.value.text[1:].split("}")
        for ns_map in ({"p": uri}, {"p": uri, None: "urn:other"}, {None: uri}):
            ctx.case(("enum-qname", member.name, str(ns_map)))
            try:
                s = converter.serialize(member, ns_map=dict(ns_map))
                back = converter.deserialize(s, [QE], ns_map=dict(ns_map))
                lex = ("p:" if "p" in ns_map else "") + local
                direct = converter.deserialize(lex, [QE], ns_map=dict(ns_map))
            except Exception as ex:  # noqa: BLE001
                ctx.violation(f"enum over QName {member!r} with prefixes {ns_map}: {type(ex).__name__}: {ex}", {"enum": repr(member), "ns_map": str(ns_map)})
                continue
            if back is not member or direct is not member:
                ctx.violation(f"enum over QName {member!r} with prefixes {ns_map}: {s!r} -> {back!r}, {lex!r} -> {direct!r}", {"enum": repr(member)})
    for member in Blob:
        for fmt, lex in (("base16", member.value.hex().upper()), ("base16", member.value.hex()), ("base64", __import__("base64").b64encode(member.value).decode())):
            ctx.case(("enum-bytes", member.name, fmt, lex))
            try:
                back = converter.deserialize(lex, [Blob], format=fmt)
                again = converter.deserialize(converter.serialize(member, format=fmt), [Blob], format=fmt)
            except Exception as ex:  # noqa: BLE001
                ctx.violation(f"enum over bytes {member!r} ({fmt}) literal {lex!r}: {type(ex).__name__}: {ex}", {"enum": repr(member)})
                continue
            if back is not member or again is not member:
                ctx.violation(f"enum over bytes {member!r} ({fmt}): {lex!r} -> {back!r}", {"enum": repr(member)})
    for v in ["", "t", " a b ", "<&>", "\U0001F600", "é"]:
        if converter.deserialize(converter.serialize(v), [str]) != v:
            ctx.violation(f"str {v!r} does not survive", {"value": v})
    for q in (QName("urn:x-y", "a"), QName("a"), QName("http://www.w3.org/2001/XMLSchema-instance", "t")):
        ctx.case(("qname-clark", q.text))
        try:
            back = converter.deserialize(converter.serialize(q), [QName])
        except ConverterError as ex:
            back = ex
        if back != q:
            ctx.violation(f"QName {q!r} without a prefix map: serialize -> {converter.serialize(q)!r} -> {back!r}", {"qname": q.text})
    fmts = [(datetime.date(2024, 2, 29), "%d/%m/%Y"), (datetime.datetime(1999, 12, 31, 23, 59, 59), "%Y-%m-%dT%H:%M:%S"),
            (datetime.time(7, 5, 0), "%H:%M:%S"), (datetime.date(1987, 1, 1), "%Y-%m-%d"),
            # every directive a value of the type can carry: fractions of a second, 12-hour clock, offsets, day of the year
            (datetime.time(12, 55, 7, 500000), "%H:%M:%S.%f"), (datetime.time(0, 0, 0, 1), "%H%M%S%f"), (datetime.time(23, 59, 59, 999999), "%I:%M:%S.%f %p"),
            (datetime.time(7, 5), "%H.%M"), (datetime.datetime(2018, 6, 21, 15, 40, 3, 250000), "%Y-%m-%dT%H:%M:%S.%f"),
            (datetime.datetime(2001, 1, 1, 0, 0, 0, 7), "%d.%m.%Y %H:%M:%S,%f"), (datetime.date(2020, 12, 31), "%Y-%j"), (datetime.date(1000, 1, 1), "%Y%m%d"),
            (datetime.datetime(2020, 2, 29, 12, 0, 0, tzinfo=datetime.timezone(datetime.timedelta(hours=5, minutes=30))), "%Y-%m-%dT%H:%M:%S%z"),
            (datetime.time(1, 2, 3, tzinfo=datetime.timezone.utc), "%H:%M:%S%z")]
    for v, f in fmts:
        ctx.case(("fmt", repr(v), f))
        try:
            s = converter.serialize(v, format=f)
            back = converter.deserialize(s, [type(v)], format=f)
        except Exception as ex:  # noqa: BLE001
            ctx.violation(f"{v!r} with format {f!r}: {type(ex).__name__}: {ex}", {"value": repr(v), "format": f})
            continue
        if back != v:
            ctx.violation(f"{v!r} with format {f!r} -> {s!r} -> {back!r}", {"value": repr(v), "format": f})
    # surrounding whitespace for the XSD value types (the whiteSpace facet is the converter's job)
    for cls, s in [(XmlDate, "2020-02-29"), (XmlTime, "12:00:00Z"), (XmlDateTime, "2020-02-29T12:00:00"), (XmlDuration, "P1Y2M"), (XmlPeriod, "--02-29")]:
        ctx.case(("ws", cls.__name__))
        try:
            a = converter.deserialize(s, [cls])
            b = converter.deserialize(f" \n{s}\t ", [cls])
        except ConverterError as ex:
            ctx.violation(f"{cls.__name__}: literal {s!r} with surrounding whitespace is rejected: {ex}", {"type": cls.__name__, "literal": s})
            continue
        if a != b or str(b) != s:
            ctx.violation(f"{cls.__name__}: surrounding whitespace changes the value: {a!r} vs {b!r} (str {str(b)!r})", {"type": cls.__name__})


def replay(ctx, doc):
    print(doc["what"])
