"""C19 - a shared binding context under concurrent use.

spec/Context.tla (threaded part): TLC explores every interleaving of the micro-steps of
2..3 threads (exhaustive) and checks SameAsAlone.  Binding:
  (i)   TLC-generated schedules are forced onto real threads on a real XmlContext by the
        sys.settrace scheduler; results compared with the results each call returns alone.
  (ii)  systematic bounded-preemption exploration of API-level operations (XmlParser with
        xsi:type, XmlParser without a target class, XmlSerializer, JsonParser without a
        class) on one shared context; decisive: equal to the sequential results.
  (iii) every execution of (ii) is recorded (per-thread context operations + yield points in
        execution order) and validated by TLC against Trace_ContextT.
"""
from __future__ import annotations

import json
import random

from xsdata.formats.dataclass.parsers import JsonParser, XmlParser
from xsdata.formats.dataclass.serializers import XmlSerializer
from xsdata.formats.dataclass.serializers.config import SerializerConfig

from .. import context_bind as cb
from .. import sched
from ..policy import context_cfg
from ..poly_models import WildOther

XSI = "http://www.w3.org/2001/XMLSchema-instance"


def _res_eq(a, b):
    if a[0] != b[0]:
        return False
    if a[0] == "exc":
        return type(a[1]) is type(b[1])
    return a[1] == b[1]


def _show(r):
    return (r[0], repr(r[1])[:300])


# -- (i) spec -> code -----------------------------------------------------------
def replay_schedule(ctx, ms, scheduler, case):
    progs = case["progs"]
    warm = case["warm"] == "warm"
    xctx = cb.fresh_context(warm, rec=False)
    bodies = [cb.run_spec_ops(xctx, t, progs[t]) for t in range(len(progs))]
    schedule = [(t - 1, lab) for t, lab in case["sched"]]
    r = scheduler.run(bodies, sched.follow(schedule))
    # expected: each op alone on a fresh context
    for t, prog in enumerate(progs):
        got = r.results.get(t)
        exp = []
        for o in prog:
            alone = cb.fresh_context(False, rec=False)
            exp.append(cb.run_spec_ops(alone, 0, [o])()[0])
        if got is None or got[0] != "ok":
            ctx.violation(f"thread {t} did not complete under a TLC schedule: {_show(got) if got else None}",
                          {"case": case, "diverged": r.diverged})
            continue
        if [cb.norm(x) for x in got[1]] != [cb.norm(x) for x in exp]:
            ctx.violation(f"thread {t}: results under the forced schedule differ from the results alone: "
                          f"{got[1]} vs {exp}", {"case": case, "trace": r.trace})
        spec_res = case["results"][t]
        if [cb.norm(x) for x in got[1]] != [cb.norm(x) for x in spec_res]:
            ctx.divergences.append({"kind": "result", "thread": t, "real": got[1], "spec": spec_res, "sched": case["sched"]})
    if r.diverged:
        ctx.divergences.append({"kind": "schedule", "why": r.diverged, "sched": case["sched"], "real_trace": r.trace})
    elif [(t + 1, lab) for t, lab in r.trace] != [tuple(x) for x in case["sched"]]:
        ctx.divergences.append({"kind": "labels", "sched": case["sched"], "real_trace": r.trace})


# -- (ii) API-level scenarios ----------------------------------------------------
class SharedInstances:
    """One parser / serializer / JSON parser per run, shared by all threads (the statement shares the instances,
    not only the context)."""

    def __init__(self, xctx):
        self.xp = XmlParser(context=xctx)
        self.xs = XmlSerializer(context=xctx, config=SerializerConfig(xml_declaration=False))
        self.jp = JsonParser(context=xctx)


_SHARED: dict = {}


def shared_of(c) -> SharedInstances:
    """The shared instances of a run (created once per context, before any thread can race for them)."""
    sh = _SHARED.get(id(c))
    if sh is None or sh.xp.context is not c:
        sh = _SHARED[id(c)] = SharedInstances(c)
    return sh


def api_ops(mod):
    doc_a = f'<Base xmlns="urn:a" xmlns:xsi="{XSI}" xsi:type="Derived"><x>1</x><y>s</y></Base>'
    doc_b = '<ns0:Other xmlns:ns0="urn:b"><ns0:z>q</ns0:z></ns0:Other>'
    obj_c = mod.Other(z="v", b=mod.Derived(x=2, y="d"))
    cfg = SerializerConfig(xml_declaration=False)
    return {
        "parse_xsi": lambda c: XmlParser(context=c).from_string(doc_a, mod.Base),
        "parse_noclass": lambda c: XmlParser(context=c).from_string(doc_b),
        "serialize": lambda c: XmlSerializer(context=c, config=cfg).render(obj_c),
        "json_noclass": lambda c: JsonParser(context=c).from_string('{"z": "k"}'),
        "find_derived": lambda c: [cb.id_of(t) for t in list(c.find_types("{urn:a}Derived"))],
        # a MISS: looking a name up must stay a read (another thread may be walking the index)
        "find_unknown": lambda c: [cb.id_of(t) for t in list(c.find_types("{urn:x}Unknown"))],
        # the same calls through instances shared by all threads (attribute _shared of the context of the run)
        "shared_parse_noclass": lambda c: shared_of(c).xp.from_string(doc_b),
        "shared_parse_noclass_a": lambda c: shared_of(c).xp.from_string(doc_a),
        "shared_serialize": lambda c: shared_of(c).xs.render(obj_c),
        "shared_json_noclass": lambda c: shared_of(c).jp.from_string('{"z": "k"}'),
        # a JSON object for a field whose type has subclasses is TRIED against every candidate class under a stricter
        # configuration; the parser is shared, so nothing of that trial may be seen by a lenient decode next to it
        "shared_json_poly": lambda c: shared_of(c).jp.from_string('{"z": "v", "Base": {"x": 2, "y": "d"}}', mod.Other),
        "shared_json_lenient": lambda c: shared_of(c).jp.from_string('{"x": "abc"}', mod.Base),
        # wildcard namespace matching: XmlVar.match_namespace memoises per field, and the field metadata is shared
        "parse_wild": lambda c: XmlParser(context=c).from_string(
            '<w:WildOther xmlns:w="urn:wild" xmlns:e="urn:ext"><w:head>h</w:head><e:ext>t</e:ext><e:ext>u</e:ext></w:WildOther>', WildOther),
    }


def explore_api(ctx, ms, scheduler, n_threads, combos, max_pre, limit, traces, warms=(False, True)):
    mod = cb.package()
    ops = api_ops(mod)
    alone = {}
    for name, fn in ops.items():
        try:
            alone[name] = ("ok", fn(cb.fresh_context(False, rec=False)))
        except Exception as ex:  # noqa: BLE001
            alone[name] = ("exc", ex)
    total = 0
    for warm in warms:
        for combo in combos:
            def run_once(prefix, combo=combo, warm=warm):
                xctx = cb.fresh_context(warm, rec=True)
                shared_of(xctx)

                def mk(t, name):
                    def body():
                        xctx.xv_tid.v = t
                        return ops[name](xctx)
                    return body

                r = scheduler.run([mk(t, name) for t, name in enumerate(combo)], sched.choices(prefix))
                r.xctx = xctx
                return r

            for r in sched.explore(run_once, max_pre, limit):
                total += 1
                key = ("api", warm, combo, tuple(d.chosen for d in r.decisions))
                ctx.case(json.dumps(key, default=str))
                if r.diverged:
                    ctx.violation(f"concurrent run did not finish: {r.diverged}",
                                  {"combo": combo, "warm": warm, "choices": [d.chosen for d in r.decisions]})
                    continue
                for t, name in enumerate(combo):
                    got = r.results.get(t)
                    if got is None or not _res_eq(got, alone[name]):
                        ctx.violation(
                            f"{name} on a shared context returned {_show(got) if got else None}, alone it returns {_show(alone[name])}",
                            {"combo": combo, "warm": warm, "choices": [d.chosen for d in r.decisions], "trace": r.trace},
                        )
                # record for trace validation (the wildcard class lives outside the universe of Trace_ContextT)
                if "parse_wild" in combo or "shared_json_poly" in combo or "shared_json_lenient" in combo:
                    continue
                r.trace = [(t, lab) for t, lab in r.trace if not lab.startswith(("p_", "m_"))]
                log = r.xctx.xv_log
                traces.append({
                    "id": f"api-{int(warm)}-{'+'.join(combo)}-{total}",
                    "warm": warm,
                    "progs": [[op for op, _res in log.get(t, [])] for t in range(len(combo))],
                    "steps": [{"t": t + 1, "label": lab} for t, lab in r.trace],
                    "results": [[res for _op, res in log.get(t, [])] for t in range(len(combo))],
                })
                if len(ctx.samples) < 4 and any(d.chosen != d.current and d.current is not None for d in r.decisions):
                    ctx.sample({"kind": "forced-interleaving", "ops": combo, "warm": warm,
                                "yield_points": [f"T{t}:{lab}" for t, lab in r.trace][:40]})
    return total


def _local_models():
    """Classes defined in a LOCAL scope whose annotations name each other as strings: binding them needs the
    globalns option of the serializer / parser configuration."""
    import dataclasses
    from typing import Optional

    @dataclasses.dataclass
    class Later:
        x: Optional[int] = dataclasses.field(default=None, metadata={"type": "Element"})

    @dataclasses.dataclass
    class LocalHolder:
        later: Optional["Later"] = dataclasses.field(default=None, metadata={"type": "Element"})

    return LocalHolder, Later, {"Later": Later, "Optional": Optional}


LOCALS = _local_models()


def meta_ops(mod):
    """Operations whose result depends on XmlMeta / XmlVar state computed lazily or read in several steps."""
    from xsdata.formats.dataclass.parsers import DictDecoder
    from xsdata.formats.dataclass.serializers import DictEncoder, JsonSerializer

    ta = mod.TextAttr(value="t", a=1, b="x")
    sh = mod.Shuffled(e1="p", k=3, e2=4, extra={"m": "n"}, t=mod.TextAttr(value="u", a=2))
    cfg = SerializerConfig(xml_declaration=False)
    ta_json = '{"value": "t", "a": 1, "b": "x"}'
    sh_json = '{"e1": "p", "k": 3, "rest": [], "e2": 4, "extra": {"m": "n"}, "t": {"value": "u", "a": 2, "b": null}}'
    return {
        "enc_text": lambda c: list(DictEncoder(context=c).encode(ta).items()),
        "enc_shuffled": lambda c: JsonSerializer(context=c).render(sh),
        "dec_text_noclass": lambda c: JsonParser(context=c).from_string(ta_json),
        "dec_shuffled_noclass": lambda c: JsonParser(context=c).from_string(sh_json),
        "dec_text": lambda c: DictDecoder(context=c).decode({"value": "t", "b": "x"}, mod.TextAttr),
        "dec_subset_noclass": lambda c: JsonParser(context=c).from_string('{"value": "t", "a": 1}'),
        "by_fields": lambda c: getattr(c.find_type_by_fields({"value", "a"}), "__name__", None),
        "by_fields_all": lambda c: getattr(c.find_type_by_fields({"value", "a", "b"}), "__name__", None),
        "all_vars": lambda c: [[v.name for v in c.build(k).get_all_vars()] for k in (mod.TextAttr, mod.Shuffled)],
        "xml_text": lambda c: XmlSerializer(context=c, config=cfg).render(ta),
        # a per-call argument (the namespace for resolving annotations) must reach the build it was given for
        "ser_globalns": lambda c: XmlSerializer(context=c, config=SerializerConfig(xml_declaration=False, globalns=LOCALS[2])).render(LOCALS[0](later=LOCALS[1](x=7))),
        # xsi:type resolution walks what the context knows while other threads make it know more
        "xml_xsi": lambda c: XmlParser(context=c).from_string(
            f'<TextAttr xmlns="urn:m" xmlns:xsi="{XSI}" xsi:type="TextMore" a="1" c="z">t</TextAttr>', mod.TextAttr),
        # a child the class has no element field for (it goes to the wildcard): looking it up must stay a READ of the
        # shared metadata, while another thread walks the element types of the same class for a JSON object
        "xml_shuffled_wild": lambda c: XmlParser(context=c).from_string(
            '<Shuffled xmlns="urn:m" k="3"><e1>p</e1><o:x xmlns:o="urn:o">w</o:x><o:y xmlns:o="urn:o"/><e2>4</e2></Shuffled>', mod.Shuffled),
        "dec_shuffled_wildobj": lambda c: JsonParser(context=c).from_string('{"e1": "p", "k": 3, "rest": [{"value": "u", "a": 2}], "e2": 4}', mod.Shuffled),
        "xml_shuffled": lambda c: XmlParser(context=c).from_string(
            '<Shuffled xmlns="urn:m" k="3" m="n"><e1>p</e1><e2>4</e2><t a="2">u</t></Shuffled>', mod.Shuffled),
    }


def explore_meta(ctx, max_pre, limit):
    """Two threads on one COLD context: every access to the shared XmlMeta / XmlVar objects is a yield point."""
    mod = cb.meta_package()
    ms = cb.meta_markers()
    ctx.extra["meta_yield_lines"] = sum(len(t) for t in ms.by_code.values())
    scheduler = sched.Scheduler(ms, timeout=20.0)
    ops = meta_ops(mod)

    def fresh():
        from xsdata.formats.dataclass.context import XmlContext

        return XmlContext(models_package=mod.__name__)

    alone = {name: ("ok", fn(fresh())) for name, fn in ops.items()}
    names = list(ops)
    total = 0
    # operations that meet in the same lazily computed / scratch state are explored EXHAUSTIVELY for one preemption
    # (every yield point of the one, then the other to its end); the other pairs up to a limit
    families = [{"dec_text_noclass", "dec_subset_noclass", "by_fields", "by_fields_all"},
                {"enc_text", "enc_shuffled", "all_vars", "dec_text", "xml_text"},
                {"xml_xsi", "all_vars", "enc_shuffled"},
                {"ser_globalns", "all_vars", "enc_shuffled"},
                {"xml_shuffled_wild", "dec_shuffled_wildobj"}]
    for i, a in enumerate(names):
        for b in names[i:]:
            related = any(a in f and b in f for f in families)
            limit_ab = 600 if related else limit

            def run_once(prefix, a=a, b=b):
                xctx = fresh()
                return scheduler.run([lambda: ops[a](xctx), lambda: ops[b](xctx)], sched.choices(prefix))

            for r in sched.explore(run_once, max_pre, limit_ab):
                total += 1
                ctx.case(json.dumps(("meta", a, b, [d.chosen for d in r.decisions])))
                if r.diverged:
                    ctx.violation(f"concurrent run did not finish: {r.diverged}", {"meta": [a, b], "choices": [d.chosen for d in r.decisions]})
                    continue
                for t, name in enumerate((a, b)):
                    got = r.results.get(t)
                    if got is None or not _res_eq(got, alone[name]):
                        ctx.violation(
                            f"{name} on a shared cold context (next to {(a, b)[1 - t]}) returned {_show(got) if got else None}, alone it returns {_show(alone[name])}",
                            {"meta": [a, b], "choices": [d.chosen for d in r.decisions], "trace": r.trace[:60]})
    # check-then-read readers of the metadata cache against operations that BUILD metadata on the cold context, with
    # TWO preemptions at the grain of XmlContext's own methods (a stale publication of the cache needs the builder to be
    # interrupted, the reader to be interrupted, and the builder to publish in between)
    sched2 = sched.Scheduler(cb.meta_markers(context_only=True), timeout=20.0)
    for a in ("by_fields", "dec_subset_noclass"):
        for b in ("all_vars", "enc_shuffled"):
            def run_twice(prefix, a=a, b=b):
                xctx = fresh()
                return sched2.run([lambda: ops[b](xctx), lambda: ops[a](xctx)], sched.choices(prefix))

            for r in sched.explore(run_twice, 2, ctx.pick(220, 5000)):
                total += 1
                ctx.case(json.dumps(("meta2", a, b, [d.chosen for d in r.decisions])))
                if r.diverged:
                    ctx.violation(f"concurrent run did not finish: {r.diverged}", {"meta2": [b, a], "choices": [d.chosen for d in r.decisions]})
                    continue
                for t, name in enumerate((b, a)):
                    got = r.results.get(t)
                    if got is None or not _res_eq(got, alone[name]):
                        ctx.violation(
                            f"{name} on a shared cold context (next to {(b, a)[1 - t]}, two preemptions) returned {_show(got) if got else None}, alone it returns {_show(alone[name])}",
                            {"meta2": [b, a], "choices": [d.chosen for d in r.decisions], "trace": r.trace[:60]})
    return total


def validate_traces(ctx, traces, label):
    traces = [t for t in traces if all(p for p in t["progs"])]
    if not traces:
        return
    nd = "\n".join(json.dumps(t, separators=(",", ":")) for t in traces) + "\n"
    res = ctx.tlc("Trace_ContextT", "run.cfg", workers=1,
                  extra_files={"traces.ndjson": nd, "run.cfg": context_cfg("trace")},
                  env={"TRACE_FILE": "traces.ndjson"}, label=label, tags=("BAD", "REJECT", "RESDIFF"), timeout=1500)
    by_id = {t["id"]: t for t in traces}
    rejected = set()
    for tag, p in res.printed:
        t = by_id[p["id"]]
        if tag == "REJECT":
            rejected.add(p["id"])
            ctx.divergences.append({"kind": "trace-rejected", "id": p["id"], "matched": p["matched"], "of": p["of"],
                                    "next": t["steps"][p["matched"]] if p["matched"] < len(t["steps"]) else None,
                                    "progs": t["progs"]})
        elif tag == "RESDIFF":
            rejected.add(p["id"])
            ctx.divergences.append({"kind": "trace-results", "id": p["id"], "spec": p["spec"], "real": t["results"]})
        elif tag == "BAD":
            ctx.violation(f"recorded interleaving of the real XmlContext violates {p['bad']} at step {p['step']}",
                          {"trace": t})
    ctx.traces_validated += len(traces) - len(rejected)


def run(ctx):
    ctx.rule = (
        "TLC: all interleavings of the micro-steps (one per access to XmlContext.cache / xsi_cache / sys_modules) of "
        "2 and 3 threads x 4 programs x cold/warm context, invariant SameAsAlone. Real code: TLC schedules forced with a "
        "sys.settrace scheduler; bounded-preemption exploration of API-level operations; each recorded interleaving "
        "validated by TLC. A case is non-trivial when it is a distinct (operations, warmth, schedule)."
    )
    ctx.assumptions += [
        "CPython switches threads only between bytecodes; a source line that performs one access to the shared dict/attribute is atomic with respect to the other marked lines",
        "only the marked lines of XmlContext.build / build_xsi_cache / find_types touch shared context state (XmlVar.namespace_matches memo values are pure functions of their key)",
    ]
    ms = cb.markers()
    missing = [m for m in ms.missing if m[1] not in cb.OPTIONAL_LABELS]
    if missing:
        ctx.divergences.append({"kind": "markers-missing", "missing": missing})
    ctx.extra["markers_missing"] = ms.missing
    scheduler = sched.Scheduler(ms, timeout=20.0)
    cb.package()
    # warm up imports so len(sys.modules) is stable during the runs
    for fn in api_ops(cb.package()).values():
        try:
            fn(cb.fresh_context(False, rec=False))
        except Exception:  # noqa: BLE001
            pass

    # 1. exhaustive model checking
    ctx.tlc("MC_ContextT", "run.cfg", extra_files={"run.cfg": context_cfg("mc", threads=2)}, label="MC_ContextT 2 threads", timeout=1500)
    ctx.tlc("MC_ContextT", "run.cfg", extra_files={"run.cfg": context_cfg("mc", threads=3, progs="{1, 2, 4}" if ctx.quick else "{1, 2, 3, 4}")},
            label="MC_ContextT 3 threads", timeout=3000)
    ctx.exhaustive = True

    # 2. schedules -> real threads
    res = ctx.tlc("MC_ContextT", "run.cfg", workers=1,
                  extra_files={"run.cfg": context_cfg("gen", threads=2, view="View" if ctx.quick else "ViewAll")},
                  label="Gen_ContextT schedules", tags=("SCHED",), timeout=3000)
    cases = [p for _t, p in res.printed]
    rnd = random.Random(ctx.seed)
    if ctx.quick and len(cases) > 400:
        cases = rnd.sample(cases, 400)
    elif len(cases) > 12000:
        cases = rnd.sample(cases, 12000)
    sim = ctx.tlc("MC_ContextT", "run.cfg", workers=1, simulate=f"num={ctx.pick(300, 3000)}", depth=40,
                  extra_files={"run.cfg": context_cfg("gen", threads=3, view="ViewAll")},
                  label="Gen_ContextT simulate 3 threads", tags=("SCHED",), timeout=3000)
    seen = set()
    for _t, p in sim.printed:
        k = json.dumps(p["sched"]) + json.dumps(p["progs"]) + p["warm"]
        if k not in seen:
            seen.add(k)
            cases.append(p)
    for case in cases:
        ctx.case(("sched", json.dumps(case["progs"]), case["warm"], json.dumps(case["sched"])))
        replay_schedule(ctx, ms, scheduler, case)
    ctx.extra["tlc_schedules_forced"] = len(cases)
    if cases:
        c = cases[len(cases) // 2]
        ctx.sample({"kind": "tlc-schedule", "warm": c["warm"], "progs": c["progs"], "sched": c["sched"]})

    # 3. systematic exploration of API-level operations + 4. trace validation
    traces: list = []
    names = ["parse_xsi", "parse_noclass", "serialize", "json_noclass", "find_derived", "find_unknown", "parse_wild"]
    shared = ["shared_parse_noclass", "shared_parse_noclass_a", "shared_serialize", "shared_json_noclass"]
    pairs = [(a, b) for i, a in enumerate(names) for b in names[i:]]
    # calls through SHARED parser / serializer instances: among themselves and against the cold-index operations
    pairs += [(a, b) for i, a in enumerate(shared) for b in shared[i:]] + [(a, b) for a in shared[:2] for b in ("parse_xsi", "find_derived")]
    pairs += [("shared_json_poly", "shared_json_lenient"), ("shared_json_lenient", "shared_json_poly"), ("shared_json_poly", "shared_json_poly")]
    # (the API-level exploration may also preempt a thread in the middle of the class-tree walk of the index build)
    ms_api = cb.markers(walk=True)
    ctx.extra["markers_missing_api"] = ms_api.missing
    if any(m[1] == "p_walk" for m in ms_api.missing):
        ctx.divergences.append({"kind": "markers-missing", "missing": ms_api.missing})
    scheduler_api = sched.Scheduler(ms_api, timeout=20.0)
    n = explore_api(ctx, ms_api, scheduler_api, 2, pairs, ctx.pick(2, 3), ctx.pick(40, 600), traces)
    # a DEEPER pass over the same operation twice on a cold context (check-then-act races between two first uses need
    # two well-placed switches): every schedule with up to two preemptions within the limit
    deep = [("parse_noclass", "parse_noclass"), ("parse_noclass", "json_noclass"), ("parse_xsi", "parse_xsi")]
    n += explore_api(ctx, ms_api, scheduler_api, 2, deep, 2, ctx.pick(450, 4000), traces, warms=(False,))
    triples = [("parse_xsi", "parse_noclass", "serialize"), ("parse_xsi", "find_derived", "json_noclass"),
               ("parse_noclass", "parse_noclass", "find_derived"), ("json_noclass", "find_unknown", "find_unknown")]
    n += explore_api(ctx, ms_api, scheduler_api, 3, triples, 2, ctx.pick(60, 1500), traces)
    # seeded random schedules with more threads
    n += explore_random(ctx, ms, scheduler, ctx.pick(30, 400), traces)
    ctx.extra["api_interleavings_explored"] = n
    # 3b. the shared binding metadata itself
    ctx.extra["meta_interleavings_explored"] = explore_meta(ctx, 1, ctx.pick(6, 400))
    for i in range(0, len(traces), 2000):
        validate_traces(ctx, traces[i:i + 2000], f"Trace_ContextT batch {i // 2000}")


def explore_random(ctx, ms, scheduler, runs, traces):
    mod = cb.package()
    ops = api_ops(mod)
    alone = {}
    for name, fn in ops.items():
        alone[name] = ("ok", fn(cb.fresh_context(False, rec=False)))
    rnd = random.Random(ctx.seed + 19)
    names = list(ops)
    for k in range(runs):
        nthreads = rnd.choice([4, 6, 8, 16])
        combo = tuple(rnd.choice(names) for _ in range(nthreads))
        xctx = cb.fresh_context(rnd.random() < 0.3, rec=True)
        shared_of(xctx)

        def mk(t, name):
            def body():
                xctx.xv_tid.v = t
                return ops[name](xctx)
            return body

        def policy(enabled, current, res, rnd=rnd):
            return rnd.choice(enabled)[0]

        r = scheduler.run([mk(t, nm) for t, nm in enumerate(combo)], policy)
        ctx.case(("rand", combo, tuple(d.chosen for d in r.decisions)))
        if r.diverged:
            ctx.violation(f"concurrent run did not finish: {r.diverged}", {"combo": combo})
            continue
        for t, name in enumerate(combo):
            got = r.results.get(t)
            if got is None or not _res_eq(got, alone[name]):
                ctx.violation(f"{name} on a shared context ({nthreads} threads) returned {_show(got) if got else None}, alone {_show(alone[name])}",
                              {"combo": combo, "choices": [d.chosen for d in r.decisions]})
    return runs


def replay(ctx, doc):
    case = doc["case"]
    ms = cb.markers()
    scheduler = sched.Scheduler(ms)
    if "case" in case:
        replay_schedule(ctx, ms, scheduler, case["case"])
    elif "meta2" in case:
        from xsdata.formats.dataclass.context import XmlContext

        mod = cb.meta_package()
        ops = meta_ops(mod)
        b, a = case["meta2"]
        xctx = XmlContext(models_package=mod.__name__)
        r = sched.Scheduler(cb.meta_markers(context_only=True)).run([lambda: ops[b](xctx), lambda: ops[a](xctx)], sched.choices(case.get("choices", [])))
        for t, name in enumerate((b, a)):
            alone = ("ok", ops[name](XmlContext(models_package=mod.__name__)))
            if not _res_eq(r.results.get(t), alone):
                ctx.violation(f"{name}: {_show(r.results.get(t))} vs alone {_show(alone)}", case)
    elif "meta" in case:
        from xsdata.formats.dataclass.context import XmlContext

        mod = cb.meta_package()
        ops = meta_ops(mod)
        a, b = case["meta"]
        xctx = XmlContext(models_package=mod.__name__)
        r = sched.Scheduler(cb.meta_markers()).run([lambda: ops[a](xctx), lambda: ops[b](xctx)], sched.choices(case.get("choices", [])))
        for t, name in enumerate((a, b)):
            alone = ("ok", ops[name](XmlContext(models_package=mod.__name__)))
            if not _res_eq(r.results.get(t), alone):
                ctx.violation(f"{name}: {_show(r.results.get(t))} vs alone {_show(alone)}", case)
    else:
        mod = cb.package()
        ops = api_ops(mod)
        combo = case["combo"]
        xctx = cb.fresh_context(case.get("warm", False), rec=True)
        r = scheduler.run([(lambda n=n: ops[n](xctx)) for n in combo], sched.choices(case.get("choices", [])))
        for t, name in enumerate(combo):
            alone = ("ok", ops[name](cb.fresh_context(False, rec=False)))
            if not _res_eq(r.results.get(t), alone):
                ctx.violation(f"{name}: {_show(r.results.get(t))} vs alone {_show(alone)}", case)
