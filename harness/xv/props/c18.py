"""C18 - Python-code rendering evaluates back to the object.

spec/Pycode.tla: abstract rendering (names mentioned, imports bound, container kinds, default
elision) and an abstract evaluator with explicit name resolution; TLC checks EvaluatesBack on a
universe of holder models over every kind of leaf (primitives, non-finite floats, Decimal, QName,
xsdata date types, python dates, top-level and nested enums, inner-class models) x lists / tuples.
Binding: every abstract value is built from real classes of a scratch module, rendered by the real
PycodeSerializer and exec()ed in a fresh namespace (decisive: the bound variable equals the
original; NameError / SyntaxError are violations); the names the real text mentions and imports are
compared with the specification's (advisory).  The model zoo adds frozen/tuple/dict/bytes/date values.
"""
from __future__ import annotations

import ast
import atexit
import datetime
import importlib
import math
import os
import shutil
import sys
import tempfile
from decimal import Decimal
from xml.etree.ElementTree import QName

from xsdata.formats.dataclass.context import XmlContext
from xsdata.formats.dataclass.serializers import PycodeSerializer
from xsdata.models.datatype import XmlDate, XmlDuration

from .. import zoo
from ..policy import pycode_variant
from .c01 import _eq

M_SRC = '''
from dataclasses import dataclass, field
from enum import Enum, IntEnum
from typing import Optional, Any, ClassVar


class Color(Enum):
    RED = "red"


class Prio(IntEnum):
    HIGH = 2


class Tag(str, Enum):
    A = "a"


class Outer:
    class Shade(Enum):
        DARK = "dark"

    @dataclass
    class Inner:
        x: Optional[int] = None

    class Mid:
        class Tint(Enum):
            PALE = "pale"

        @dataclass
        class Deep:
            x: Optional[int] = None


@dataclass
class Holder:
    a: Any
    b: Any = None
    c: Any = field(default_factory=lambda: [5, 6])


@dataclass
class Holder2:
    """a field NAMED like one of Holder's, with another default"""
    b: Any = 5


@dataclass
class WithClassVar:
    """class-level attributes are no fields: they are not constructor arguments, whatever their current value"""
    version: ClassVar[str] = "1.0"
    count: ClassVar[int]
    a: Any = None
    b: Optional[int] = 3


@dataclass
class Computed:
    """fields that are NOT constructor arguments (init=False): one computed from the others, one fixed"""
    a: int = 1
    total: int = field(init=False)
    fixed: str = field(init=False, default="x")
    items: list = field(default_factory=list)
    secret: Optional[str] = field(default=None, repr=False)      # left out of repr(), still a constructor argument

    def __post_init__(self):
        self.total = self.a * 2 + len(self.items)


@dataclass(frozen=True)
class Frozen:
    items: tuple = ()
    name: str = "n"
    opts: Optional[dict] = None
'''

_S: dict = {}


def module():
    if "m" in _S:
        return _S["m"]
    d = tempfile.mkdtemp(prefix="xv-c18-")
    atexit.register(shutil.rmtree, d, ignore_errors=True)
    name = f"xvc18_{os.getpid()}"
    with open(os.path.join(d, name + ".py"), "w") as f:
        f.write(M_SRC)
    sys.path.insert(0, d)
    _S["m"] = importlib.import_module(name)
    return _S["m"]


PRIMS = {"int:5": 5, "int:6": 6, "str:quote'\"\\n": "quote'\"\n", "bool:True": True, "none": None, "bytes:ab": b"ab", "float:1.5": 1.5}


def to_real(v):
    m = module()
    t = v["t"]
    if t == "prim":
        return PRIMS[v["v"]]
    if t == "obj":
        return {"float-inf": math.inf, "decimal": Decimal("1.50"), "qname": QName("urn:x-y", "q"), "xmldate": XmlDate(2020, 2, 29),
                "xmlduration": XmlDuration("P1D"), "pydate": datetime.date(2020, 1, 2)}[v["tag"]]
    if t == "enum":
        return {"Color": m.Color.RED, "Shade": m.Outer.Shade.DARK, "Tint": m.Outer.Mid.Tint.PALE, "Prio": m.Prio.HIGH, "Tag": m.Tag.A}[v["home"]["path"][-1]]
    if t == "map":
        return {to_real(k): to_real(x) for k, x in v["items"]}
    if t == "seq":
        items = [to_real(x) for x in v["items"]]
        return {"tuple": tuple, "set": set, "frozenset": frozenset, "list": list}[v["kind"]](items)
    if t == "model":
        if v["home"]["path"] == ["Outer", "Inner"]:
            return m.Outer.Inner(**{f["name"]: to_real(f["v"]) for f in v["fields"]})
        if v["home"]["path"] == ["Outer", "Mid", "Deep"]:
            return m.Outer.Mid.Deep(**{f["name"]: to_real(f["v"]) for f in v["fields"]})
        if v["home"]["path"] == ["Holder2"]:
            return m.Holder2(**{f["name"]: to_real(f["v"]) for f in v["fields"]})
        return m.Holder(**{f["name"]: to_real(f["v"]) for f in v["fields"]})
    raise ValueError(t)


_SHARED_SER: list = []


def evaluate(ctx, obj, info, tags=(), shared=False):
    if shared and not _SHARED_SER:
        _SHARED_SER.append(PycodeSerializer(context=XmlContext()))
    ser = _SHARED_SER[0] if shared else PycodeSerializer(context=XmlContext())
    try:
        text = ser.render(obj, var_name="result")
    except Exception as ex:  # noqa: BLE001
        ctx.violation(f"PycodeSerializer.render raised {type(ex).__name__}: {ex}", {**info, "finding_tags": list(tags)})
        return None
    ns: dict = {}
    try:
        exec(compile(text, "<pycode>", "exec"), ns)  # noqa: S102 - that is the property
    except Exception as ex:  # noqa: BLE001
        ctx.violation(f"executing the rendered source raised {type(ex).__name__}: {ex}", {**info, "source": text, "finding_tags": list(tags)})
        return text
    if "result" not in ns or not _eq(ns["result"], obj) or type(ns["result"]) is not type(obj):
        ctx.violation(f"the rendered source evaluates to {ns.get('result')!r}, not to the original {obj!r}", {**info, "source": text, "finding_tags": list(tags)})
    return text


def run(ctx):
    ctx.rule = (
        "TLC: Holder(a, b) over 17 kinds of leaf (incl. classes and enums nested two and three levels deep) + lists/tuples of them (3658 values), invariant EvaluatesBack with the open "
        "findings excused by selectors. Real code: each value built from real classes, rendered by PycodeSerializer, exec()ed "
        "in a fresh namespace and compared with the original; model zoo + frozen/tuple/dict models. A case is a distinct value."
    )
    known = sorted(f["id"] for f in ctx.findings if f["status"] == "open")
    pol = pycode_variant()
    cfg = (f'SPECIFICATION Spec\nCONSTANTS\n  EnumNamePolicy = "{pol["EnumNamePolicy"]}"\n  SeqPolicy = "{pol["SeqPolicy"]}"\n'
           "  Known = {" + ", ".join(f'"{k}"' for k in known) + "}\n")
    ctx.tlc("MC_Pycode", "run.cfg", extra_files={"run.cfg": cfg + "INVARIANT InvEvaluatesBack\nCHECK_DEADLOCK FALSE\n"}, label="MC_Pycode", timeout=1500)
    ctx.exhaustive = True
    res = ctx.tlc("MC_Pycode", "run.cfg", workers=1, extra_files={"run.cfg": cfg + "CONSTRAINT Emit\nCHECK_DEADLOCK FALSE\n"},
                  label="Gen_Pycode values", tags=("PY",), timeout=1500)
    seen = set()
    for _t, c in res.printed:
        k = str(c["v"])
        if k in seen:
            continue
        seen.add(k)
        ctx.case(("py", k))
        obj = to_real(c["v"])
        tags = [t for t, flag in (("F9a", c["tuple"]), ("F9b", c["nestedEnum"]), ("F22", c["pydate"])) if flag]
        text = evaluate(ctx, obj, {"value": repr(obj)[:600]}, tags)
        if text is not None and len(ctx.samples) < 3 and len(seen) % 701 == 0:
            ctx.sample({"value": repr(obj), "rendered": text})
    ctx.extra["values_replayed"] = len(seen)
    m = module()
    extra = [m.Frozen(items=(1, 2), name="x"), m.Frozen(items=(), opts={"k": [1, 2], "q": QName("a")}), m.Frozen(items=((1,), [2])),
             m.Holder(a={"k": m.Color.RED}, b=[m.Outer.Inner(x=None), m.Outer.Inner(x=3)]), m.Holder(a=-0.0, b=float("nan")),
             m.Holder(a=Decimal("NaN").copy_abs() if False else Decimal("1E+2"), b=b"\x00\xff"), m.Holder(a="", b=[]),
             m.Computed(a=3), m.Computed(a=2, secret="s"), m.Computed(a=1, items=[m.Computed(a=7)]), m.Holder(a=m.Computed(), b=[m.Computed(a=0, items=[1, 2])]),
             m.WithClassVar(a=5), m.Holder(a=[m.WithClassVar(a="x", b=None)], b=m.WithClassVar())]
    m.WithClassVar.version = "2.0"      # (changed after the class was made: still no field)
    for k, obj in enumerate(extra):
        ctx.case(("py-extra", k))
        has_tuple = "(" in repr(getattr(obj, "items", "")) and isinstance(getattr(obj, "items", None), tuple) and bool(obj.items)
        evaluate(ctx, obj, {"value": repr(obj)[:600]}, ["F9a"] if has_tuple else [])
    # ONE serializer instance for a series of objects of the same classes whose values need different imports: what one
    # rendering needed says nothing about the next
    series = [m.Holder(a=None), m.Holder(a=Decimal("1.5")), m.Holder(a=[QName("urn:x-y", "q")]), m.Holder(a=XmlDate(2020, 2, 29), b=m.Color.RED),
              m.Holder(a=m.Outer.Inner(x=1)), m.Holder(a=5), m.Frozen(items=()), m.Frozen(items=(Decimal("2"),), opts={"k": XmlDuration("P1D")})]
    for k, obj in enumerate(series + series[::-1]):
        ctx.case(("py-shared-serializer", k))
        has_tuple = isinstance(getattr(obj, "items", None), tuple) and bool(obj.items)
        evaluate(ctx, obj, {"value": repr(obj)[:600], "shared_serializer": True}, ["F9a"] if has_tuple else [], shared=True)
    for k, obj in enumerate(zoo.instances(ctx.seed + 18, ctx.pick(200, 10**7))):
        ctx.case(("py-zoo", k))
        evaluate(ctx, obj, {"model": type(obj).__name__, "value": repr(obj)[:1200]})


def replay(ctx, doc):
    print(doc["what"])
    print(doc["case"].get("source"))
