"""Run the real code generator (ResourceTransformer) on sources written to a scratch
directory, with the stand-ins of /verif/shims for the third-party packages that are not
installed here (click, jinja2, toposort, ruff, requests).  Every generation gets its own
working directory and a unique package name; everything is removed by cleanup()."""
from __future__ import annotations

import importlib
import logging
import os
import shutil
import sys
import tempfile
import warnings
from pathlib import Path

_N = [0]
_LIVE: list = []


def _quiet():
    logging.getLogger("xsdata").setLevel(logging.CRITICAL)
    logging.disable(logging.CRITICAL)


class Generated:
    def __init__(self, work, pkg, files, error=None):
        self.work, self.pkg, self.files, self.error = work, pkg, files, error
        self._mods = []

    def module(self, sub: str | None = None):
        name = self.pkg if not sub else f"{self.pkg}.{sub}"
        importlib.invalidate_caches()
        m = importlib.import_module(name)
        return m

    def all_modules(self):
        out = []
        for rel in sorted(self.files):
            if rel.endswith(".py"):
                name = rel[:-3].replace(os.sep, ".")
                if name.endswith(".__init__"):
                    name = name[: -len(".__init__")]
                if name == "__init__":
                    continue  # the generator also drops an __init__.py into the working directory itself
                out.append(name)
        return out

    def cleanup(self):
        for k in [k for k in sys.modules if k == self.pkg or k.startswith(self.pkg + ".") or k == "__init__"]:
            sys.modules.pop(k, None)
        if self.work in sys.path:
            sys.path.remove(self.work)
        shutil.rmtree(self.work, ignore_errors=True)


def generate(files: dict, main: list, *, options: dict | None = None, config_mutator=None, pkg: str | None = None) -> Generated:
    """files: name -> text (or bytes); main: the source files handed to the transformer.
    options: dotted GeneratorConfig.output attributes, e.g. {"structure_style": ..., "compound_fields.enabled": True}."""
    from xsdata.codegen.transformer import ResourceTransformer
    from xsdata.models.config import GeneratorConfig, StructureStyle

    _quiet()
    # xsdata memoises package_path()/module_path() although they depend on the current working directory; every
    # generation here runs in a directory of its own, so the memo of an earlier generation must not leak into this one
    from xsdata.utils import package as _package

    _package.package_path.cache_clear()
    _package.module_path.cache_clear()
    _N[0] += 1
    pkg = pkg or f"xvg{os.getpid()}_{_N[0]}"
    work = tempfile.mkdtemp(prefix="xv-gen-")
    cwd = os.getcwd()
    os.chdir(work)
    sys.path.insert(0, work)
    error = None
    try:
        for name, text in files.items():
            p = Path(work, name)
            p.parent.mkdir(parents=True, exist_ok=True)
            if isinstance(text, bytes):
                p.write_bytes(text)
            else:
                p.write_text(text, encoding="utf-8")
        cfg = GeneratorConfig()
        cfg.output.package = pkg
        cfg.output.structure_style = StructureStyle.SINGLE_PACKAGE
        # the library's own way of applying dotted options programmatically (it resolves configuration conflicts,
        # e.g. order=True needs eq=True, exactly like the command line does)
        cfg.output.update(**(options or {}))
        if config_mutator:
            config_mutator(cfg)
        with warnings.catch_warnings():
            warnings.simplefilter("ignore")
            try:
                ResourceTransformer(config=cfg).process([Path(work, m).as_uri() for m in main])
            except BaseException as ex:  # noqa: BLE001
                error = ex
        out = {}
        for p in Path(work).rglob("*.py"):
            out[str(p.relative_to(work))] = p.read_text(encoding="utf-8")
        g = Generated(work, pkg, out, error)
        _LIVE.append(g)
        return g
    finally:
        os.chdir(cwd)


def cleanup_all():
    while _LIVE:
        _LIVE.pop().cleanup()
