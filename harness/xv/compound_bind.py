"""Binding for spec/Compound.tla: abstract model with one compound ("Elements") field -> real dataclasses,
abstract value list -> real values, the prescribed document -> XML text written by the harness, and the
decisive comparisons (serialised document = Prescribed; parse(Prescribed) = value list; round trip)."""
from __future__ import annotations

import importlib
import os
import sys
from decimal import Decimal

from xsdata.formats.dataclass.context import XmlContext
from xsdata.formats.dataclass.models.generics import DerivedElement
from xsdata.formats.dataclass.parsers import XmlParser
from xsdata.formats.dataclass.parsers.config import ParserConfig
from xsdata.formats.dataclass.serializers import XmlSerializer
from xsdata.formats.dataclass.serializers.config import SerializerConfig

from . import handler_bind as hb
from . import infoset
from . import roundtrip_bind as rb

NONE = "__none__"
XSI = "http://www.w3.org/2001/XMLSchema-instance"
STRICT = ParserConfig(fail_on_unknown_properties=True, fail_on_unknown_attributes=True, fail_on_converter_warnings=True)

PY_TYPE = {"int": "int", "str": "str", "bool": "bool", "float": "float", "decimal": "Decimal", "Color": "Color", "ints": "List[int]", "Leaf": "Leaf", "Sub": "Sub"}
_N = [0]
_CACHE: dict = {}


def model_source(m) -> str:
    choices = []
    for ch in m["choices"]:
        parts = [f'"name": "{ch["name"]}"', f'"type": {PY_TYPE[ch["tp"]]}']
        if ch["ns"] != NONE:
            parts.append(f'"namespace": "{ch["ns"]}"')
        if ch["nillable"]:
            parts.append('"nillable": True')
        if ch["tp"] == "ints":
            parts.append('"tokens": True')
        choices.append("{" + ", ".join(parts) + "}")
    union = ", ".join(dict.fromkeys(PY_TYPE[ch["tp"]] for ch in m["choices"]))
    nillable = any(ch["nillable"] for ch in m["choices"])
    if m["list"]:
        hint = f"List[Union[{union}{', None' if nillable else ''}]]" if (len(m["choices"]) > 1 or nillable) else f"List[{union}]"
        dflt = "default_factory=list"
    else:
        hint = f"Optional[Union[{union}]]" if len(m["choices"]) > 1 else f"Optional[{union}]"
        dflt = "default=None"
    meta_ns = f'        namespace = "{m["ns"]}"\n' if m["ns"] != NONE else ""
    return f'''
from dataclasses import dataclass, field
from decimal import Decimal
from enum import Enum
from typing import List, Optional, Union


class Color(Enum):
    RED = "red"
    ONE = "1"


@dataclass
class Leaf:
    x: Optional[int] = field(default=None, metadata={{"type": "Attribute"}})


@dataclass
class Sub(Leaf):
    pass


@dataclass
class M:
    class Meta:
        name = "M"
{meta_ns}
    v: {hint} = field({dflt}, metadata={{"type": "Elements", "choices": ({", ".join(choices)},)}})
'''


def materialise(m):
    src = model_source(m)
    if src in _CACHE:
        return _CACHE[src]
    _N[0] += 1
    name = f"xvcmpd_{os.getpid()}_{_N[0]}"
    d = rb._dir()
    with open(os.path.join(d, name + ".py"), "w") as f:
        f.write(src)
    importlib.invalidate_caches()
    mod = importlib.import_module(name)
    _CACHE[src] = mod
    return mod


def value(mod, tp, i):
    return {
        "int": (1, -7), "str": ("1", "true"), "bool": (True, False), "float": (1.0, 2.5), "decimal": (Decimal("1"), Decimal("2.50")),
        "Color": (mod.Color.RED, mod.Color.ONE), "ints": ([1, 2], [3]), "Leaf": (mod.Leaf(x=5), mod.Sub(x=6)), "Sub": (mod.Sub(x=6), mod.Sub(x=7)),
    }[tp][i - 1]


def qname(m, ch) -> str:
    ns = m["ns"] if ch["ns"] == NONE else ch["ns"]
    return f"{{{ns}}}{ch['name']}" if ns != NONE else ch["name"]


def instance(mod, m, inst, wrap=True):
    vals = []
    for it in inst:
        ch = m["choices"][it["c"] - 1]
        if it["nil"]:
            vals.append([] if ch["tp"] == "ints" else None)
            continue
        v = value(mod, ch["tp"], it["i"])
        vals.append(DerivedElement(qname=qname(m, ch), value=v) if (wrap and it["wrapped"]) else v)
    if m["list"]:
        return mod.M(v=vals)
    return mod.M(v=vals[0] if vals else None)


def prescribed_xml(m, doc) -> str:
    """The prescribed document as XML text, written by the harness (not by xsdata)."""
    decl = {}

    def pfx(ns):
        if ns == NONE:
            return ""
        if ns not in decl:
            decl[ns] = f"p{len(decl)}"
        return decl[ns] + ":"

    body = ""
    for e in doc:
        tag = pfx(e["ns"]) + e["name"]
        attrs = "".join(f' {a["name"]}="{a["v"]}"' for a in e["attrs"])
        if e["nil"]:
            attrs += ' xsi:nil="true"'
        if e["xsitype"] != NONE:
            attrs += f' xsi:type="{e["xsitype"]}"'
        body += f"<{tag}{attrs}>{e['text']}</{tag}>" if e["text"] else f"<{tag}{attrs}/>"
    root = pfx(m["ns"]) + "M"
    ds = "".join(f' xmlns:{p}="{ns}"' for ns, p in decl.items()) + f' xmlns:xsi="{XSI}"'
    return f"<{root}{ds}>{body}</{root}>"


def doc_canon(m, doc):
    """Prescribed(m, inst) in the comparison form of tree_canon."""
    out = []
    for e in doc:
        attrs = {("", a["name"]): a["v"] for a in e["attrs"]}
        if e["nil"]:
            attrs[(XSI, "nil")] = "true"
        if e["xsitype"] != NONE:
            attrs[(XSI, "type")] = ("", e["xsitype"])
        out.append((("" if e["ns"] == NONE else e["ns"], e["name"]), tuple(sorted(attrs.items(), key=repr)), e["text"]))
    return out


def tree_canon(tree):
    out = []
    for c in tree["content"]:
        if not isinstance(c, dict):
            continue
        attrs = {}
        for k, v in c["attrs"].items():
            if k == (XSI, "type"):
                v = infoset.resolve_qname(v.strip(), c["nsmap"])
            elif k == (XSI, "nil"):
                v = "true" if v.strip() in ("true", "1") else v
            attrs[k] = v
        out.append((tuple(c["name"]), tuple(sorted(attrs.items(), key=repr)), infoset.text_of(c)))
    return out


def unwrap(obj):
    def u(x):
        return x.value if isinstance(x, DerivedElement) else x

    v = obj.v
    return [u(x) for x in v] if isinstance(v, list) else u(v)


def same_values(a, b) -> bool:
    """Equality that keeps Python's bool/int/float/Decimal/str/enum apart and subclasses apart."""
    if a is None or b is None:
        return a is b
    if isinstance(a, list) and isinstance(b, list):
        return len(a) == len(b) and all(same_values(x, y) for x, y in zip(a, b))
    return type(a) is type(b) and a == b


def check_case(ctx, case, tags_of=None, documents_only=False):
    m, inst, doc = case["m"], case["inst"], case["doc"]
    mod = materialise(m)
    xctx = XmlContext()
    info = {"model": model_source(m)[model_source(m).index("@dataclass\nclass M"):], "instance": inst, "prescribed": prescribed_xml(m, doc)}
    try:
        obj = instance(mod, m, inst)
    except Exception as ex:  # noqa: BLE001
        raise RuntimeError(f"harness cannot build the instance: {ex}") from ex
    plain = unwrap(instance(mod, m, inst, wrap=False))
    want = doc_canon(m, doc)
    # F30 (open): a model without element content held by a NILLABLE choice is written with xsi:nil="true" next to
    # its attributes and read back as None.  Exactly that image of the value list is the known finding.
    f30_pos = [k for k, it in enumerate(inst) if not it["nil"] and m["choices"][it["c"] - 1]["tp"] in ("Leaf", "Sub") and m["choices"][it["c"] - 1]["nillable"]]
    if isinstance(plain, list):
        f30_image = [None if k in f30_pos else v for k, v in enumerate(plain)]
    else:
        f30_image = None if f30_pos else plain

    def tags(got):
        return ["F30"] if f30_pos and same_values(got, f30_image) else []

    for writer in ("native", "lxml"):
        ctx.case(("compound", info["model"], str(inst), writer))
        try:
            out = rb.render(obj, xctx, writer)
        except Exception as ex:  # noqa: BLE001
            ctx.violation(f"compound field: serialising ({writer}) raised {type(ex).__name__}: {ex}", info)
            continue
        try:
            tree = infoset.parse(out)
        except Exception as ex:  # noqa: BLE001
            ctx.violation(f"compound field: output ({writer}) is not well-formed: {ex}", {**info, "out": out})
            continue
        got = tree_canon(tree)
        root_ok = tuple(tree["name"]) == ("" if m["ns"] == NONE else m["ns"], "M")
        if got != want or not root_ok:
            ctx.violation(f"compound field ({writer}): the document says {got}, the documentation prescribes {want}", {**info, "out": out})
            continue
        for h in (() if documents_only else ("native", "lxml")):
            st, back, _w = hb.parse(out, h, xctx, mod.M, "str", STRICT)
            if st != "ok":
                ctx.violation(f"compound field: own output does not parse back ({writer}->{h}): {type(back).__name__}: {back}", {**info, "out": out})
            elif not same_values(unwrap(back), plain):
                ctx.violation(f"compound field: round trip ({writer}->{h}) gives {unwrap(back)!r}, the original is {plain!r}", {**info, "out": out, "finding_tags": tags(unwrap(back))})
    if documents_only:
        return
    # the prescribed document written by the harness parses into the value list
    text = info["prescribed"]
    for h in ("native", "lxml"):
        ctx.case(("compound-parse", info["model"], str(inst), h))
        st, back, _w = hb.parse(text, h, xctx, mod.M, "str", STRICT)
        if st != "ok":
            ctx.violation(f"compound field: the prescribed document does not parse ({h}): {type(back).__name__}: {back}", info)
        elif not same_values(unwrap(back), plain):
            ctx.violation(f"compound field: the prescribed document parses ({h}) to {unwrap(back)!r}, prescribed is {plain!r}", {**info, "finding_tags": tags(unwrap(back))})


def run_phase(ctx, documents_only=False):
    base = "SPECIFICATION Spec\nCONSTANTS\n  MaxLen = {ml}\n  MaxChoices = {mc}\n"
    ctx.tlc("MC_Compound", "run.cfg", extra_files={"run.cfg": base.format(ml=2, mc=2) + "CONSTRAINT MCOnly\nINVARIANT InvInjective\nINVARIANT InvDetermined\nCHECK_DEADLOCK FALSE\n"},
            label="MC_Compound contract: injective and determined, <= 2 choices", timeout=3000)
    res = ctx.tlc("MC_Compound", "run.cfg", workers=1, simulate=f"num={ctx.pick(100, 1500)}", depth=9,
                  extra_files={"run.cfg": base.format(ml=3, mc=3) + "CONSTRAINT Emit\nCHECK_DEADLOCK FALSE\n"},
                  label="Gen_Compound models and value lists", tags=("CMPD",), timeout=3000)
    seen = set()
    for _t, c in res.printed:
        k = str(c)
        if k in seen:
            continue
        seen.add(k)
        check_case(ctx, c, documents_only=documents_only)
    ctx.extra["compound_cases"] = len(seen)
