"""Sacrificial worker for byte-level fault injection (C15).  Prints one JSON line per
problem and a final {"done": n}; flushes and os._exit()s so that a crash of lxml at interpreter
finalisation cannot take results with it."""
from __future__ import annotations

from xsdata.formats.dataclass.models.generics import DerivedElement

import json
import os
import random
import signal
import sys
from xml.parsers import expat

from xsdata.exceptions import ConverterError, ParserError, XmlContextError, XmlHandlerError
from xsdata.formats.dataclass.context import XmlContext
from xsdata.formats.dataclass.parsers import JsonParser, XmlParser
from xsdata.formats.dataclass.parsers.handlers import LxmlEventHandler, XmlEventHandler
from xsdata.formats.dataclass.serializers import JsonSerializer, XmlSerializer
from xsdata.formats.dataclass.serializers.config import SerializerConfig

from . import zoo

DOCUMENTED = (ParserError, ConverterError, XmlContextError, XmlHandlerError)


class Hang(Exception):
    pass


def _alarm(signum, frame):
    raise Hang()


def well_formed(data: bytes) -> bool:
    p = expat.ParserCreate(namespace_separator="\x1f")
    try:
        p.Parse(data, True)
        return True
    except expat.ExpatError:
        return False
    except Exception:  # noqa: BLE001
        return False


def main():
    seed, tier = int(sys.argv[1]), sys.argv[2]
    rnd = random.Random(seed)
    ctx = XmlContext()
    ser = XmlSerializer(context=ctx, config=SerializerConfig(xml_declaration=True))
    n = 0
    signal.signal(signal.SIGALRM, _alarm)
    roots = [zoo.Item, zoo.Holder, zoo.Prims, zoo.Seq, zoo.Compound, zoo.Wild, zoo.Order, zoo.QNames]
    docs = []
    for obj in zoo.instances(seed, 12 if tier == "quick" else 60, roots=roots):
        try:
            docs.append((type(obj), ser.render(obj).encode("utf-8")))
        except Exception:  # noqa: BLE001
            pass

    def report(what, case):
        print(json.dumps({"what": what, "case": case}), flush=True)

    def attempt(clazz, data: bytes, handler, label):
        nonlocal n
        n += 1
        signal.alarm(20)
        try:
            obj = XmlParser(context=ctx, handler=handler).from_bytes(data, clazz)
            signal.alarm(0)
            # (a root element that carries xsi:type under another name than the class's own comes back wrapped as
            #  DerivedElement(qname, value, type): the documented way of keeping the element name - the value counts)
            if isinstance(obj, DerivedElement) and isinstance(obj.value, clazz):
                obj = obj.value
            if not isinstance(obj, clazz):
                report(f"{label}: returned {type(obj).__name__} instead of {clazz.__name__}", {"data": repr(data[:400]), "handler": handler.__name__})
            elif handler is XmlEventHandler and not well_formed(data):
                report(f"{label}: the native handler accepted a document that is not well-formed",
                       {"data": repr(data[:600]), "handler": handler.__name__, "finding_tags": []})
        except DOCUMENTED:
            signal.alarm(0)
        except Hang:
            report(f"{label}: no result within 20 s", {"data": repr(data[:400]), "handler": handler.__name__})
        except BaseException as ex:  # noqa: BLE001
            signal.alarm(0)
            report(f"{label}: raised {type(ex).__name__}: {str(ex)[:200]}", {"data": repr(data[:400]), "handler": handler.__name__})

    for clazz, data in docs:
        small = len(data) <= 700
        for handler in (XmlEventHandler, LxmlEventHandler):
            offs = range(0, len(data)) if small or tier != "quick" else rnd.sample(range(len(data)), 120)
            for off in offs:
                attempt(clazz, data[:off], handler, f"truncation at {off}")
            flips = range(len(data)) if (small and tier != "quick") else rnd.sample(range(len(data)), min(len(data), 150))
            for i in flips:
                b = bytearray(data)
                b[i] ^= 1 << rnd.randrange(8)
                attempt(clazz, bytes(b), handler, f"bit flip at {i}")
            for _ in range(20):
                attempt(clazz, bytes(rnd.randrange(256) for _ in range(rnd.randrange(0, 60))), handler, "random bytes")
            for junk in (b"", b"<", b"<a", b"<a>", b"<a></b>", b"<a/><b/>", b"\xff\xfe", b"<?xml version='1.0'?>", b"<a>&undefined;</a>",
                         b"<a xmlns:p='u' p:x='1' p:x='2'/>", b"<p:a/>", b"<a><![CDATA[x</a>", data + b"<junk/>", data + b"trailing text",
                         b"\x00" + data, data.replace(b"<", b"<<", 1)):
                attempt(clazz, junk, handler, "malformed document")
    # JSON byte-level
    jser = JsonSerializer(context=ctx)
    for obj in zoo.instances(seed + 5, 8 if tier == "quick" else 40, roots=[zoo.Item, zoo.Holder, zoo.Prims, zoo.Seq]):
        try:
            text = jser.render(obj)
        except Exception:  # noqa: BLE001
            continue
        for off in range(0, len(text), 1 if tier != "quick" else 3):
            n += 1
            try:
                JsonParser(context=ctx).from_string(text[:off], type(obj))
            except DOCUMENTED:
                pass
            except BaseException as ex:  # noqa: BLE001
                report(f"JsonParser on truncated JSON raised {type(ex).__name__}: {str(ex)[:200]}", {"json": text[:off][-300:]})
        data = text.encode("utf-8")
        variants = [b"\x80", b"\xff\xfe{", b"\xef\xbb\xbf" + data, data[: len(data) // 2] + b"\xc3", b"\x00" + data, data + b"\xff"]
        idx = range(len(data)) if tier != "quick" else rnd.sample(range(len(data)), min(len(data), 120))
        for i in idx:
            b = bytearray(data)
            b[i] ^= 1 << rnd.randrange(8)
            variants.append(bytes(b))
        for _ in range(30):
            variants.append(bytes(rnd.randrange(256) for _ in range(rnd.randrange(0, 40))))
        for v in variants:
            n += 1
            try:
                JsonParser(context=ctx).from_bytes(v, type(obj))
            except DOCUMENTED:
                pass
            except BaseException as ex:  # noqa: BLE001
                report(f"JsonParser.from_bytes on corrupted bytes raised {type(ex).__name__}: {str(ex)[:200]}", {"bytes": repr(v[:200])})
    print(json.dumps({"done": n}), flush=True)
    sys.stdout.flush()
    os._exit(0)


if __name__ == "__main__":
    main()
