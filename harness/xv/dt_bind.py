"""Binding between spec/DateTime.tla and xsdata.models.datatype / utils.dates.

* grids (Python lists) -> generated module DTGrid.tla
* replay of TLC cases (literals, values to format, pairs to order) on the real classes
"""
from __future__ import annotations

import calendar
import datetime
import itertools
import random

from xsdata.models.datatype import XmlDate, XmlDateTime, XmlDuration, XmlPeriod, XmlTime

NO_OFFSET = 100000
ABSENT = 100001


def chars(s: str) -> str:
    return "<<" + ", ".join('"' + ("\\\\" if c == "\\" else '\\"' if c == '"' else "\\t" if c == "\t" else "\\n" if c == "\n" else "\\r" if c == "\r" else c) + '"' for c in s) + ">>"


def tla_set(items) -> str:
    return "{" + ", ".join(items) + "}"


SIGNS = ["", "-"]
YEARS = ["2020", "2021", "0001", "0000", "1900", "2000", "2100", "12020", "02020", "202", "0400", "9999"]
MONTHS = ["00", "01", "02", "04", "09", "11", "12", "13", "1", "+1", "-1"]
DAYS = ["00", "01", "28", "29", "30", "31", "32", "1", "-1"]
ZONES = ["", "Z", "+00:00", "-00:00", "+14:00", "-14:00", "+14:01", "+05:30", "-00:30", "+13:59", "-12:00", "+5:30", "z", "+24:00", "+0530"]
HOURS = ["00", "12", "23", "24", "25", "1"]
MINS = ["00", "30", "59", "60"]
SECS = ["00", "59", "60"]
FRACS = ["", ".", ".0", ".5", ".123", ".123456", ".123456789", ".1234567891", ".000000001", ".999999999", ".1234567"]


def lex_slots(kind: str, tier: str, rnd: random.Random):
    q = tier == "quick"
    if kind == "date":
        return [SIGNS, YEARS if not q else YEARS[:9], ["-"], MONTHS, ["-"], DAYS, ZONES if not q else ZONES[:11]]
    if kind == "time":
        return [HOURS, [":"], MINS, [":"], SECS, FRACS, ZONES if not q else ZONES[:11]]
    if kind == "dateTime":
        if q:
            return [["", "-"], ["2020", "2021", "2000", "1900", "0000"], ["-"], ["01", "02", "12", "13"], ["-"], ["01", "28", "29", "30", "31"],
                    ["T"], ["00", "23", "24"], [":"], ["00", "59"], [":"], ["00", "59", "60"], ["", ".5", ".123456789"], ["", "Z", "-00:30", "+14:01"]]
        return [SIGNS, ["2020", "2021", "2000", "1900", "0000", "12020", "0004"], ["-"], ["00", "01", "02", "04", "12", "13"], ["-"],
                ["00", "01", "28", "29", "30", "31", "32"], ["T", " ", "t"], ["00", "23", "24", "25"], [":"], ["00", "59", "60"], [":"],
                ["00", "59", "60"], ["", ".5", ".123456789", ".1234567891"], ["", "Z", "+14:00", "-00:30", "+14:01"]]
    if kind == "period":
        lits = set()
        zs = ["", "Z", "+02:00", "-05:00", "+14:00", "-14:01"]
        for sg, y, z in itertools.product(SIGNS, ["2020", "0001", "0000", "12020", "02020", "202", "1999"], zs):
            lits.add(sg + y + z)
            for m in ["00", "01", "02", "12", "13", "5"]:
                lits.add(sg + y + "-" + m + z)
        for m, z in itertools.product(["00", "01", "02", "04", "12", "13"], zs):
            lits.add("--" + m + z)
            lits.add("--" + m + "--" + z)
            for d in ["00", "01", "28", "29", "30", "31", "32"]:
                lits.add("--" + m + "-" + d + z)
        for d, z in itertools.product(["00", "01", "15", "31", "32", "1"], zs):
            lits.add("---" + d + z)
        lits |= {"", "-", "--", "---", "----01", " 2020 ", "\t--02\n", "2020-", "20-20", "--1-1", "---1Z"}
        lits = sorted(lits)
        if q:
            lits = rnd.sample(lits, 500)
        return [lits]
    if kind == "duration":
        lits = set()
        for sg, y, m, d, t, h, mi, s in itertools.product(
            SIGNS, ["", "1Y", "0Y", "12Y"], ["", "2M", "13M"], ["", "3D"], ["", "T"], ["", "4H"], ["", "5M"],
            ["", "6S", "6.5S", "0.001S", ".5S", "6.S", "123456789S"]):
            lits.add(sg + "P" + y + m + d + t + h + mi + s)
        lits |= {"", "P", "PT", "-P", "1Y", "PT1H1Y", "P1.5Y", "P-1Y", "P1Y ", " P1Y", "p1y", "P1YT", "P1M1Y", "PT1S1M", "P0Y0M0DT0H0M0S", "PT0.000000001S"}
        lits = sorted(lits)
        if q:
            lits = rnd.sample(lits, 500)
        return [lits]
    raise ValueError(kind)


def fmt_slots(kind: str, tier: str):
    q = tier == "quick"
    ys = [-10000, -45, -1, 0, 1, 4, 100, 400, 999, 1900, 2000, 2020, 2021, 9999, 12020] if not q else [-45, 0, 1, 1900, 2000, 2020, 12020]
    ms = list(range(0, 14)) if not q else [0, 1, 2, 4, 12, 13]
    ds = [0, 1, 28, 29, 30, 31, 32]
    offs = [NO_OFFSET, 0, 1, -1, 30, -30, 59, -59, 60, -60, 330, -330, 840, -840, 841] if not q else [NO_OFFSET, 0, -30, 59, 330, -840, 841]
    hs = [0, 1, 12, 23, 24, 25] if not q else [0, 23, 24]
    mins = [0, 1, 59, 60] if not q else [0, 59]
    ss = [0, 59, 60] if not q else [0, 59]
    fs = [0, 1, 1000, 1000000, 123456789, 123456000, 123000000, 100000000, 999999999, 500, 50000] if not q else [0, 1, 1000, 123000000, 999999999]
    if kind == "date":
        return [ys, ms, ds, offs]
    if kind == "time":
        return [hs, mins, ss, fs, offs]
    if kind == "dateTime":
        if q:
            return [[-45, 0, 2000, 2020, 12020], [1, 2, 12], [1, 29, 31], [0, 23, 24], [0, 59], [0, 59], [0, 1, 1500, 123000000, 999999500, 999999999], [NO_OFFSET, 0, -30, 841]]
        return [[-45, 0, 1, 1900, 2000, 2020, 12020], [1, 2, 4, 12, 13], [0, 1, 28, 29, 30, 31], [0, 23, 24], [0, 59, 60], [0, 59],
                [0, 1, 1000, 1500, 123456789, 999999499, 999999500, 999999999], [NO_OFFSET, 0, -30, 59, 330, -840, 841]]
    raise ValueError(kind)


def cmp_values(kind: str, tier: str):
    """Boundary grid for ordering: month ends, leap days, year boundaries, negative years,
    offsets that cross midnight, nanosecond neighbours, 24:00:00 (dateTime only)."""
    vals = []
    if kind == "dateTime":
        base = [
            (2020, 1, 31, 23, 0, 0, 0), (2020, 2, 1, 0, 0, 0, 0), (2020, 2, 28, 23, 59, 59, 999999999), (2020, 2, 29, 0, 0, 0, 0),
            (2020, 3, 1, 0, 0, 0, 0), (2019, 12, 31, 23, 59, 59, 0), (2020, 1, 1, 0, 0, 0, 0), (2020, 1, 1, 0, 0, 0, 1),
            (2020, 1, 1, 0, 0, 0, 2), (2019, 12, 31, 24, 0, 0, 0), (2021, 2, 28, 12, 0, 0, 0), (2021, 3, 1, 12, 0, 0, 0),
            (-1, 1, 1, 0, 0, 0, 0), (-1, 12, 31, 0, 0, 0, 0), (-2, 6, 1, 0, 0, 0, 0), (0, 1, 1, 0, 0, 0, 0), (1, 1, 1, 0, 0, 0, 0),
            (12020, 1, 1, 0, 0, 0, 0), (1900, 2, 28, 0, 0, 0, 0), (1900, 3, 1, 0, 0, 0, 0), (2000, 2, 29, 12, 30, 0, 500000000),
            (2020, 7, 31, 0, 0, 0, 0), (2020, 8, 1, 0, 0, 0, 0), (2020, 4, 30, 23, 59, 59, 0), (2020, 5, 1, 0, 0, 0, 0),
            # the turn of February in year 0000 and in negative years (multiples of 400 and their neighbours): the
            # proleptic calendar needs FLOOR division there
            (0, 2, 28, 0, 0, 0, 0), (0, 2, 29, 0, 0, 0, 0), (0, 2, 29, 12, 0, 0, 0), (0, 2, 29, 24, 0, 0, 0), (0, 3, 1, 0, 0, 0, 0),
            (-400, 2, 29, 0, 0, 0, 0), (-400, 3, 1, 0, 0, 0, 0), (-399, 2, 28, 24, 0, 0, 0), (-399, 3, 1, 0, 0, 0, 0),
            (-1, 2, 28, 0, 0, 0, 0), (-1, 3, 1, 0, 0, 0, 0), (-401, 12, 31, 0, 0, 0, 0), (-400, 1, 1, 0, 0, 0, 0),
        ]
        for b in base:
            vals.append(b + (NO_OFFSET,))
        for b in base[:12]:
            for off in (0, 60, -60, 840, -840, 330):
                vals.append(b + (off,))
        if tier == "quick":
            vals = vals[:len(base)] + vals[len(base)::3]
        return [dict(zip(("y", "mo", "d", "h", "mi", "s", "f", "off"), v)) for v in vals]
    if kind == "time":
        base = [(0, 0, 0, 0), (0, 0, 0, 1), (0, 0, 1, 0), (11, 59, 59, 999999999), (12, 0, 0, 0), (23, 59, 59, 0), (23, 59, 59, 999999999), (12, 30, 0, 500)]
        for b in base:
            vals.append(b + (NO_OFFSET,))
            for off in (0, 60, -60, 840, -30):
                vals.append(b + (off,))
        return [dict(zip(("h", "mi", "s", "f", "off"), v)) for v in vals]
    raise ValueError(kind)


def grid_module(kind: str, tier: str, rnd: random.Random, out_lits: list[str] | None = None, lex_override=None) -> tuple[str, dict]:
    lex = lex_override or (lex_slots(kind, tier, rnd) if kind in ("date", "time", "dateTime", "period", "duration") else [[]])
    info = {"lex_slots": [len(s) for s in lex]}
    lex_t = "<< " + ", ".join(tla_set(chars(x) for x in slot) for slot in lex) + " >>"
    if kind in ("date", "time", "dateTime"):
        fs = fmt_slots(kind, tier)
        fmt_t = "<< " + ", ".join(tla_set(str(x) for x in slot) for slot in fs) + " >>"
        info["fmt_slots"] = [len(s) for s in fs]
    else:
        fmt_t = "<< >>"
    if kind in ("time", "dateTime"):
        cv = cmp_values(kind, tier)
        recs = tla_set("[" + ", ".join(f"{k} |-> {v}" for k, v in r.items()) + "]" for r in cv)
        cmp_t = f"<< {recs}, {recs} >>"
        info["cmp_values"] = len(cv)
    else:
        cmp_t = "<< >>"
    out_t = "<< " + tla_set(chars(x) for x in (out_lits or [])) + " >>"
    mod = (
        "------------------------------- MODULE DTGrid -------------------------------\n"
        "EXTENDS Naturals, Integers, Sequences\n"
        f"LexSlots(kind) == {lex_t}\n"
        f"FmtSlots(kind) == {fmt_t}\n"
        f"CmpSlots(kind) == {cmp_t}\n"
        f"OutSlots(kind) == {out_t}\n"
        "=============================================================================\n"
    )
    return mod, info


# -- real code ----------------------------------------------------------------------
def real_parse(kind: str, s: str):
    """-> ("ok", components dict) | ("reject", exception name)"""
    try:
        if kind == "date":
            v = XmlDate.from_string(s)
            return "ok", {"y": v.year, "mo": v.month, "d": v.day, "off": NO_OFFSET if v.offset is None else v.offset}
        if kind == "time":
            v = XmlTime.from_string(s)
            return "ok", {"h": v.hour, "mi": v.minute, "s": v.second, "f": v.fractional_second, "off": NO_OFFSET if v.offset is None else v.offset}
        if kind == "dateTime":
            v = XmlDateTime.from_string(s)
            return "ok", {"y": v.year, "mo": v.month, "d": v.day, "h": v.hour, "mi": v.minute, "s": v.second, "f": v.fractional_second,
                          "off": NO_OFFSET if v.offset is None else v.offset}
        if kind == "period":
            v = XmlPeriod(s)
            g = lambda x: ABSENT if x is None else x  # noqa: E731
            return "ok", {"y": g(v.year), "mo": g(v.month), "d": g(v.day), "off": NO_OFFSET if v.offset is None else v.offset}
        if kind == "duration":
            v = XmlDuration(s)
            g = lambda x: ABSENT if x is None else x  # noqa: E731
            return "ok", {"neg": v.negative, "y": g(v.years), "mo": g(v.months), "d": g(v.days), "h": g(v.hours), "mi": g(v.minutes), "s": v.seconds}
    except ValueError as ex:
        return "reject", type(ex).__name__
    except Exception as ex:  # noqa: BLE001
        return "reject", type(ex).__name__
    raise ValueError(kind)


def denotes_real(kind: str, c: dict) -> str | None:
    """Independent calendar check (calendar.monthrange / plain ranges); None when real."""

    def real_date(y, m, d):
        if not 1 <= m <= 12:
            return f"month {m}"
        ml = calendar.monthrange(y if y > 0 else 2000 + (y % 400), m)[1]
        if not 1 <= d <= ml:
            return f"day {d} of {y}-{m}"
        return None

    def real_time(h, mi, s, f):
        if not (0 <= h <= 24 and 0 <= mi <= 59 and 0 <= s <= 59 and 0 <= f <= 999999999):
            return f"time {h}:{mi}:{s}.{f}"
        if h == 24 and (mi or s or f):
            return f"time {h}:{mi}:{s}.{f}"
        return None

    if kind == "date":
        return real_date(c["y"], c["mo"], c["d"])
    if kind == "time":
        return real_time(c["h"], c["mi"], c["s"], c["f"])
    if kind == "dateTime":
        return real_date(c["y"], c["mo"], c["d"]) or real_time(c["h"], c["mi"], c["s"], c["f"])
    if kind == "period":
        if c["mo"] != ABSENT and not 1 <= c["mo"] <= 12:
            return f"month {c['mo']}"
        if c["d"] != ABSENT:
            mx = 31 if c["mo"] == ABSENT else calendar.monthrange(2000, c["mo"])[1]
            if not 1 <= c["d"] <= mx:
                return f"day {c['d']}"
    return None


def make_value(kind: str, v: dict):
    off = None if v["off"] == NO_OFFSET else v["off"]
    if kind == "date":
        return XmlDate(v["y"], v["mo"], v["d"], off)
    if kind == "time":
        return XmlTime(v["h"], v["mi"], v["s"], v["f"], off)
    return XmlDateTime(v["y"], v["mo"], v["d"], v["h"], v["mi"], v["s"], v["f"], off)


EPOCH = datetime.datetime(1970, 1, 1, tzinfo=datetime.timezone.utc)


def py_instant(dt: datetime.datetime):
    """(day number since 1970-01-01, second of day, microsecond) in UTC, by datetime arithmetic."""
    if dt.tzinfo is None:
        dt = dt.replace(tzinfo=datetime.timezone.utc)
    delta = dt - EPOCH
    return delta.days, delta.seconds, delta.microseconds
