"""Binding for spec/DictShape.tla: every (field kind, JSON shape, position) through the real DictDecoder / JsonParser.

C15: whatever the pair, the outcome is an instance of the requested class or a documented error.
C04: a CANONICAL pair (a shape the documented dictionary form uses for that kind of field) decodes, and encoding
     the result with the None-filtering factory gives the document back (modulo explicit nulls)."""
from __future__ import annotations

import json
import warnings

from xsdata.exceptions import ConverterError, ParserError, XmlContextError
from xsdata.formats.dataclass.context import XmlContext
from xsdata.formats.dataclass.parsers import DictDecoder, JsonParser
from xsdata.formats.dataclass.parsers.config import ParserConfig
from xsdata.formats.dataclass.serializers import DictEncoder
from xsdata.formats.dataclass.serializers.dict import DictFactory

from . import poly_models as pm

DOCUMENTED = (ParserError, ConverterError, XmlContextError)


def strip_nulls(x):
    if isinstance(x, dict):
        return {k: strip_nulls(v) for k, v in x.items() if v is not None}
    if isinstance(x, list):
        return [strip_nulls(v) for v in x]
    return x


def cases(ctx):
    res = ctx.tlc("MC_DictShape", "run.cfg", workers=1,
                  extra_files={"run.cfg": "SPECIFICATION Spec\nINVARIANT InvTableSane\nCONSTRAINT Emit\nCHECK_DEADLOCK FALSE\n"},
                  label="MC_DictShape kinds x shapes x positions", tags=("SHAPE",), require_cases=True, timeout=1500)
    out, seen = [], set()
    for _t, c in res.printed:
        key = (c["kind"], c["shape"], c["pos"])
        if key not in seen:
            seen.add(key)
            out.append(c)
    return out


def document(case):
    model = pm.SHAPE_MODELS[case["kind"]]
    nested, inlist = pm.shape_wrappers(model)
    inner = {"x": pm.SHAPE_VALUES[case["shape"]]}
    if case["kind"].startswith("wrapped"):
        # the field sits inside a wrapper element w; without a value the encoder writes the wrapper itself as null
        inner = {"w": None} if case["shape"] == "null" else {"w": inner}
    if case["pos"] == "root":
        return model, inner
    if case["pos"] == "nested":
        return nested, {"inner": inner}
    return inlist, {"items": [inner, inner]}


def check_unconvertible(ctx, xctx, case, clazz, doc):
    """C10: kept with a ConverterWarning, or ParserError when conversion warnings are configured to fail."""
    from xsdata.exceptions import ConverterWarning

    n = 0
    for via in ("dict", "json"):
        for strict in (False, True):
            n += 1
            ctx.case(("dict-unconvertible", case["kind"], case["shape"], case["pos"], strict, via))
            cfg = ParserConfig(fail_on_converter_warnings=strict)
            with warnings.catch_warnings(record=True) as caught:
                warnings.simplefilter("always")
                try:
                    if via == "dict":
                        out = ("ok", DictDecoder(context=xctx, config=cfg).decode(json.loads(json.dumps(doc)), clazz))
                    else:
                        out = ("ok", JsonParser(context=xctx, config=cfg).from_string(json.dumps(doc), clazz))
                except Exception as ex:  # noqa: BLE001
                    out = ("exc", ex)
            nwarn = sum(1 for w in caught if issubclass(w.category, ConverterWarning))
            info = {"kind": case["kind"], "shape": case["shape"], "position": case["pos"], "document": json.dumps(doc), "via": via, "strict": strict}
            if strict and not (out[0] == "exc" and isinstance(out[1], ParserError)):
                ctx.violation(f"fail_on_converter_warnings: unconvertible {case['shape']} for field kind {case['kind']} ({case['pos']}, {via}) did not fail with ParserError: {out[1]!r}"[:400], info)
            if not strict and not (out[0] == "ok" and nwarn >= 1):
                ctx.violation(f"unconvertible {case['shape']} for field kind {case['kind']} ({case['pos']}, {via}): expected the value kept with a ConverterWarning, got {out[1]!r} with {nwarn} warning(s)"[:400], info)
    return n


def run_matrix(ctx, want: str):
    xctx = XmlContext()
    n = 0
    for case in cases(ctx):
        clazz, doc = document(case)
        if want == "C10":
            if case["unconvertible"]:
                n += check_unconvertible(ctx, xctx, case, clazz, doc)
            continue
        for strict in ((False, True) if want == "C15" else (False,)):
            cfg = ParserConfig(fail_on_converter_warnings=strict)
            for via in ("dict", "json"):
                n += 1
                ctx.case(("dict-shape", case["kind"], case["shape"], case["pos"], strict, via))
                with warnings.catch_warnings():
                    warnings.simplefilter("ignore")
                    try:
                        if via == "dict":
                            out = ("ok", DictDecoder(context=xctx, config=cfg).decode(json.loads(json.dumps(doc)), clazz))
                        else:
                            out = ("ok", JsonParser(context=xctx, config=cfg).from_string(json.dumps(doc), clazz))
                    except Exception as ex:  # noqa: BLE001
                        out = ("exc", ex)
                info = {"kind": case["kind"], "shape": case["shape"], "position": case["pos"], "document": json.dumps(doc), "via": via, "strict": strict}
                if want == "C15":
                    if out[0] == "ok" and not isinstance(out[1], clazz):
                        ctx.violation(f"decoder ({via}) returned {type(out[1]).__name__} for field kind {case['kind']} / shape {case['shape']}", info)
                    elif out[0] == "exc" and not isinstance(out[1], DOCUMENTED):
                        ctx.violation(f"decoder ({via}) leaked {type(out[1]).__name__}: {out[1]} for field kind {case['kind']} / shape {case['shape']} ({case['pos']})", info)
                elif case["canonical"]:
                    if out[0] != "ok":
                        ctx.violation(f"canonical dictionary form refused: field kind {case['kind']} / shape {case['shape']} ({case['pos']}, {via}): {type(out[1]).__name__}: {out[1]}", info)
                        continue
                    try:
                        back = DictEncoder(context=xctx, dict_factory=DictFactory.FILTER_NONE).encode(out[1])
                    except Exception as ex:  # noqa: BLE001
                        ctx.violation(f"re-encoding the decoded canonical form failed ({case['kind']} / {case['shape']}): {type(ex).__name__}: {ex}", info)
                        continue
                    if json.loads(json.dumps(back)) != strip_nulls(doc):
                        ctx.violation(f"canonical form {json.dumps(doc)} of field kind {case['kind']} comes back as {json.dumps(back)}", info)
    if want == "C15":
        # the DOCUMENT itself in another shape than an object: an array around a valid document, empty arrays, scalars
        for kind in ("int", "intList", "model", "compound"):
            clazz = pm.SHAPE_MODELS[kind]
            valid = {"x": {"int": 5, "intList": [5], "model": {"v": 1}, "compound": [5]}[kind]}
            for label, doc in (("array-of-one", [valid]), ("array-of-two", [valid, valid]), ("empty-array", []), ("array-of-empty-object", [{}]),
                               ("nested-array", [[valid]]), ("number", 5), ("string", "s"), ("null", None), ("true", True)):
                for via in ("dict", "json"):
                    n += 1
                    ctx.case(("dict-document-shape", kind, label, via))
                    with warnings.catch_warnings():
                        warnings.simplefilter("ignore")
                        try:
                            if via == "dict":
                                out = ("ok", DictDecoder(context=xctx).decode(json.loads(json.dumps(doc)), clazz))
                            else:
                                out = ("ok", JsonParser(context=xctx).from_string(json.dumps(doc), clazz))
                        except Exception as ex:  # noqa: BLE001
                            out = ("exc", ex)
                    info = {"kind": kind, "document_shape": label, "document": json.dumps(doc), "via": via}
                    if out[0] == "ok" and not isinstance(out[1], clazz):
                        ctx.violation(f"decoder ({via}) returned {type(out[1]).__name__} ({out[1]!r}) for a document of shape {label}, not an instance of the requested class"[:400], info)
                    elif out[0] == "exc" and not isinstance(out[1], DOCUMENTED):
                        ctx.violation(f"decoder ({via}) leaked {type(out[1]).__name__}: {out[1]} for a document of shape {label}", info)
    ctx.extra["dict_shape_cases"] = n
