"""Binding for spec/XmlShape.tla: every (field kind, XML shape of the content called x, position) through the real
XmlParser with both handlers.

C15: whatever the cell, the outcome is an instance of the requested class or a documented error.
C08: both handlers give the same outcome for the same (well-formed) document.
C01: a CANONICAL cell parses, and the parsed object survives serialize -> parse (both writers).
C10: a cell with an element no content model knows fails with ParserError under the default configuration and
     parses to the same object as the cell without it when unknown-property failure is disabled."""
from __future__ import annotations

import dataclasses
import warnings
from typing import Optional

from xsdata.exceptions import ConverterError, ParserError, XmlContextError, XmlHandlerError
from xsdata.formats.dataclass.context import XmlContext
from xsdata.formats.dataclass.parsers import XmlParser
from xsdata.formats.dataclass.parsers.config import ParserConfig
from xsdata.formats.dataclass.parsers.handlers import LxmlEventHandler, XmlEventHandler
from xsdata.formats.dataclass.serializers import XmlSerializer
from xsdata.formats.dataclass.serializers.config import SerializerConfig
from xsdata.formats.dataclass.serializers.writers import LxmlEventWriter, XmlEventWriter

from . import poly_models as pm

DOCUMENTED = (ParserError, ConverterError, XmlContextError, XmlHandlerError)
XSI = 'xmlns:xsi="http://www.w3.org/2001/XMLSchema-instance"'
XS = 'xmlns:xs="http://www.w3.org/2001/XMLSchema"'
HANDLERS = {"lxml": LxmlEventHandler, "native": XmlEventHandler}

# shape -> (attributes added to the parent, children of the parent)
SHAPES = {
    "absent": ("", ""),
    "empty": ("", "<x/>"),
    "ws": ("", "<x>  </x>"),
    "int": ("", "<x>5</x>"),
    "str": ("", "<x>abc</x>"),
    "enumStr": ("", "<x>blue</x>"),
    "ints": ("", "<x>5 6</x>"),
    "twice": ("", "<x>5</x><x>6</x>"),
    "nil": ("", f'<x {XSI} xsi:nil="true"/>'),
    "nilAttr": ("", f'<x {XSI} a="1" xsi:nil="true"/>'),
    "nilText": ("", f'<x {XSI} xsi:nil="true">5</x>'),
    "nilBad": ("", f'<x {XSI} xsi:nil="maybe"/>'),
    "leaf": ("", "<x><v>1</v></x>"),
    "leafTwice": ("", "<x><v>1</v></x><x><v>2</v></x>"),
    "unknownChild": ("", "<x><zz>1</zz></x>"),
    "mixed": ("", "<x>a<v>1</v>b</x>"),
    "xsiInt": ("", f'<x {XSI} {XS} xsi:type="xs:int">5</x>'),
    "xsiUnknown": ("", f'<x {XSI} xsi:type="Nope">5</x>'),
    "xsiUnbound": ("", f'<x {XSI} xsi:type="q:int">5</x>'),
    "xsiLeaf": ("", f'<x {XSI} xsi:type="SLeaf"><v>1</v></x>'),
    "attrs": ("", '<x a="1" b="2"/>'),
    "parentAttr": (' x="5"', ""),
    "parentAttrBad": (' x="abc"', ""),
    "parentAttrs": (' a="1" b="2"', ""),
    "deep": ("", "<x><x><x>5</x></x></x>"),
    "cdata": ("", "<x><![CDATA[5]]></x>"),
    "comment": ("", "<x><!--c-->5</x>"),
    "otherNs": ("", '<o:x xmlns:o="urn:o">5</o:x>'),
    "compoundN": ("", "<n>5</n><leaf><v>1</v></leaf>"),
    "sibling": ("", "<x>5</x><zz>1</zz>"),
    "known": ("", "<SLeaf><v>1</v></SLeaf>"),
    "knownTwice": ("", "<SLeaf><v>1</v></SLeaf><SLeaf><v>2</v></SLeaf>"),
    "knownThenX": ("", "<SLeaf><v>1</v></SLeaf><x>5</x>"),
    "mixedTokens": ("", "<x>1 a 3</x>"),
    "clarkBroken": ("", "<x>{urn:q</x>"),
    "xsiClarkBroken": ("", f'<x {XSI} xsi:type="{{urn:q">5</x>'),
    "clark": ("", "<x>{urn:q}n</x>"),
    "xsiHexBad": ("", f'<x {XSI} {XS} xsi:type="xs:hexBinary">zz</x>'),
    "xsiIntBad": ("", f'<x {XSI} {XS} xsi:type="xs:int">abc</x>'),
    "leafThenText": ("", "<x><v>1</v></x>stray"),
    "textLeafText": ("", "lead<x><v>1</v></x>mid<zz/>tail"),
}

MODELS = dict(pm.SHAPE_MODELS)
MODELS["attrInt"] = dataclasses.make_dataclass(
    "KAttrInt", [("x", Optional[int], dataclasses.field(default=None, metadata={"type": "Attribute"}))])
MODELS["wildcardOne"] = dataclasses.make_dataclass(
    "KWildcardOne", [("x", Optional[object], dataclasses.field(default=None, metadata={"type": "Wildcard", "namespace": "##any"}))])
from xml.etree.ElementTree import QName as _QName

MODELS["qname"] = dataclasses.make_dataclass(
    "KQName", [("x", Optional[_QName], dataclasses.field(default=None, metadata={"type": "Element"}))])
MODELS["modelAndWildcard"] = dataclasses.make_dataclass(
    "KModelAndWildcard", [("x", Optional[pm.SLeaf], dataclasses.field(default=None, metadata={"type": "Element"})),
                          ("rest", list[object], dataclasses.field(default_factory=list, metadata={"type": "Wildcard", "namespace": "##any"}))])
MODELS["nillableModel"] = dataclasses.make_dataclass(
    "KNillableModel", [("x", Optional[pm.SNil], dataclasses.field(default=None, metadata={"type": "Element"}))])
_WRAP: dict = {}


def wrappers(kind):
    if kind not in _WRAP:
        _WRAP[kind] = pm.shape_wrappers(MODELS[kind])
    return _WRAP[kind]


def document(kind, shape, pos):
    model = MODELS[kind]
    attrs, children = SHAPES[shape]
    if pos == "root":
        return model, f"<{model.__name__}{attrs}>{children}</{model.__name__}>"
    nested, inlist = wrappers(kind)
    if pos == "nested":
        return nested, f"<{nested.__name__}><inner{attrs}>{children}</inner></{nested.__name__}>"
    return inlist, f"<{inlist.__name__}><items{attrs}>{children}</items><items{attrs}>{children}</items></{inlist.__name__}>"


def cases(ctx):
    res = ctx.tlc("MC_XmlShape", "run.cfg", workers=1,
                  extra_files={"run.cfg": "SPECIFICATION Spec\nINVARIANT InvTableSane\nCONSTRAINT Emit\nCHECK_DEADLOCK FALSE\n"},
                  label="MC_XmlShape kinds x shapes x positions", tags=("XSHAPE",), require_cases=True, timeout=1500)
    out, seen = [], set()
    for _t, c in res.printed:
        key = (c["kind"], c["shape"], c["pos"])
        if key not in seen:
            seen.add(key)
            out.append(c)
    return out


def parse(xctx, text, clazz, handler, cfg):
    with warnings.catch_warnings():
        warnings.simplefilter("ignore")
        try:
            return ("ok", XmlParser(context=xctx, handler=HANDLERS[handler], config=cfg).from_string(text, clazz))
        except Exception as ex:  # noqa: BLE001
            return ("exc", ex)


def same(a, b):
    if a[0] != b[0]:
        return False
    return a[1] == b[1] if a[0] == "ok" else type(a[1]) is type(b[1])


def show(o):
    return f"{type(o[1]).__name__}: {o[1]}"[:240] if o[0] == "exc" else repr(o[1])[:240]


RAW = {"xsiHexBad": "zz", "xsiIntBad": "abc", "str": "abc", "enumStr": "blue", "ints": "5 6", "int": "5", "mixedTokens": "1 a 3", "parentAttrBad": "abc"}


def _x_values(obj):
    """The values of every field called x below obj."""
    out = []
    if dataclasses.is_dataclass(obj):
        for f in dataclasses.fields(obj):
            v = getattr(obj, f.name)
            if f.name == "x":
                out.append(v)
            else:
                out.extend(_x_values(v))
    elif isinstance(obj, (list, tuple)):
        for v in obj:
            out.extend(_x_values(v))
    return out


def _unwrap(v):
    """the text a generic wrapper (DerivedElement / AnyElement, alone or in a list) holds"""
    if isinstance(v, list):
        return [_unwrap(i) for i in v]
    if hasattr(v, "value") and hasattr(v, "qname") and not hasattr(v, "children"):
        return _unwrap(v.value)
    if hasattr(v, "children") and hasattr(v, "text"):
        return v.text
    return v


def check_unconvertible(ctx, xctx, case, clazz, text):
    """C10: kept as given with a ConverterWarning, or ParserError when conversion warnings are configured to fail."""
    from xsdata.exceptions import ConverterWarning

    raw = RAW[case["shape"]]
    n = 0
    for h in HANDLERS:
        for strict in (False, True):
            n += 1
            ctx.case(("xml-unconvertible", case["kind"], case["shape"], case["pos"], strict, h))
            cfg = ParserConfig(fail_on_converter_warnings=strict)
            with warnings.catch_warnings(record=True) as caught:
                warnings.simplefilter("always")
                try:
                    out = ("ok", XmlParser(context=xctx, handler=HANDLERS[h], config=cfg).from_string(text, clazz))
                except Exception as ex:  # noqa: BLE001
                    out = ("exc", ex)
            nwarn = sum(1 for w in caught if issubclass(w.category, ConverterWarning))
            info = {"kind": case["kind"], "shape": case["shape"], "position": case["pos"], "document": text, "handler": h, "strict": strict}
            if strict:
                if not (out[0] == "exc" and isinstance(out[1], ParserError)):
                    ctx.violation(f"fail_on_converter_warnings: unconvertible {raw!r} for field kind {case['kind']} ({case['pos']}, {h}) did not fail with ParserError: {show(out)}", info)
                continue
            if out[0] != "ok" or nwarn < 1:
                ctx.violation(f"unconvertible {raw!r} for field kind {case['kind']} ({case['pos']}, {h}): expected the value kept with a ConverterWarning, got {show(out)} with {nwarn} warning(s)", info)
                continue
            xs = [_unwrap(v) for v in _x_values(out[1])]
            if not xs or any(v != raw and v != [raw] for v in xs):
                ctx.violation(f"unconvertible {raw!r} for field kind {case['kind']} ({case['pos']}, {h}) is not kept as given: {xs!r}", info)
    return n


def _tree(text):
    """The document as a tree of (name, attributes without xsi:type, text, children, tail); white space between the
    children of element-only content and the choice of the xsi:type marker's built-in type are not compared."""
    import xml.etree.ElementTree as ET

    def walk(e):
        kids = [walk(k) for k in e]
        strip = (lambda t: (t or "").strip()) if kids else (lambda t: t or "")
        attrs = sorted((k, v) for k, v in e.attrib.items() if k != "{http://www.w3.org/2001/XMLSchema-instance}type")
        return (e.tag, attrs, strip(e.text), kids, (e.tail or "").strip())

    return walk(ET.fromstring(text))


def run_matrix(ctx, want: str):
    xctx = XmlContext()
    n = 0
    lenient = ParserConfig(fail_on_unknown_properties=False)
    for case in cases(ctx):
        kind, shape, pos = case["kind"], case["shape"], case["pos"]
        clazz, text = document(kind, shape, pos)
        info = {"kind": kind, "shape": shape, "position": pos, "document": text}
        if want == "C15":
            # the document element itself announced as nil (the requested classes are not nillable), content and all
            docs = [("", text)]
            if pos == "root":
                docs.append((" (document element with xsi:nil)", text.replace(f"<{clazz.__name__}", f'<{clazz.__name__} {XSI} xsi:nil="true"', 1)))
                # ... and announced with the xsi:type of a known class that has NOTHING to do with the requested one: content as it
                # stands, and (once per kind) content that fits the announced class
                docs.append((" (document element with the xsi:type of an unrelated class)", text.replace(f"<{clazz.__name__}", f'<{clazz.__name__} {XSI} xsi:type="SOther"', 1)))
                if shape == "absent":
                    docs.append((" (document element with the xsi:type and the content of an unrelated class)",
                                 f'<{clazz.__name__} {XSI} xsi:type="SLeaf"><v>1</v></{clazz.__name__}>'))
            for strict in (False, True):
                for unknown in (True, False):
                    cfg = ParserConfig(fail_on_converter_warnings=strict, fail_on_unknown_properties=unknown, fail_on_unknown_attributes=strict)
                    for h in HANDLERS:
                      for note, doc_text in docs:
                        n += 1
                        ctx.case(("xml-shape", kind, shape, pos, strict, unknown, h, note))
                        out = parse(xctx, doc_text, clazz, h, cfg)
                        if out[0] == "ok" and not isinstance(out[1], clazz):
                            ctx.violation(f"parser ({h}) returned {type(out[1]).__name__} ({out[1]!r}) for field kind {kind} / shape {shape}{note}"[:400], dict(info, handler=h, document=doc_text))
                        elif out[0] == "exc" and not isinstance(out[1], DOCUMENTED):
                            ctx.violation(f"parser ({h}) leaked {show(out)} for field kind {kind} / shape {shape} ({pos}){note}", dict(info, handler=h, strict=strict, unknown=unknown, document=doc_text))
        elif want == "C08":
            for cfg_name, cfg in (("default", ParserConfig()), ("lenient", lenient)):
                n += 1
                ctx.case(("xml-shape-handlers", kind, shape, pos, cfg_name))
                a, b = parse(xctx, text, clazz, "lxml", cfg), parse(xctx, text, clazz, "native", cfg)
                if not same(a, b):
                    ctx.violation(f"handlers disagree on field kind {kind} / shape {shape} ({pos}, {cfg_name}): lxml {show(a)} / native {show(b)}", dict(info, config=cfg_name))
        elif want == "C01":
            if not case["canonical"]:
                continue
            for h in HANDLERS:
                n += 1
                ctx.case(("xml-shape-canonical", kind, shape, pos, h))
                out = parse(xctx, text, clazz, h, ParserConfig())
                if out[0] != "ok":
                    ctx.violation(f"canonical XML form refused: field kind {kind} / shape {shape} ({pos}, {h}): {show(out)}", dict(info, handler=h))
                    continue
                for wname, writer in (("lxml", LxmlEventWriter), ("native", XmlEventWriter)):
                    try:
                        again = XmlSerializer(context=xctx, writer=writer, config=SerializerConfig(xml_declaration=False)).render(out[1])
                    except Exception as ex:  # noqa: BLE001
                        ctx.violation(f"serializing the object parsed from a canonical form failed ({kind} / {shape}, {wname}): {type(ex).__name__}: {ex}", dict(info, handler=h))
                        continue
                    # what is written says what was read: same elements, attributes, character data, in order
                    if _tree(again) != _tree(text):
                        ctx.violation(f"canonical {kind} / {shape} ({pos}): the parsed object is written as another document ({wname} writer, {h} handler): {text} -> {again}",
                                      dict(info, handler=h, writer=wname, serialized=again))
                    back = parse(xctx, again, clazz, h, ParserConfig())
                    if not same(out, back):
                        ctx.violation(f"object parsed from canonical {kind} / {shape} ({pos}) does not survive the round trip ({wname} writer, {h} handler): {show(out)} -> {again} -> {show(back)}",
                                      dict(info, handler=h, writer=wname, serialized=again))
        elif want == "C10":
            if case["unconvertible"]:
                n += check_unconvertible(ctx, xctx, case, clazz, text)
            if not case["strictFail"]:
                continue
            base_clazz, base_text = document(kind, "int", pos)
            for h in HANDLERS:
                n += 1
                ctx.case(("xml-shape-strict", kind, pos, h))
                out = parse(xctx, text, clazz, h, ParserConfig())
                if not (out[0] == "exc" and isinstance(out[1], ParserError)):
                    ctx.violation(f"default configuration accepted an unknown element beside field kind {kind} ({pos}, {h}): {show(out)}", dict(info, handler=h))
                a, b = parse(xctx, text, clazz, h, lenient), parse(xctx, base_text, base_clazz, h, lenient)
                if not same(a, b):
                    ctx.violation(f"lenient configuration: unknown element beside field kind {kind} changed the result ({pos}, {h}): {show(a)} vs {show(b)}", dict(info, handler=h))
    ctx.extra["xml_shape_cases"] = n
