"""Binding between spec/Writer.tla and the real XmlWriter classes.

* abstract <-> concrete values and events (the vocabulary of Writer.tla)
* a recording proxy around the real SAX content handler: no change to /repo
* record_run: drive a real writer with real events, return per-receiver-call SAX calls,
  the rendered text or the exception
* intended names / QName targets computed independently from the events
"""
from __future__ import annotations

import io
import json
from typing import Any
from xml.etree.ElementTree import QName

from xsdata.formats.converter import converter
from xsdata.formats.dataclass.serializers.config import SerializerConfig
from xsdata.formats.dataclass.serializers.writers import LxmlEventWriter, XmlEventWriter
from xsdata.utils import namespaces

from . import infoset

NONE = "__none__"
XS = "http://www.w3.org/2001/XMLSchema"
XSI = "http://www.w3.org/2001/XMLSchema-instance"

# XSD built-in datatype local names (XSD Part 2), written down independently of xsdata
XSD_TYPES = {
    "string", "boolean", "decimal", "float", "double", "duration", "dateTime", "time", "date",
    "gYearMonth", "gYear", "gMonthDay", "gDay", "gMonth", "hexBinary", "base64Binary", "anyURI",
    "QName", "NOTATION", "normalizedString", "token", "language", "NMTOKEN", "NMTOKENS", "Name",
    "NCName", "ID", "IDREF", "IDREFS", "ENTITY", "ENTITIES", "integer", "nonPositiveInteger",
    "negativeInteger", "long", "int", "short", "byte", "nonNegativeInteger", "unsignedLong",
    "unsignedInt", "unsignedShort", "unsignedByte", "positiveInteger", "anyType", "anySimpleType",
    "dateTimeStamp", "dayTimeDuration", "yearMonthDuration", "anyAtomicType", "error",
}

WRITERS = {"native": XmlEventWriter, "lxml": LxmlEventWriter}


def split(qname: str) -> list[str]:
    if qname and qname[0] == "{" and "}" in qname:
        uri, local = qname[1:].split("}", 1)
        if uri:
            return [uri, local]
    return ["", qname]


def clark(name) -> str:
    return f"{{{name[0]}}}{name[1]}" if name[0] else name[1]


# -- values -----------------------------------------------------------------
def abstract_value(v: Any, attr_name=None) -> dict:
    if v is None:
        return {"t": "none"}
    if isinstance(v, QName):
        u, l = split(v.text)
        return {"t": "qname", "uri": u, "local": l}
    if isinstance(v, str):
        if v.startswith("{") and "}" in v[1:] and v.index("}") > 1:
            u, l = v[1:].split("}", 1)
            return {"t": "clark", "uri": u, "local": l, "dt": u == XS and l in XSD_TYPES}
        return {"t": "str", "s": v}
    if isinstance(v, list):
        return {"t": "list", "items": [abstract_value(x) if isinstance(x, (QName,)) else {"t": "str", "s": _plain(x)} for x in v]}
    return {"t": "str", "s": _plain(v)}


def _plain(v) -> str:
    if isinstance(v, str):
        return v
    return converter.serialize(v)


def concrete_value(a: dict) -> Any:
    t = a["t"]
    if t == "none":
        return None
    if t == "str":
        return a["s"]
    if t == "qname":
        return QName(clark([a["uri"], a["local"]]))
    if t == "clark":
        return "{" + a["uri"] + "}" + a["local"]
    if t == "list":
        return [concrete_value(x) for x in a["items"]]
    raise ValueError(t)


def abstract_event(e: tuple) -> dict:
    name = e[0]
    if name in ("start", "end"):
        return {"ev": name, "name": split(e[1])}
    if name == "attr":
        return {"ev": "attr", "name": split(e[1]), "value": abstract_value(e[2])}
    if name == "data":
        return {"ev": "data", "value": abstract_value(e[1])}
    raise ValueError(name)


def concrete_event(a: dict) -> tuple:
    ev = a["ev"]
    if ev in ("start", "end"):
        return (ev, clark(a["name"]))
    if ev == "attr":
        return ("attr", clark(a["name"]), concrete_value(a["value"]))
    return ("data", concrete_value(a["value"]))


def concrete_map(raw) -> dict:
    """raw: list of [prefix|"__none__", uri] pairs (the user's ns_map, in order)."""
    return {(None if p == NONE else p): u for p, u in raw}


def abstract_map(m: dict | None) -> list:
    return [[NONE if p is None else p, u] for p, u in (m or {}).items()]


# -- recording ----------------------------------------------------------------
_REC_CACHE: dict = {}


def install_recorder(handler) -> list:
    """Make the real content handler record every SAX call it receives (then do its job).
    The handler keeps its type identity (a dynamic subclass), nothing in /repo changes."""
    base = handler.__class__
    calls: list = []
    if base not in _REC_CACHE:

        class Rec(base):  # type: ignore[misc,valid-type]
            def startPrefixMapping(self, prefix, uri):
                self._xv_calls.append({"op": "startPrefixMapping", "prefix": prefix or "", "uri": uri})
                return base.startPrefixMapping(self, prefix, uri)

            def endPrefixMapping(self, prefix):
                self._xv_calls.append({"op": "endPrefixMapping", "prefix": prefix or ""})
                return base.endPrefixMapping(self, prefix)

            def startElementNS(self, name, qname, attrs=None):
                self._xv_calls.append(
                    {
                        "op": "startElementNS",
                        "name": [name[0] or "", name[1]],
                        "attrs": [
                            {"name": [k[0] or "", k[1]], "value": NONE if v is None else v}
                            for k, v in (attrs or {}).items()
                        ],
                    }
                )
                return base.startElementNS(self, name, qname, attrs)

            def endElementNS(self, name, qname):
                self._xv_calls.append({"op": "endElementNS", "name": [name[0] or "", name[1]]})
                return base.endElementNS(self, name, qname)

            def characters(self, data):
                self._xv_calls.append({"op": "characters", "data": data})
                return base.characters(self, data)

            def ignorableWhitespace(self, data):
                self._xv_calls.append({"op": "ignorableWhitespace", "s": "nl" if data == "\n" else "indent"})
                return base.ignorableWhitespace(self, data)

        Rec.__name__ = base.__name__
        _REC_CACHE[base] = Rec
    handler.__class__ = _REC_CACHE[base]
    handler._xv_calls = calls
    return calls


def record_run(backend: str, raw_map, events, *, indent=None, declaration=False, abstract=True):
    """Drive a real writer.  `events` are real event tuples (an iterable, possibly the real
    EventGenerator's generator).  Returns dict(steps, text, exc)."""
    cfg = SerializerConfig(indent=indent, xml_declaration=declaration)
    out = io.StringIO()
    user = concrete_map(raw_map) if not isinstance(raw_map, dict) else raw_map
    writer = WRITERS[backend](config=cfg, output=out, ns_map=namespaces.clean_prefixes(user) if user else {})
    calls = install_recorder(writer.handler)
    steps: list = []
    cur = {"ev": None}

    def feed():
        for e in events:
            if cur["ev"] is not None:
                steps.append({"ev": cur["ev"], "calls": calls[cur["mark"]:]})
            cur["ev"] = abstract_event(e) if abstract else e
            cur["mark"] = len(calls)
            yield e
        if cur["ev"] is not None:
            steps.append({"ev": cur["ev"], "calls": calls[cur["mark"]:]})
            cur["ev"] = None

    exc = None
    try:
        writer.write(feed())
    except BaseException as ex:  # noqa: BLE001 - the verdict needs the type
        exc = ex
        if cur["ev"] is not None:
            steps.append({"ev": cur["ev"], "calls": calls[cur["mark"]:], "raised": type(ex).__name__})
    return {"steps": steps, "text": out.getvalue() if exc is None else None, "exc": exc, "calls": calls}


# -- the independent expectation ------------------------------------------------
def intended_names(events: list[dict]):
    """Document-order list of (element name, [(attr name, qname-target|None)], [qname targets in text])
    as the caller asked for them, from the abstract events alone."""
    out = []
    stack = []
    pending = None  # the element whose start tag has not been flushed yet

    def flush(is_nil: bool):
        # xsi:nil="true" is only kept on an element that turns out to be empty
        nonlocal pending
        if pending is not None and not is_nil:
            pending["attrs"].pop((XSI, "nil"), None)
        pending = None

    for e in events:
        if e["ev"] == "start":
            flush(False)
            rec = {"name": tuple(e["name"]), "attrs": {}, "qtext": []}
            out.append(rec)
            stack.append(rec)
            pending = rec
        elif e["ev"] == "end":
            flush(True)
            stack.pop()
        elif e["ev"] == "data":
            v = e["value"]
            flush(v["t"] == "none" or (v["t"] == "list" and not v["items"]))
        elif e["ev"] == "attr" and stack:
            v = e["value"]
            name = tuple(e["name"])
            target = None
            if v["t"] == "qname":
                target = [(v["uri"], v["local"])]
            elif v["t"] == "clark" and (name == (XSI, "type") or v.get("dt")):
                target = [(v["uri"], v["local"])]
            elif v["t"] == "list":
                target = [(x["uri"], x["local"]) if x["t"] == "qname" else None for x in v["items"]]
            stack[-1]["attrs"][name] = target
        if e["ev"] == "data" and stack:
            v = e["value"]
            if v["t"] == "qname":
                stack[-1]["qtext"].append([(v["uri"], v["local"])])
            elif v["t"] == "list" and any(x["t"] == "qname" for x in v["items"]):
                stack[-1]["qtext"].append([(x["uri"], x["local"]) if x["t"] == "qname" else None for x in v["items"]])
    return out


def check_names(text: str, events: list[dict]) -> str | None:
    """Decisive comparison for C03(a): returns None when the rendered text is well-formed and
    every element / attribute / QName value is in the namespace the caller asked for."""
    try:
        tree = infoset.parse(text)
    except Exception as ex:  # noqa: BLE001
        return f"output is not (namespace-)well-formed XML: {ex}"
    want = intended_names(events)
    got = list(infoset.elements(tree))
    if len(want) != len(got):
        return f"{len(got)} elements rendered, {len(want)} asked for"
    for w, g in zip(want, got):
        if tuple(g["name"]) != w["name"]:
            return f"element {w['name']} rendered as {g['name']}"
        if set(g["attrs"]) != set(w["attrs"]):
            return f"attributes of {w['name']}: asked {sorted(w['attrs'])} rendered {sorted(g['attrs'])}"
        for an, target in w["attrs"].items():
            if target:
                toks = (g["attrs"][an] or "").split()
                if len(toks) != len(target):
                    return f"attribute {an}: token count differs"
                for tok, tg in zip(toks, target):
                    if tg is not None and tg[0] != "" and infoset.resolve_qname(tok, g["nsmap"]) != tg:
                        return f"attribute {an} QName value {tok!r} resolves to {infoset.resolve_qname(tok, g['nsmap'])}, asked for {tg}"
        if w["qtext"]:
            # QName-valued text written while the tag was pending is the element's leading text
            txt = g["content"][0] if g["content"] and isinstance(g["content"][0], str) else ""
            toks = txt.split()
            flat = [t for grp in w["qtext"] for t in grp]
            if len(toks) >= len(flat):
                for tok, tg in zip(toks, flat):
                    if tg is not None and tg[0] != "" and infoset.resolve_qname(tok, g["nsmap"]) != tg:
                        return f"text QName value {tok!r} of {w['name']} resolves to {infoset.resolve_qname(tok, g['nsmap'])}, asked for {tg}"
    return None


def dumps(o) -> str:
    return json.dumps(o, separators=(",", ":"), ensure_ascii=True)
