"""Hand-written models whose nested objects are bound through DictDecoder.bind_best_dataclass (union of classes,
base class with a subclass, compound choice of classes), each with an object one level further down.  (No
`from __future__ import annotations` here: the type hints must be real objects.)"""
from dataclasses import dataclass, field
from typing import Dict, List, Optional, Union


@dataclass
class PLeaf:
    code: Optional[int] = field(default=None, metadata={"type": "Element"})
    tag: Optional[str] = field(default=None, metadata={"type": "Attribute"})


@dataclass
class PAlpha:
    leaf: Optional[PLeaf] = field(default=None, metadata={"type": "Element"})
    a: Optional[str] = field(default=None, metadata={"type": "Element"})


@dataclass
class PBeta:
    leaf: Optional[PLeaf] = field(default=None, metadata={"type": "Element"})
    b: Optional[int] = field(default=None, metadata={"type": "Element"})


@dataclass
class PBase:
    x: Optional[int] = field(default=None, metadata={"type": "Element"})


@dataclass
class PDerived(PBase):
    kid: Optional[PLeaf] = field(default=None, metadata={"type": "Element"})


@dataclass
class PRoot:
    plain: Optional[PLeaf] = field(default=None, metadata={"type": "Element"})
    item: Optional[Union[PAlpha, PBeta]] = field(default=None, metadata={"type": "Element"})
    base: Optional[PBase] = field(default=None, metadata={"type": "Element"})
    many: List[PBase] = field(default_factory=list, metadata={"type": "Element"})
    ch: List[Union[PAlpha, PBeta]] = field(default_factory=list, metadata={
        "type": "Elements", "choices": ({"name": "ca", "type": PAlpha}, {"name": "cb", "type": PBeta})})


DOCS = [
    {"plain": {"code": 1, "tag": "t"}, "item": {"leaf": {"code": 2}, "a": "x"}, "base": {"x": 1, "kid": {"code": 3}},
     "many": [{"x": 4}, {"x": 5, "kid": {"code": 6, "tag": "u"}}], "ch": [{"leaf": {"code": 7}, "b": 8}, {"leaf": {"code": 9}, "a": "y"}]},
    {"item": {"leaf": {"code": 2}, "b": 3}, "base": {"x": 1}},
]


@dataclass
class EnvLeaf:
    code: Optional[int] = field(default=None, metadata={"type": "Element"})


@dataclass
class EnvHolder:
    """Fields whose dictionary form uses the ENVELOPES {qname, value, type} (derived element) and
    {qname, text, tail, children, attributes} (generic element): xs:anyType, a wildcard, a compound field."""

    v: Optional[object] = field(default=None, metadata={"type": "Element"})
    w: List[object] = field(default_factory=list, metadata={"type": "Wildcard"})
    c: List[object] = field(default_factory=list, metadata={"type": "Elements", "choices": ({"name": "ci", "type": int}, {"name": "cl", "type": EnvLeaf})})


ENV_DOCS = [
    {"v": {"qname": "v", "value": {"code": 1}, "type": "EnvLeaf"}, "w": [{"qname": "w", "value": 5, "type": None}, {"qname": "x", "text": "t", "tail": None, "children": [], "attributes": {}}],
     "c": [{"qname": "ci", "value": 4, "type": None}, {"qname": "cl", "value": {"code": 2}, "type": None}]},
    {"v": {"qname": "v", "value": 7, "type": None}, "c": [{"code": 3}, 6]},
]


@dataclass
class WildOther:
    """A ##other wildcard next to a typed element: the memo of XmlVar.match_namespace hangs off metadata that the
    shared context caches (C19)."""

    class Meta:
        namespace = "urn:wild"

    head: Optional[str] = field(default=None, metadata={"type": "Element"})
    ext: List[object] = field(default_factory=list, metadata={"type": "Wildcard", "namespace": "##other"})


@dataclass
class AnyHolder:
    """xs:anyType elements (fields typed object, NOT wildcards) holding plain text: a value without xsi:type binds
    to a str whatever white space surrounds the element (C09)."""

    v: Optional[object] = field(default=None, metadata={"type": "Element"})
    w: List[object] = field(default_factory=list, metadata={"type": "Element"})
    last: Optional[str] = field(default=None, metadata={"type": "Element"})


@dataclass
class AnyNil:
    """the same with NILLABLE fields: an empty element binds to None, not to the empty string"""

    v: Optional[object] = field(default=None, metadata={"type": "Element", "nillable": True})
    w: List[object] = field(default_factory=list, metadata={"type": "Element", "nillable": True})
    rest: List[object] = field(default_factory=list, metadata={"type": "Wildcard", "namespace": "##other", "nillable": True})


@dataclass
class WildBoth:
    """A ##other element wildcard and a ##other attribute wildcard next to a typed element (C10 / C11: the verdict
    for one qualified name says nothing about the same local name in another namespace)."""

    class Meta:
        namespace = "urn:wild"

    head: Optional[str] = field(default=None, metadata={"type": "Element"})
    ext: List[object] = field(default_factory=list, metadata={"type": "Wildcard", "namespace": "##other"})
    attrs: Dict[str, str] = field(default_factory=dict, metadata={"type": "Attributes", "namespace": "##other"})


@dataclass
class WildTwo:
    """Two namespace-restricted wildcards: ##targetNamespace and ##other."""

    class Meta:
        namespace = "urn:wild"

    own: List[object] = field(default_factory=list, metadata={"type": "Wildcard", "namespace": "##targetNamespace"})
    other: List[object] = field(default_factory=list, metadata={"type": "Wildcard", "namespace": "##other"})


# -- one model per field kind of spec/DictShape.tla -------------------------------------------------------------
from enum import Enum as _Enum


class SColor(_Enum):
    RED = "s"
    BLUE = "blue"


@dataclass
class SLeaf:
    v: Optional[int] = field(default=None, metadata={"type": "Element"})


@dataclass
class SNil:
    class Meta:
        nillable = True

    v: Optional[int] = field(default=None, metadata={"type": "Element"})
    a: Optional[str] = field(default=None, metadata={"type": "Attribute"})


@dataclass
class SOther:
    w: Optional[str] = field(default=None, metadata={"type": "Element"})
    v: Optional[int] = field(default=None, metadata={"type": "Element"})


@dataclass
class H0:
    a: str = field(metadata={"type": "Element"})


@dataclass
class H1(H0):
    b: str = field(metadata={"type": "Element"})


@dataclass
class H2(H1):
    c: str = field(metadata={"type": "Element"})


@dataclass
class H3(H2):
    d: str = field(metadata={"type": "Element"})


from xml.etree.ElementTree import QName as _QName


def _shape_model(name, hint, meta, default=None, factory=None, required=False):
    import dataclasses

    kw = {"metadata": meta}
    if factory is not None:
        kw["default_factory"] = factory
    elif not required:
        kw["default"] = default
    return dataclasses.make_dataclass(name, [("x", hint, field(**kw))], kw_only=required)


class SAxes(_Enum):
    """an enumeration of xs:list values (what the generator writes for a restriction of a list type)"""
    P = (5, 6)
    T = (5, 6, 7)


SHAPE_MODELS = {
    "wrappedInt": _shape_model("KWrappedInt", Optional[int], {"type": "Element", "wrapper": "w"}),
    "wrappedIntList": _shape_model("KWrappedIntList", List[int], {"type": "Element", "wrapper": "w"}, factory=list),
    "wrappedModel": _shape_model("KWrappedModel", Optional[SLeaf], {"type": "Element", "wrapper": "w"}),
    "enumTokens": _shape_model("KEnumTokens", Optional[SAxes], {"type": "Element"}),
    "int": _shape_model("KInt", Optional[int], {"type": "Element"}),
    "nillableInt": _shape_model("KNilInt", Optional[int], {"type": "Element", "nillable": True}),
    "requiredInt": _shape_model("KReqInt", int, {"type": "Element", "required": True}, required=True),
    "intList": _shape_model("KIntList", List[int], {"type": "Element"}, factory=list),
    "tokens": _shape_model("KTokens", List[int], {"type": "Element", "tokens": True}, factory=list),
    "tokenLists": _shape_model("KTokenLists", List[List[int]], {"type": "Element", "tokens": True}, factory=list),
    "model": _shape_model("KModel", Optional[SLeaf], {"type": "Element"}),
    "modelList": _shape_model("KModelList", List[SLeaf], {"type": "Element"}, factory=list),
    "modelUnion": _shape_model("KModelUnion", Optional[Union[SLeaf, SOther]], {"type": "Element"}),
    "anyType": _shape_model("KAnyType", Optional[object], {"type": "Element"}),
    "wildcardList": _shape_model("KWildcard", List[object], {"type": "Wildcard", "namespace": "##any"}, factory=list),
    "attributes": _shape_model("KAttributes", Dict[str, str], {"type": "Attributes"}, factory=dict),
    "primUnion": _shape_model("KPrimUnion", Optional[Union[int, str]], {"type": "Element"}),
    "compound": _shape_model("KCompound", List[Union[int, SLeaf]], {"type": "Elements", "choices": ({"name": "n", "type": int}, {"name": "leaf", "type": SLeaf})}, factory=list),
    "enum": _shape_model("KEnum", Optional[SColor], {"type": "Element"}),
    "hierarchy": _shape_model("KHierarchy", Optional[H0], {"type": "Element"}),
    "hierarchyList": _shape_model("KHierarchyList", List[H0], {"type": "Element"}, factory=list),
    "qname": _shape_model("KQNameJ", Optional[_QName], {"type": "Element"}),
    "compoundIntBool": _shape_model("KCompoundIntBool", List[Union[int, bool]], {"type": "Elements", "choices": ({"name": "n", "type": int}, {"name": "flag", "type": bool})}, factory=list),
}

SHAPE_VALUES = {
    "null": None, "true": True, "int": 5, "float": 1.5, "str": "s", "numstr": "5", "emptyList": [], "intList": [5, 6], "strList": ["s", "t"],
    "listOfIntLists": [[5], [6, 7]], "listOfEmptyList": [[]], "emptyObj": {}, "leafObj": {"v": 1}, "unknownKeyObj": {"zz": 1},
    "listOfLeafObj": [{"v": 1}, {"v": 2}], "listOfEmptyObj": [{}], "listOfNull": [None], "anyElementObj": {"qname": "q", "text": "t", "tail": None, "children": [], "attributes": {}},
    "derivedObj": {"qname": "q", "value": 5, "type": None}, "strDict": {"a": "1", "b": "2"}, "nestedList3": [[[1]]],
    "h0Obj": {"a": "p"}, "h1Obj": {"a": "p", "b": "q"}, "h2Obj": {"a": "p", "b": "q", "c": "r"}, "h3Obj": {"a": "p", "b": "q", "c": "r", "d": "s"},
    "derivedTypedObj": {"qname": "leaf", "value": {"v": 1}, "type": "SLeaf"},
    "listOfDerived": [{"qname": "leaf", "value": {"v": 1}, "type": "SLeaf"}, {"qname": "n", "value": 5, "type": None}],
    "clarkStr": "{urn:q}n", "clarkBrokenStr": "{urn:q", "boolList": [True, False], "intBoolList": [5, True, 0, False],
    "listOfHObjs": [{"a": "p", "b": "q", "c": "r"}, {"a": "p"}, {"a": "p", "b": "q", "c": "r", "d": "s"}, {"a": "p", "b": "q"}],
}


def shape_wrappers(model):
    """The model as the type of a field of a nested object / of objects in a list (positions of DictShape.tla)."""
    import dataclasses

    nested = dataclasses.make_dataclass("Nested" + model.__name__, [("inner", Optional[model], field(default=None, metadata={"type": "Element"}))])
    inlist = dataclasses.make_dataclass("InList" + model.__name__, [("items", List[model], field(default_factory=list, metadata={"type": "Element"}))])
    return nested, inlist


# -- inheritance across namespaces (C03 inherited_namespaces) --------------------------------------------
@dataclass
class NBase:
    class Meta:
        namespace = "urn:base"

    name: Optional[str] = field(default=None, metadata={"type": "Element"})
    tags: List[str] = field(default_factory=list, metadata={"type": "Element", "name": "tag", "wrapper": "tags"})
    code: Optional[str] = field(default=None, metadata={"type": "Attribute", "namespace": "urn:base"})

@dataclass
class NMid(NBase):
    class Meta:
        namespace = "urn:mid"

    level: Optional[int] = field(default=None, metadata={"type": "Element"})

@dataclass
class NLeaf(NMid):
    class Meta:
        namespace = "urn:leaf"

    extra: Optional[str] = field(default=None, metadata={"type": "Element"})
    name2: Optional[str] = field(default=None, metadata={"type": "Element", "namespace": "urn:own"})



@dataclass
class NPlain(NMid):
    """NO Meta of its own: the Meta class is not inherited (docs/models/classes.md), so this class is called NPlain and
    has no namespace, while the fields it inherits stay where their classes declared them"""

    more: Optional[str] = field(default=None, metadata={"type": "Element"})


@dataclass
class NHolder:
    class Meta:
        namespace = "urn:base"

    item: Optional[NBase] = field(default=None, metadata={"type": "Element"})


@dataclass
class UThenInt:
    """a union-of-models element (its candidates are tried under a stricter configuration of their own) with typed
    values around it: what the trial needs must not reach the values outside it, nor the next document"""

    before: Optional[int] = field(default=None, metadata={"type": "Element"})
    u: Optional[Union[SLeaf, SOther]] = field(default=None, metadata={"type": "Element"})
    n: Optional[int] = field(default=None, metadata={"type": "Element"})
    a: Optional[int] = field(default=None, metadata={"type": "Attribute"})


class QCode(_Enum):
    SENDER = _QName("urn:codes", "Sender")
    LOCAL = _QName("Receiver")
    OTHER = _QName("urn:other", "x-1")


@dataclass
class QFault:
    class Meta:
        name = "Fault"
        namespace = "urn:codes"

    code: Optional[QCode] = field(default=None, metadata={"type": "Element"})
    sub: List[QCode] = field(default_factory=list, metadata={"type": "Element"})
    toks: List[QCode] = field(default_factory=list, metadata={"type": "Element", "tokens": True})
    kind: Optional[QCode] = field(default=None, metadata={"type": "Attribute"})


@dataclass
class NilChoices:
    """a compound field whose FIRST nillable choice is a token list (default_factory=list, as generated code has it) and
    whose second is a plain nillable value: None belongs to the plain one, an empty list to the token list"""

    vals: List[Union[None, int, List[str]]] = field(default_factory=list, metadata={
        "type": "Elements", "choices": ({"name": "toks", "type": List[str], "tokens": True, "nillable": True, "default_factory": list},
                                        {"name": "n", "type": Optional[int], "nillable": True})})


@dataclass
class TwoItems:
    """two INNER classes called Item (same qualified name, different fields)"""

    @dataclass
    class Order:
        @dataclass
        class Item:
            sku: Optional[str] = field(default=None, metadata={"type": "Element"})
            note: Optional[str] = field(default=None, metadata={"type": "Element"})

        item: Optional["TwoItems.Order.Item"] = field(default=None, metadata={"type": "Element"})

    @dataclass
    class Invoice:
        @dataclass
        class Item:
            sku: Optional[str] = field(default=None, metadata={"type": "Element"})

        item: Optional["TwoItems.Invoice.Item"] = field(default=None, metadata={"type": "Element"})

    order: Optional["TwoItems.Order"] = field(default=None, metadata={"type": "Element"})
    invoice: Optional["TwoItems.Invoice"] = field(default=None, metadata={"type": "Element"})


TWO_ITEMS_DOCS = [{"order": {"item": {"sku": "a", "note": "n"}}, "invoice": {"item": {"sku": "b"}}}]
