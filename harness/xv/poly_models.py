"""Hand-written models whose nested objects are bound through DictDecoder.bind_best_dataclass (union of classes,
base class with a subclass, compound choice of classes), each with an object one level further down.  (No
`from __future__ import annotations` here: the type hints must be real objects.)"""
from dataclasses import dataclass, field
from typing import Dict, List, Optional, Union


@dataclass
class PLeaf:
    code: Optional[int] = field(default=None, metadata={"type": "Element"})
    tag: Optional[str] = field(default=None, metadata={"type": "Attribute"})


@dataclass
class PAlpha:
    leaf: Optional[PLeaf] = field(default=None, metadata={"type": "Element"})
    a: Optional[str] = field(default=None, metadata={"type": "Element"})


@dataclass
class PBeta:
    leaf: Optional[PLeaf] = field(default=None, metadata={"type": "Element"})
    b: Optional[int] = field(default=None, metadata={"type": "Element"})


@dataclass
class PBase:
    x: Optional[int] = field(default=None, metadata={"type": "Element"})


@dataclass
class PDerived(PBase):
    kid: Optional[PLeaf] = field(default=None, metadata={"type": "Element"})


@dataclass
class PRoot:
    plain: Optional[PLeaf] = field(default=None, metadata={"type": "Element"})
    item: Optional[Union[PAlpha, PBeta]] = field(default=None, metadata={"type": "Element"})
    base: Optional[PBase] = field(default=None, metadata={"type": "Element"})
    many: List[PBase] = field(default_factory=list, metadata={"type": "Element"})
    ch: List[Union[PAlpha, PBeta]] = field(default_factory=list, metadata={
        "type": "Elements", "choices": ({"name": "ca", "type": PAlpha}, {"name": "cb", "type": PBeta})})


DOCS = [
    {"plain": {"code": 1, "tag": "t"}, "item": {"leaf": {"code": 2}, "a": "x"}, "base": {"x": 1, "kid": {"code": 3}},
     "many": [{"x": 4}, {"x": 5, "kid": {"code": 6, "tag": "u"}}], "ch": [{"leaf": {"code": 7}, "b": 8}, {"leaf": {"code": 9}, "a": "y"}]},
    {"item": {"leaf": {"code": 2}, "b": 3}, "base": {"x": 1}},
]


@dataclass
class WildOther:
    """A ##other wildcard next to a typed element: the memo of XmlVar.match_namespace hangs off metadata that the
    shared context caches (C19)."""

    class Meta:
        namespace = "urn:wild"

    head: Optional[str] = field(default=None, metadata={"type": "Element"})
    ext: List[object] = field(default_factory=list, metadata={"type": "Wildcard", "namespace": "##other"})


@dataclass
class AnyHolder:
    """xs:anyType elements (fields typed object, NOT wildcards) holding plain text: a value without xsi:type binds
    to a str whatever white space surrounds the element (C09)."""

    v: Optional[object] = field(default=None, metadata={"type": "Element"})
    w: List[object] = field(default_factory=list, metadata={"type": "Element"})
    last: Optional[str] = field(default=None, metadata={"type": "Element"})


@dataclass
class WildBoth:
    """A ##other element wildcard and a ##other attribute wildcard next to a typed element (C10 / C11: the verdict
    for one qualified name says nothing about the same local name in another namespace)."""

    class Meta:
        namespace = "urn:wild"

    head: Optional[str] = field(default=None, metadata={"type": "Element"})
    ext: List[object] = field(default_factory=list, metadata={"type": "Wildcard", "namespace": "##other"})
    attrs: Dict[str, str] = field(default_factory=dict, metadata={"type": "Attributes", "namespace": "##other"})


@dataclass
class WildTwo:
    """Two namespace-restricted wildcards: ##targetNamespace and ##other."""

    class Meta:
        namespace = "urn:wild"

    own: List[object] = field(default_factory=list, metadata={"type": "Wildcard", "namespace": "##targetNamespace"})
    other: List[object] = field(default_factory=list, metadata={"type": "Wildcard", "namespace": "##other"})
