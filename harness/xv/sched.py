"""A deterministic scheduler for real threads, built on sys.settrace.

Worker threads run real library code.  Inside a chosen set of functions every source line
that matches a *marker* (a regex naming an access to shared state) is a yield point: the
thread parks there, before executing the line, and the scheduler decides which parked
thread executes its marked line and runs on to its next yield point.  Exactly one worker
runs at any time, so the recorded order IS the execution order - no clocks, no merging.

Policies:
  follow(schedule)  - force a given sequence of (thread, label) pairs (TLC-generated)
  choices(seq)      - take thread choices from a list (systematic exploration), then a
                      non-preemptive default
"""
from __future__ import annotations

import inspect
import re
import sys
import threading
from dataclasses import dataclass, field


@dataclass
class Marker:
    func: object  # function object whose code is traced
    patterns: list  # [(regex, label)]


class MarkerSet:
    def __init__(self, markers: list[Marker]):
        self.by_code: dict = {}
        self.missing: list = []
        for m in markers:
            code = m.func.__code__
            try:
                lines, start = inspect.getsourcelines(m.func)
            except OSError:
                self.missing.append((m.func.__qualname__, "no source"))
                continue
            table = {}
            found = set()
            for off, text in enumerate(lines):
                for rx, label in m.patterns:
                    if re.search(rx, text):
                        table[start + off] = label
                        found.add(label)
                        break
            for rx, label in m.patterns:
                if label not in found:
                    self.missing.append((m.func.__qualname__, label))
            self.by_code[code] = table
            # functions and comprehensions nested in the marked function run under their own code objects; the table
            # holds absolute line numbers, so it serves them too
            stack = [code]
            while stack:
                for const in stack.pop().co_consts:
                    if hasattr(const, "co_consts"):
                        self.by_code.setdefault(const, table)
                        stack.append(const)

    def label(self, code, lineno):
        t = self.by_code.get(code)
        return t.get(lineno) if t else None


class Deadline(Exception):
    pass


@dataclass
class Decision:
    enabled: list  # [(tid, label)] parked threads at this point
    chosen: int
    current: int | None  # thread that ran last (None at the start)


@dataclass
class RunResult:
    results: dict = field(default_factory=dict)  # tid -> value | exception
    trace: list = field(default_factory=list)  # [(tid, label)] executed yield points
    decisions: list = field(default_factory=list)
    diverged: str | None = None


class Scheduler:
    def __init__(self, markers: MarkerSet, timeout: float = 20.0):
        self.m = markers
        self.timeout = timeout

    def run(self, bodies: list, policy) -> RunResult:
        """bodies: list of zero-arg callables, one per worker thread."""
        n = len(bodies)
        res = RunResult()
        parked: dict[int, str] = {}
        finished: set[int] = set()
        sems = [threading.Semaphore(0) for _ in range(n)]
        ctl = threading.Semaphore(0)
        abort = {"flag": False}
        tl = threading.local()

        def yield_point(tid, label):
            parked[tid] = label
            ctl.release()
            sems[tid].acquire()
            if abort["flag"]:
                raise Deadline()

        def make_tracer(tid):
            def local(frame, event, arg):
                if event == "line":
                    lab = self.m.label(frame.f_code, frame.f_lineno)
                    if lab is not None:
                        yield_point(tid, lab)
                return local

            def glob(frame, event, arg):
                if event == "call" and frame.f_code in self.m.by_code:
                    # the 'def' line itself is never a marker; trace lines of this frame
                    return local
                return None

            return glob

        def worker(tid):
            tl.tid = tid
            sys.settrace(make_tracer(tid))
            try:
                # initial parking so that the scheduler controls the very first access
                yield_point(tid, "begin")
                res.results[tid] = ("ok", bodies[tid]())
            except Deadline:
                res.results[tid] = ("aborted", None)
            except BaseException as ex:  # noqa: BLE001
                res.results[tid] = ("exc", ex)
            finally:
                sys.settrace(None)
                finished.add(tid)
                parked.pop(tid, None)
                ctl.release()

        threads = [threading.Thread(target=worker, args=(i,), daemon=True) for i in range(n)]
        for t in threads:
            t.start()
        # wait until every thread is parked at "begin"
        for _ in range(n):
            if not ctl.acquire(timeout=self.timeout):
                abort["flag"] = True
                res.diverged = "startup timeout"
                return res
        current = None
        while len(finished) < n:
            enabled = sorted((tid, lab) for tid, lab in parked.items())
            if not enabled:
                break
            chosen = policy(enabled, current, res)
            if chosen is None or chosen not in parked:
                res.diverged = res.diverged or f"policy chose {chosen}, parked={enabled}"
                chosen = enabled[0][0]
            res.decisions.append(Decision(enabled, chosen, current))
            lab = parked.pop(chosen)
            if lab != "begin":
                res.trace.append((chosen, lab))
            current = chosen
            sems[chosen].release()
            if not ctl.acquire(timeout=self.timeout):
                abort["flag"] = True
                res.diverged = f"thread {chosen} did not reach a yield point within {self.timeout}s (hang?)"
                for s in sems:
                    s.release()
                break
        for t in threads:
            t.join(timeout=2)
        return res


# -- policies ---------------------------------------------------------------------
def follow(schedule: list):
    """Force a schedule of (tid, label); 'begin' parkings are passed through silently."""
    pos = {"i": 0}

    def policy(enabled, current, res):
        labels = dict(enabled)
        # release threads that are only at their initial parking when the schedule needs them
        if pos["i"] >= len(schedule):
            return enabled[0][0]
        tid, want = schedule[pos["i"]]
        if tid not in labels:
            res.diverged = res.diverged or f"step {pos['i']}: thread {tid} not parked (enabled={enabled})"
            return enabled[0][0]
        if labels[tid] == "begin":
            return tid  # let it run to its first real yield point; schedule position unchanged
        if labels[tid] != want:
            res.diverged = res.diverged or f"step {pos['i']}: thread {tid} at {labels[tid]!r}, schedule says {want!r}"
        pos["i"] += 1
        return tid

    return policy


def choices(seq: list, record: list | None = None):
    """Thread choices from `seq` (indices into the sorted enabled list restricted to real
    alternatives); afterwards non-preemptive: keep running the current thread if it is enabled,
    else the lowest thread id."""
    pos = {"i": 0}

    def policy(enabled, current, res):
        tids = [t for t, _ in enabled]
        if pos["i"] < len(seq):
            c = seq[pos["i"]]
            pos["i"] += 1
            if c in tids:
                return c
        if current in tids:
            return current
        return tids[0]

    return policy


def explore(run_once, max_preemptions: int, limit: int):
    """Systematic bounded-preemption exploration (stateless search).

    run_once(choice_seq) -> RunResult.  Yields every RunResult.  A schedule is identified by
    the full sequence of chosen thread ids; children differ from their parent at one decision
    point beyond the parent's forced prefix."""
    import heapq

    # schedules with FEWER preemptions first (iterative context bounding: most defects need one well-placed switch);
    # among equals the most recently found alternative first, as in a depth-first search
    seen = set()
    work = [(0, 0, [])]
    tick = 0
    count = 0
    while work and count < limit:
        _cost, _tick, prefix = heapq.heappop(work)
        r = run_once(prefix)
        key = tuple(d.chosen for d in r.decisions)
        if key in seen:
            continue
        seen.add(key)
        count += 1
        yield r
        # preemptions used along this run
        used = 0
        pre = []
        for d in r.decisions:
            pre.append(used)
            if d.current is not None and d.chosen != d.current and any(t == d.current for t, _ in d.enabled):
                used += 1
        for k in range(len(prefix), len(r.decisions)):
            d = r.decisions[k]
            for tid, _lab in d.enabled:
                if tid == d.chosen:
                    continue
                cost = 1 if (d.current is not None and any(t == d.current for t, _ in d.enabled) and tid != d.current) else 0
                if pre[k] + cost <= max_preemptions:
                    tick -= 1
                    heapq.heappush(work, (pre[k] + cost, tick, [x.chosen for x in r.decisions[:k]] + [tid]))
