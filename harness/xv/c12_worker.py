"""Worker for C12: runs under a given PYTHONHASHSEED and prints one JSON document.

  graphs <file>   : real strongly_connected_components on TLC's graphs vs the declarative SCCs
  gen <spec.json> : generate code from a source set with a configuration, print sha256 per file
"""
from __future__ import annotations

import hashlib
import json
import os
import random
import sys


def graphs(path):
    from xsdata.utils.graphs import strongly_connected_components

    rnd = random.Random(int(os.environ.get("PYTHONHASHSEED", "0")))
    bad = []
    data = json.load(open(path))
    for g in data:
        edges = {}
        keys = list(g["edges"])
        rnd.shuffle(keys)
        for k in keys:
            nb = [f"c{n}" for n in g["edges"][k]]
            rnd.shuffle(nb)
            edges[f"c{k}"] = nb
        got = {frozenset(s) for s in strongly_connected_components(edges)}
        want = {frozenset(f"c{n}" for n in s) for s in g["sccs"]}
        if got != want:
            bad.append({"edges": edges, "got": sorted(map(sorted, got)), "want": sorted(map(sorted, want))})
    print(json.dumps({"checked": len(data), "bad": bad[:10]}))


def gen(path):
    from xsdata.models.config import DocstringStyle, StructureStyle

    from . import codegen_run as cg

    spec = json.load(open(path))
    if spec.get("perturb"):
        junk = [object() for _ in range(spec["perturb"])]  # shift object addresses / id() order
        junk2 = [str(i) * 3 for i in range(spec["perturb"] // 3)]
    opts = {}
    for k, v in spec["options"].items():
        if k == "structure_style":
            v = StructureStyle(v)
        elif k == "docstring_style":
            v = DocstringStyle(v)
        opts[k] = v
    files = {}
    for name, src in spec["files"].items():
        files[name] = open(src, "rb").read() if src.startswith("/") else src
    out = {}
    runs = []
    for _ in range(spec.get("repeat", 1)):
        g = cg.generate(files, spec["main"], options=opts, pkg=spec.get("pkg", "xvc12pkg"))
        if g.error is not None:
            runs.append({"error": f"{type(g.error).__name__}: {g.error}"})
        else:
            runs.append({k: hashlib.sha256(v.encode()).hexdigest() for k, v in sorted(g.files.items())})
        g.cleanup()
    print(json.dumps({"runs": runs}))


def cachegen(path):
    """The --cache option: one work directory, the same source FILES; an uncached run, then cached runs that list the
    sources in another order and in the same order.  sha256 of every generated file per run."""
    import shutil
    import tempfile
    import warnings
    from pathlib import Path

    from xsdata.codegen.transformer import ResourceTransformer
    from xsdata.models.config import GeneratorConfig, StructureStyle
    from xsdata.utils import package as _package

    spec = json.load(open(path))
    work = tempfile.mkdtemp(prefix="xv-c12c-")
    cache_dir = tempfile.mkdtemp(prefix="xv-c12t-")
    tempfile.tempdir = cache_dir            # the cache files live in tempfile.gettempdir()
    cwd = os.getcwd()
    runs = []
    try:
        os.chdir(work)
        sys.path.insert(0, work)
        for name, text in spec["files"].items():
            Path(work, name).write_text(text, encoding="utf-8")
        for k, (order, cache) in enumerate(spec["runs"]):
            _package.package_path.cache_clear()
            _package.module_path.cache_clear()
            pkg = "xvc12c"
            shutil.rmtree(Path(work, pkg), ignore_errors=True)
            cfg = GeneratorConfig()
            cfg.output.package = pkg
            cfg.output.structure_style = StructureStyle(spec["style"])
            with warnings.catch_warnings():
                warnings.simplefilter("ignore")
                try:
                    ResourceTransformer(config=cfg).process([Path(work, m).as_uri() for m in order], cache=cache)
                    runs.append({str(p.relative_to(work)): hashlib.sha256(p.read_bytes()).hexdigest() for p in sorted(Path(work, pkg).rglob("*.py"))})
                except BaseException as ex:  # noqa: BLE001
                    runs.append({"error": f"{type(ex).__name__}: {ex}"})
    finally:
        os.chdir(cwd)
        shutil.rmtree(work, ignore_errors=True)
        shutil.rmtree(cache_dir, ignore_errors=True)
    print(json.dumps({"runs": runs}))


NAMES = {"1": "Customer", "2": "Invoice", "3": "Shipment", "4": "Order"}


def graph_xsd(g) -> str:
    """A dependency graph of Order.tla as a schema: one complex type per class, one optional element per edge."""
    out = ['<xs:schema xmlns:xs="http://www.w3.org/2001/XMLSchema" xmlns="urn:g" targetNamespace="urn:g" elementFormDefault="qualified">']
    for k in sorted(g["edges"]):
        out.append(f'<xs:complexType name="{NAMES[k]}"><xs:sequence>')
        for n in g["edges"][k]:
            out.append(f'<xs:element name="{NAMES[str(n)].lower()}" type="{NAMES[str(n)]}" minOccurs="0"/>')
        out.append(f'<xs:element name="v" type="xs:string" minOccurs="0"/></xs:sequence></xs:complexType>')
    out.append('<xs:element name="doc" type="Order"/></xs:schema>' if "4" in g["edges"] else '<xs:element name="doc" type="Customer"/></xs:schema>')
    return "".join(out)


def graphgen(path):
    """Whole generations, one per TLC graph, with a cluster structure style; sha256 of every file."""
    from xsdata.models.config import StructureStyle

    from . import codegen_run as cg

    spec = json.load(open(path))
    res = []
    for i, g in enumerate(spec["graphs"]):
        style = StructureStyle(spec["styles"][i % len(spec["styles"])])
        gen_ = cg.generate({"g.xsd": graph_xsd(g)}, ["g.xsd"], options={"structure_style": style}, pkg=f"xvc12g{i}")
        if gen_.error is not None:
            res.append({"error": f"{type(gen_.error).__name__}: {gen_.error}"})
        else:
            res.append({k: hashlib.sha256(v.encode()).hexdigest() for k, v in sorted(gen_.files.items())})
        gen_.cleanup()
    print(json.dumps({"runs": res}))


if __name__ == "__main__":
    {"graphs": graphs, "gen": gen, "graphgen": graphgen, "cachegen": cachegen}[sys.argv[1]](sys.argv[2])
    sys.stdout.flush()
    os._exit(0)
