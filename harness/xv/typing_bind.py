"""Binding for spec/Typing.tla: every documented (XML type, annotation form, leaf type) declaration is built by the
real metadata builder and an instance is sent through the XML (C01) or the dictionary / JSON (C04) round trip."""
from __future__ import annotations

import dataclasses
import json
import warnings
from decimal import Decimal
from enum import Enum
from typing import List, Optional, Tuple, Union
from xml.etree.ElementTree import QName

from xsdata.exceptions import XmlContextError
from xsdata.formats.dataclass.context import XmlContext
from xsdata.formats.dataclass.parsers import DictDecoder, JsonParser, XmlParser
from xsdata.formats.dataclass.parsers.config import ParserConfig
from xsdata.formats.dataclass.parsers.handlers import LxmlEventHandler, XmlEventHandler
from xsdata.formats.dataclass.serializers import DictEncoder, JsonSerializer, XmlSerializer
from xsdata.formats.dataclass.serializers.config import SerializerConfig
from xsdata.formats.dataclass.serializers.writers import LxmlEventWriter, XmlEventWriter
from xsdata.models.datatype import XmlDate, XmlDuration


class TColor(Enum):
    A = "a"
    B = "bee"


LEAF = {
    "str": (str, ["ab", "x-y"]), "int": (int, [5, -7]), "float": (float, [1.5, -0.25]), "bool": (bool, [True, False]),
    "Decimal": (Decimal, [Decimal("1.50"), Decimal("-2.25")]), "QName": (QName, [QName("{urn:q}n"), QName("m")]),
    "XmlDate": (XmlDate, [XmlDate(2020, 2, 29), XmlDate(1999, 12, 31)]), "XmlDuration": (XmlDuration, [XmlDuration("P1DT2H"), XmlDuration("PT5S")]),
    "bytes16": (bytes, [b"\x01\xff", b"k"]), "bytes64": (bytes, [b"\x01\xff", b"key"]), "Enum": (TColor, [TColor.A, TColor.B]),
}
OTHER_STR = "x y"      # a string no other leaf type has a lexical form for (not a number, hex, base64, date - and, with the blank, not a QName)


def annotation(form, leaf):
    tp = LEAF[leaf][0]
    other = int if tp is str else str
    return {
        "bare": tp, "optional": Optional[tp], "list": List[tp], "optionalList": Optional[List[tp]], "listUnion": List[Union[tp, other]],
        "tokensList": List[tp], "listOfTokens": List[List[tp]], "tuple": Tuple[tp, ...], "optionalTuple": Optional[Tuple[tp, ...]],
        "tupleUnion": Tuple[Union[tp, other], ...], "tokensTuple": Tuple[tp, ...], "tupleOfTokens": Tuple[Tuple[tp, ...], ...],
        "union": Union[tp, other], "optionalUnion": Optional[Union[tp, other]], "pep585List": list[tp], "pep604Optional": tp | None,
        "pep604Union": tp | other,
        "unionNumeric": Union[str, int, float], "listUnionNumeric": List[Union[str, int, float]],
    }[form]


def values(form, leaf):
    v0, v1 = LEAF[leaf][1]
    o = 7 if LEAF[leaf][0] is str else OTHER_STR
    t = tuple
    return {
        "bare": [v0, v1], "optional": [None, v0], "list": [[], [v0, v1, v0]], "optionalList": [None, [v0]], "listUnion": [[v0, o, v1], [o]],
        "tokensList": [[v0, v1], [v1]], "listOfTokens": [[[v0], [v0, v1]], []], "tuple": [(), (v0, v1, v0)], "optionalTuple": [None, (v0,)],
        "tupleUnion": [(v0, o, v1)], "tokensTuple": [(v0, v1), (v1,)], "tupleOfTokens": [((v0,), (v0, v1)), ()],
        "union": [v0, o], "optionalUnion": [None, v0, o], "pep585List": [[], [v0, v1]], "pep604Optional": [None, v1], "pep604Union": [v1, o],
        # every member type with a value only IT can hold: a non-integral float, an int, a string that is no number
        "unionNumeric": [2.5, 2, -0.25, "x y", 1e300], "listUnionNumeric": [[2.5, 2, "x y", -7, 0.5]],
    }[form]


def model(case):
    form, leaf, xt = case["form"], case["leaf"], case["xmlType"]
    md = {"type": xt}
    if case["tokens"]:
        md["tokens"] = True
    if leaf.startswith("bytes"):
        md["format"] = "base16" if leaf == "bytes16" else "base64"
    kw = {"metadata": md}
    if case["nullable"]:
        kw["default"] = None
    elif case["repeating"] or case["tokens"]:
        kw["default_factory"] = tuple if case["tuple"] else list
    name = f"T{xt}{form[0].upper()}{form[1:]}{leaf}"
    return dataclasses.make_dataclass(name, [("x", annotation(form, leaf), dataclasses.field(**kw))], frozen=case["tuple"])


def same(a, b):
    """dataclass equality plus: containers keep their kind (a tuple does not come back as a list), leaves their type."""
    if type(a) is not type(b):
        return False
    if isinstance(a, (list, tuple)):
        return len(a) == len(b) and all(same(p, q) for p, q in zip(a, b))
    if dataclasses.is_dataclass(a):
        return all(same(getattr(a, f.name), getattr(b, f.name)) for f in dataclasses.fields(a))
    return a == b


def cases(ctx):
    res = ctx.tlc("MC_Typing", "run.cfg", workers=1,
                  extra_files={"run.cfg": "SPECIFICATION Spec\nINVARIANT InvTableSane\nCONSTRAINT Emit\nCHECK_DEADLOCK FALSE\n"},
                  label="MC_Typing XML types x annotation forms x leaf types", tags=("TYPING",), timeout=1500)
    out, seen = [], set()
    for _t, c in res.printed:
        key = (c["xmlType"], c["form"], c["leaf"])
        if key not in seen:
            seen.add(key)
            out.append(c)
    return out


def run_matrix(ctx, want: str):
    xctx = XmlContext()
    n = refused = 0
    for case in cases(ctx):
        if not case["documented"]:
            continue
        if case["form"] in ("unionNumeric", "listUnionNumeric") and case["leaf"] != "int":
            continue        # these forms do not depend on the leaf type: once is enough
        info = {"xml_type": case["xmlType"], "form": case["form"], "leaf": case["leaf"]}
        try:
            clazz = model(case)
            xctx.build(clazz)
        except XmlContextError as ex:
            refused += 1
            ctx.case(("typing-build", want, case["xmlType"], case["form"], case["leaf"]))
            ctx.violation(f"documented declaration refused: {case['xmlType']} field annotated {annotation(case['form'], case['leaf'])}: {ex}", info)
            continue
        for k, v in enumerate(values(case["form"], case["leaf"])):
            obj = clazz(x=v)
            info2 = dict(info, value=repr(v))
            if want == "C01":
                for wname, writer in (("native", XmlEventWriter), ("lxml", LxmlEventWriter)):
                    try:
                        text = XmlSerializer(context=xctx, writer=writer, config=SerializerConfig(xml_declaration=False)).render(obj)
                    except Exception as ex:  # noqa: BLE001
                        ctx.case(("typing-xml", case["xmlType"], case["form"], case["leaf"], k, wname))
                        ctx.violation(f"serializing {clazz.__name__}(x={v!r}) failed ({wname}): {type(ex).__name__}: {ex}", info2)
                        continue
                    for hname, handler in (("native", XmlEventHandler), ("lxml", LxmlEventHandler)):
                        n += 1
                        ctx.case(("typing-xml", case["xmlType"], case["form"], case["leaf"], k, wname, hname))
                        with warnings.catch_warnings():
                            warnings.simplefilter("ignore")
                            try:
                                back = XmlParser(context=xctx, handler=handler, config=ParserConfig()).from_string(text, clazz)
                            except Exception as ex:  # noqa: BLE001
                                back = ex
                        if not same(back, obj):
                            ctx.violation(f"{case['xmlType']} field annotated {annotation(case['form'], case['leaf'])}: {obj!r} -> {text} -> {back!r} ({wname}/{hname})",
                                          dict(info2, text=text))
            else:
                for via in ("dict", "json"):
                    n += 1
                    ctx.case(("typing-json", case["xmlType"], case["form"], case["leaf"], k, via))
                    with warnings.catch_warnings():
                        warnings.simplefilter("ignore")
                        try:
                            if via == "dict":
                                enc = DictEncoder(context=xctx).encode(obj)
                                json.dumps(enc)
                                back = DictDecoder(context=xctx).decode(enc, clazz)
                            else:
                                enc = JsonSerializer(context=xctx).render(obj)
                                back = JsonParser(context=xctx).from_string(enc, clazz)
                        except Exception as ex:  # noqa: BLE001
                            enc, back = locals().get("enc"), ex
                    if not same(back, obj):
                        ctx.violation(f"{case['xmlType']} field annotated {annotation(case['form'], case['leaf'])} ({via}): {obj!r} -> {enc!r} -> {back!r}"[:600], info2)
    ctx.extra["typing_cases"] = n
    ctx.extra["typing_refused"] = refused
