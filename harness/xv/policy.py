"""Generated TLC configurations.  The design constants of a specification that name a
*variant of the code* (as shipped vs repaired) are set here in one place, so that every
configuration of a module checks the same variant: the one the working tree implements."""
from __future__ import annotations

import os

# Writer.tla: "repaired" after the fix: commits for F1/F2/F11 (see known_findings.json)
WRITER = {
    "shipped": {"PrefixPolicy": "len", "AttrPolicy": "any", "ResetPolicy": "flush"},
    "repaired": {"PrefixPolicy": "fresh", "AttrPolicy": "prefixed", "ResetPolicy": "start"},
}


def writer_variant() -> dict:
    return WRITER[os.environ.get("XV_WRITER_VARIANT", "repaired")]


def _consts(d: dict) -> str:
    return "\n".join(f'  {k} = "{v}"' for k, v in d.items())


def writer_cfg(kind: str, *, depth=2, events=5, attrs=1, indents="{FALSE}", maps=None, tolerated=()) -> str:
    pol = _consts(writer_variant())
    if kind == "trace":
        return f"SPECIFICATION TSpecR\nCONSTANTS\n{pol}\nCONSTRAINT Progress\nPOSTCONDITION Accepted\nCHECK_DEADLOCK FALSE\n"
    maps = maps or "{1,2,3,4,5,6,7,8,9,10,11,12,13,14}"
    tol = "{" + ", ".join(f'"{t}"' for t in tolerated) + "}"
    head = (
        f"SPECIFICATION Spec\nCONSTANTS\n{pol}\n  MaxDepth = {depth}\n  MaxEvents = {events}\n  MaxAttrs = {attrs}\n"
        f"  Indents = {indents}\n  MapIds = {maps}\n  Tolerated = {tol}\nVIEW View\n"
    )
    if kind == "mc":
        return head + "INVARIANT InvSlots\nINVARIANT InvNoCrash\nINVARIANT InvNative\nINVARIANT InvLxml\nCHECK_DEADLOCK FALSE\n"
    if kind == "gen":
        return head + "CONSTRAINT EmitDone\nCHECK_DEADLOCK FALSE\n"
    raise ValueError(kind)


# Context.tla: XsiPolicy "publish" since fix 8bcb570 (F4); CachePolicy "class" as shipped (F3 open)
CONTEXT = {
    "shipped": {"XsiPolicy": "inplace", "CachePolicy": "class"},
    "repaired": {"XsiPolicy": "publish", "CachePolicy": "class"},
}


def context_variant() -> dict:
    return CONTEXT[os.environ.get("XV_CONTEXT_VARIANT", "repaired")]


def context_cfg(kind: str, *, threads=2, progs="{1, 2, 3, 4}", warmth='{"cold", "warm"}', view="View") -> str:
    pol = _consts(context_variant())
    base = f"CONSTANTS\n  Classes <- MCClasses\n  QNs <- MCQNs\n  Vars <- MCVars\n  MemoPolicy = \"qname\"\n{pol}\n"
    if kind == "trace":
        return "SPECIFICATION TSpecR\n" + base + "CONSTRAINT Progress\nPOSTCONDITION Accepted\nCHECK_DEADLOCK FALSE\n"
    head = "SPECIFICATION Spec\n" + base + f"  NThreads = {threads}\n  ProgIds = {progs}\n  Warmth = {warmth}\nVIEW {view}\n"
    if kind == "mc":
        return head + "INVARIANT SameAsAlone\nINVARIANT QuiescentIndex\nCHECK_DEADLOCK FALSE\n"
    if kind == "gen":
        return head + "CONSTRAINT EmitDone\nCHECK_DEADLOCK FALSE\n"
    raise ValueError(kind)


# DateTime.tla: DatePolicy "repaired" after the fix: commit for F7
def datetime_variant() -> str:
    return os.environ.get("XV_DATE_VARIANT", "repaired")


# RoundTrip.tla: MissingReqPolicy "ParserError" after the fix: commit for F5
ROUNDTRIP = {"shipped": {"MissingReqPolicy": "TypeError"}, "repaired": {"MissingReqPolicy": "ParserError"}}


def roundtrip_variant() -> dict:
    return ROUNDTRIP[os.environ.get("XV_RT_VARIANT", "repaired")]


# Handler.tla: WrapperPolicy "own" after the fix: commit for F6
def handler_variant() -> str:
    return os.environ.get("XV_HANDLER_VARIANT", "own")


# Handler.tla: UnionPolicy "open" after the fix: commit for F52 (the union node follows its open descendant)
def union_variant() -> str:
    return os.environ.get("XV_UNION_VARIANT", "open")


# Generic.tla: AnyAttrPolicy "expand" as shipped (F18 open)
def generic_variant() -> str:
    return os.environ.get("XV_GENERIC_VARIANT", "expand")


# Pycode.tla: "repaired" after the fix: commits for F9a/F9b
PYCODE = {"shipped": {"EnumNamePolicy": "name", "SeqPolicy": "list"}, "repaired": {"EnumNamePolicy": "qualname", "SeqPolicy": "kind"}}


def pycode_variant() -> dict:
    return PYCODE[os.environ.get("XV_PYCODE_VARIANT", "repaired")]
