"""Binding between spec/Context.tla and the real XmlContext (threads and histories)."""
from __future__ import annotations

import atexit
import importlib
import os
import shutil
import sys
import tempfile
import threading

from xsdata.formats.dataclass.context import XmlContext
from xsdata.formats.dataclass.models.elements import XmlMeta, XmlVar
from xsdata.formats.dataclass.parsers.bases import NodeParser

from . import sched

PKG_SRC = '''
from dataclasses import dataclass, field
from typing import Optional


@dataclass
class Base:
    class Meta:
        namespace = "urn:a"

    x: Optional[int] = field(default=None, metadata={"type": "Element"})


@dataclass
class Derived(Base):
    class Meta:
        namespace = "urn:a"

    y: Optional[str] = field(default=None, metadata={"type": "Element"})


@dataclass
class Other:
    class Meta:
        namespace = "urn:b"

    z: Optional[str] = field(default=None, metadata={"type": "Element"})
    b: Optional[Base] = field(default=None, metadata={"type": "Element", "name": "Base", "namespace": "urn:a"})
'''

_state: dict = {}


def package():
    """The three classes of MC_ContextT's universe as a real, importable module."""
    if "mod" in _state:
        return _state["mod"]
    d = tempfile.mkdtemp(prefix="xv-c19-")
    atexit.register(shutil.rmtree, d, ignore_errors=True)
    name = f"xvc19_{os.getpid()}"
    with open(os.path.join(d, name + ".py"), "w") as f:
        f.write(PKG_SRC)
    sys.path.insert(0, d)
    mod = importlib.import_module(name)
    _state["mod"] = mod
    _state["ids"] = {mod.Base: 1, mod.Derived: 2, mod.Other: 3}
    _state["cls"] = {1: mod.Base, 2: mod.Derived, 3: mod.Other}
    return mod


def class_of(i: int):
    package()
    return _state["cls"][i]


def id_of(cls) -> int:
    package()
    return _state["ids"].get(cls, 0)


def markers(walk: bool = False) -> sched.MarkerSet:
    """walk=True: also a yield point per binding model INSIDE the class-tree walk of build_xsi_cache (the generator
    of get_subclasses is suspended there); the specification has no step for it (nothing shared is written), so the
    label carries the prefix that keeps it out of the validated traces."""
    return sched.MarkerSet(
        [
            sched.Marker(
                XmlContext.build_xsi_cache,
                ([(r"builder\.build_class_meta\(clazz\)", "p_walk")] if walk else []) + [
                    (r"len\(sys\.modules\)\s*==\s*self\.sys_modules", "x_check"),
                    (r"self\.xsi_cache\.clear\(\)", "x_clear"),
                    (r"self\.xsi_cache\[[^\]]+\]\.append", "x_fill"),
                    (r"^\s*self\.xsi_cache\s*=\s", "x_publish"),
                    (r"self\.sys_modules\s*=\s*len", "x_store"),
                ],
            ),
            # (API exploration) every line of find_type: whatever it does between looking a name up and answering
            *([sched.Marker(XmlContext.find_type, [(r"\S", "p_ft")])] if walk else []),
            sched.Marker(
                XmlContext.find_types,
                [
                    (r"if qname in self\.xsi_cache", "x_lookup"),
                    (r"return self\.xsi_cache\[qname\]", "x_read"),
                ],
            ),
            # the statement also shares PARSER instances: every access to the parser's own attributes on the way into
            # a parse (root class lookup, handler set-up) is a yield point
            sched.Marker(NodeParser.find_root_clazz, [(r"self\.", "p_access")]),
            sched.Marker(NodeParser.parse, [(r"self\.", "p_access")]),
            sched.Marker(
                XmlVar.match_namespace,
                [(r"self\.namespace_matches", "m_access")],     # the lazy per-field memo of wildcard namespace matches
            ),
            sched.Marker(
                XmlContext.build,
                [
                    (r"if clazz not in self\.cache", "b_check"),
                    (r"self\.cache\[clazz\]\s*=", "b_store"),
                    (r"return self\.cache\[clazz\]", "b_read"),
                ],
            ),
        ]
    )


# labels that exist only in one design variant: their absence is not a binding problem
OPTIONAL_LABELS = {"x_clear", "x_fill", "x_publish"}


class RecContext(XmlContext):
    """XmlContext that logs, per thread, the context operations performed (after they
    return), so that API-level executions can be validated against Context.tla."""

    __slots__ = ("xv_log", "xv_tid")

    def __init__(self, *a, **kw):
        super().__init__(*a, **kw)
        self.xv_log = {}
        self.xv_tid = threading.local()

    def _rec(self, op, result):
        tid = getattr(self.xv_tid, "v", None)
        if tid is not None:
            self.xv_log.setdefault(tid, []).append((op, result))

    def build(self, clazz, parent_ns=None, globalns=None):
        op = {"op": "build", "c": id_of(clazz), "pns": parent_ns if parent_ns is not None else "__none__"}
        try:
            meta = super().build(clazz, parent_ns, globalns)
        except Exception as ex:  # noqa: BLE001
            self._rec(op, {"err": type(ex).__name__})
            raise
        self._rec(op, {"cls": id_of(meta.clazz), "ns": meta.namespace if meta.namespace is not None else "__none__"})
        return meta

    def build_xsi_cache(self):
        super().build_xsi_cache()
        if not getattr(self.xv_tid, "in_find", False):
            # called on its own (find_type_by_fields)
            self._rec({"op": "index"}, {"ok": True})

    def find_types(self, qname):
        self.xv_tid.in_find = True
        try:
            types = super().find_types(qname)
        finally:
            self.xv_tid.in_find = False
        # snapshot: the list object is shared with the index
        self._rec({"op": "find", "q": qname}, {"types": [id_of(t) for t in list(types)]})
        return types


def fresh_context(warm: bool, rec: bool = True):
    mod = package()
    ctx = (RecContext if rec else XmlContext)(models_package=mod.__name__)
    if warm:
        # MC_ContextT.WarmState: Base and Other built, index built
        XmlContext.build(ctx, mod.Base)
        XmlContext.build(ctx, mod.Other)
        XmlContext.find_types(ctx, "{urn:a}Base")
    return ctx


def project_meta(meta):
    return {"cls": id_of(meta.clazz), "ns": meta.namespace if meta.namespace is not None else "__none__"}


def norm(r):
    if "types" in r:
        return {"set": sorted(set(r["types"])), "last": r["types"][-1] if r["types"] else 0}
    return r


def run_spec_ops(ctx, tid, prog):
    """Body of one worker thread for a spec-level program (context operations only)."""

    def body():
        if isinstance(ctx, RecContext):
            ctx.xv_tid.v = tid
        out = []
        for o in prog:
            if o["op"] == "build":
                pns = None if o["pns"] == "__none__" else o["pns"]
                try:
                    out.append(project_meta(ctx.build(class_of(o["c"]), pns)))
                except Exception as ex:  # noqa: BLE001
                    out.append({"err": type(ex).__name__})
            else:
                out.append({"types": [id_of(t) for t in list(ctx.find_types(o["q"]))]})
        return out

    return body


# -- shared METADATA (XmlMeta / XmlVar objects handed out by the context) -----------------------------
META_SRC = '''
from dataclasses import dataclass, field
from typing import Dict, List, Optional


@dataclass
class TextAttr:
    """simple content: the text var is declared FIRST, the attributes after it"""
    class Meta:
        namespace = "urn:m"

    value: str = field(default="", metadata={"type": "Text"})
    a: Optional[int] = field(default=None, metadata={"type": "Attribute"})
    b: Optional[str] = field(default=None, metadata={"type": "Attribute"})


@dataclass
class TextOnly:
    """a subset of TextAttr's fields: for the keys {value, a} both classes match and the number of EXTRA fields
    decides, for {value, a, b} only TextAttr does"""
    class Meta:
        namespace = "urn:m"

    value: str = field(default="", metadata={"type": "Text"})
    a: Optional[int] = field(default=None, metadata={"type": "Attribute"})


@dataclass
class TextMore(TextAttr):
    """a derived class, reached through xsi:type"""
    class Meta:
        namespace = "urn:m"

    c: Optional[str] = field(default=None, metadata={"type": "Attribute"})


@dataclass
class Shuffled:
    """declaration order differs from the order in which XmlMeta groups its vars"""
    class Meta:
        namespace = "urn:m"

    e1: Optional[str] = field(default=None, metadata={"type": "Element"})
    k: Optional[int] = field(default=None, metadata={"type": "Attribute"})
    rest: List[object] = field(default_factory=list, metadata={"type": "Wildcard", "namespace": "##other"})
    e2: Optional[int] = field(default=None, metadata={"type": "Element"})
    extra: Dict[str, str] = field(default_factory=dict, metadata={"type": "Attributes"})
    t: Optional[TextAttr] = field(default=None, metadata={"type": "Element"})
'''


def meta_package():
    if "meta_mod" in _state:
        return _state["meta_mod"]
    package()
    d = tempfile.mkdtemp(prefix="xv-c19m-")
    atexit.register(shutil.rmtree, d, ignore_errors=True)
    name = f"xvc19m_{os.getpid()}"
    with open(os.path.join(d, name + ".py"), "w") as f:
        f.write(META_SRC)
    sys.path.insert(0, d)
    _state["meta_mod"] = importlib.import_module(name)
    return _state["meta_mod"]


def meta_markers(context_only: bool = False) -> sched.MarkerSet:
    """(context_only: only the methods of XmlContext - a coarser grain that makes two preemptions affordable.)
    Every line of every method of XmlMeta / XmlVar that touches the object is a yield point (constructors
    excluded: an object under construction is not shared yet).  The binding metadata is handed out by the shared
    context, so lazily computed state on it is shared state."""
    import inspect

    ms = []
    for cls in (() if context_only else (XmlMeta, XmlVar)):
        for name, member in vars(cls).items():
            fn = member.fget if isinstance(member, property) else member
            if name == "__init__" or not inspect.isfunction(fn):
                continue
            ms.append(sched.Marker(fn, [(r"self\b", "v_access")]))
    # ... and of every method of the context itself (scratch values kept on the shared context between two steps
    # of one call are shared state as well)
    for name, member in vars(XmlContext).items():
        fn = member.fget if isinstance(member, property) else member
        # build_xsi_cache walks every class of the interpreter: it has its own markers in the main phase
        if name in ("__init__", "get_subclasses", "is_binding_model", "build_xsi_cache") or not inspect.isfunction(fn):
            continue
        # the methods that hand out entries of the shared type index: EVERY line (and the lambdas / comprehensions in
        # them) is a yield point - what they do to a list they got from the index is done to shared state
        every_line = name in ("find_subclass", "find_type", "find_types", "fetch", "is_derived")
        ms.append(sched.Marker(fn, [(r"\S" if every_line else r"self\b", "c_access")]))
    # the metadata builder the context hands out for one build: if it were ever shared between calls, what one call
    # leaves on it would be seen by the next
    from xsdata.formats.dataclass.models.builders import XmlMetaBuilder

    for name, member in vars(XmlMetaBuilder).items():
        if inspect.isfunction(member) and name != "__init__":
            ms.append(sched.Marker(member, [(r"self\.globalns", "c_access")]))      # where the per-call argument is READ
    return sched.MarkerSet(ms)
