"""Binding between spec/RoundTrip.tla and the real serializers / parsers.

materialise : abstract model (the JSON TLC prints) -> real dataclasses in a scratch module
to_python   : abstract value -> real value          from_python: the reverse
render_doc  : abstract document -> XML text in a chosen spelling (independent of xsdata)
doc_of_text : real XML text -> abstract document through the independent expat reading
faulted     : apply the specification's fault to the prescribed document
record_parse: run the real parser recording, after every start/end, the node on top of the
              queue, the queue length and the number of intermediate objects
"""
from __future__ import annotations

import atexit
import copy
import importlib
import io
import json
import os
import shutil
import sys
import tempfile
import warnings
from xml.etree.ElementTree import QName

from xsdata.exceptions import ConverterWarning
from xsdata.formats.dataclass.context import XmlContext
from xsdata.formats.dataclass.models.generics import AnyElement
from xsdata.formats.dataclass.parsers import XmlParser
from xsdata.formats.dataclass.parsers.bases import NodeParser
from xsdata.formats.dataclass.parsers.config import ParserConfig
from xsdata.formats.dataclass.parsers.handlers import LxmlEventHandler, XmlEventHandler
from xsdata.formats.dataclass.serializers import XmlSerializer
from xsdata.formats.dataclass.serializers.config import SerializerConfig
from xsdata.formats.dataclass.serializers.writers import LxmlEventWriter, XmlEventWriter

from . import infoset

NONE = "__none__"
XSI = "http://www.w3.org/2001/XMLSchema-instance"
HANDLERS = {"native": XmlEventHandler, "lxml": LxmlEventHandler}
WRITERS = {"native": XmlEventWriter, "lxml": LxmlEventWriter}

_S: dict = {"n": 0, "mods": {}}


def _dir():
    if "dir" not in _S:
        d = tempfile.mkdtemp(prefix="xv-rt-")
        atexit.register(shutil.rmtree, d, ignore_errors=True)
        sys.path.insert(0, d)
        _S["dir"] = d
        _S["pkg"] = f"xvrt_{os.getpid()}"
        os.mkdir(os.path.join(d, _S["pkg"]))
        open(os.path.join(d, _S["pkg"], "__init__.py"), "w").close()
    return _S["dir"]


PY_TYPES = {"str": "str", "int": "int", "bool": "bool", "qname": "QName", "kid": "Kid", "base": "Base", "any": "object"}


def _ns_meta(ns):
    return None if ns == NONE else ns


def model_source(m: dict) -> str:
    lines = [
        "from dataclasses import dataclass, field",
        "from typing import Optional",
        "from xml.etree.ElementTree import QName",
        "",
        "",
        "@dataclass",
        "class Kid:",
    ]
    if m["kidNs"] != NONE:
        lines += ["    class Meta:", f"        namespace = {m['kidNs']!r}", ""]
    lines += [
        '    v: Optional[str] = field(default=None, metadata={"type": "Element"})',
        '    k: Optional[int] = field(default=None, metadata={"type": "Attribute"})',
        "",
        "",
        "@dataclass",
        "class Base:",
        "    class Meta:",
        '        namespace = "urn:b"',
        "",
        '    x: Optional[int] = field(default=None, metadata={"type": "Element"})',
        "",
        "",
        "@dataclass",
        "class Derived(Base):",
        "    class Meta:",
        '        namespace = "urn:b"',
        "",
        '    y: Optional[str] = field(default=None, metadata={"type": "Element"})',
        "",
        "",
        "@dataclass(kw_only=True)",
        "class Root:",
    ]
    if m["ns"] != NONE or m.get("nillable"):
        lines.append("    class Meta:")
        if m["ns"] != NONE:
            lines.append(f"        namespace = {m['ns']!r}")
        if m.get("nillable"):
            lines.append("        nillable = True")
        lines.append("")
    for f in m["fields"]:
        base = PY_TYPES[f["tp"]]
        md = {"type": f["kind"], "name": f["name"]}
        if f["ns"] != NONE:
            md["namespace"] = f["ns"]
        if f["kind"] == "Wildcard":
            md["namespace"] = "##any"
            md.pop("name")
        if f["nillable"]:
            md["nillable"] = True
        if f["wrapper"]:
            md["wrapper"] = "wrap"
        if f["seq"]:
            md["sequence"] = f["seq"]
        if f["card"] == "tokens":
            md["tokens"] = True
        if f["kind"] == "Attribute" and f["card"] == "req":
            md["required"] = True
        if f["card"] in ("list", "tokens"):
            inner = f"Optional[{base}]" if f["nillable"] and f["card"] == "list" else base
            ann, default = f"list[{inner}]", "default_factory=list, "
        elif f["card"] == "opt":
            ann, default = f"Optional[{base}]", "default=None, "
        else:
            ann, default = base, ""
        lines.append(f"    {f['name']}: {ann} = field({default}metadata={md!r})")
    return "\n".join(lines) + "\n"


def materialise(m: dict):
    key = json.dumps(m, sort_keys=True)
    hit = _S["mods"].get(key)
    if hit:
        return hit
    d = _dir()
    _S["n"] += 1
    name = f"m{_S['n']}"
    src = model_source(m)
    with open(os.path.join(d, _S["pkg"], name + ".py"), "w") as f:
        f.write(src)
    importlib.invalidate_caches()
    mod = importlib.import_module(f"{_S['pkg']}.{name}")
    mod.__xv_source__ = src
    _S["mods"][key] = mod
    if len(_S["mods"]) > 4000:
        _S["mods"].clear()
    return mod


def to_python(v: dict, mod):
    t = v["t"]
    if t == "none":
        return None
    if t == "str":
        return v["s"]
    if t == "int":
        return v["n"]
    if t == "bool":
        return v["b"]
    if t == "qname":
        return QName(v["uri"], v["local"]) if v["uri"] else QName(v["local"])
    if t == "list":
        return [to_python(x, mod) for x in v["items"]]
    if t == "kid":
        return mod.Kid(v=to_python(v["v"], mod), k=to_python(v["k"], mod))
    if t == "base":
        return mod.Base(x=to_python(v["x"], mod))
    if t == "derived":
        return mod.Derived(x=to_python(v["x"], mod), y=to_python(v["y"], mod))
    if t == "any":
        return AnyElement(
            qname=clark(v["name"]),
            text=None if v["text"] == NONE else v["text"],
            attributes={clark(a[0]): atoms_text(a[1], None) for a in v["attrs"]},
            children=[to_python(k, mod) for k in v["kids"]],
        )
    raise ValueError(t)


def instance(m: dict, inst: list, mod):
    kw = {f["name"]: to_python(v, mod) for f, v in zip(m["fields"], inst)}
    return mod.Root(**kw)


def clark(name) -> str:
    return f"{{{name[0]}}}{name[1]}" if name[0] else name[1]


# -- documents -------------------------------------------------------------------
def atoms_text(atoms, prefix_of, sep=" ") -> str:
    """`sep` other than one blank is only used between the items of a token LIST (two or more atoms), where the
    lexical space collapses whitespace; the list is then also padded on both sides."""
    out = []
    for a in atoms:
        if "s" in a:
            out.append(a["s"])
        else:
            uri, local = a["q"]
            if prefix_of is None:
                out.append(clark([uri, local]))
            else:
                p = prefix_of(uri)
                out.append(f"{p}:{local}" if p else local)
    if sep != " " and len(out) >= 2:
        return " " + sep.join(out) + sep
    return " ".join(out)


def _esc(s, attr=False):
    s = s.replace("&", "&amp;").replace("<", "&lt;").replace(">", "&gt;")
    if attr:
        s = s.replace('"', "&quot;").replace("\t", "&#9;").replace("\n", "&#10;").replace("\r", "&#13;")
    return s


def render_doc(doc: dict, style: int = 0) -> str:
    """Spell an abstract document as XML text, independently of xsdata.
    style 0: every namespace gets a prefix declared on the element that first needs it;
    style 1: the element's own namespace is the default namespace, others prefixed at the root;
    style 2: as 0 with other prefix names, attributes in reverse order, whitespace between children, token lists
             separated by runs of blanks / tabs / newlines and padded;
    style 3: text as CDATA sections; style 4: text as numeric character references."""
    counter = {"n": 0}

    def fresh(scope):
        while True:
            counter["n"] += 1
            p = ("p%d" if style != 2 else "zz%d") % counter["n"]
            if p not in scope:
                return p

    def walk(el, scope, depth):
        scope = dict(scope)
        decls = []
        uri, local = el["name"]

        def prefix_of(u, for_attr=False):
            if u == "":
                return ""
            if u == "http://www.w3.org/XML/1998/namespace":
                return "xml"
            for p, x in scope.items():
                if x == u and (p != "" or not for_attr):
                    return p
            p = fresh(scope)
            scope[p] = u
            decls.append((p, u))
            return p

        if style == 1 and uri and scope.get("") != uri:
            scope[""] = uri
            decls.append(("", uri))
        if uri == "" and scope.get(""):
            scope[""] = ""
            decls.append(("", ""))
        ep = prefix_of(uri) if uri else ""
        tag = f"{ep}:{local}" if ep else local
        attrs = []
        items = list(el["attrs"])
        if style == 2:
            items.reverse()
        for name, atoms in items:
            ap = prefix_of(name[0], for_attr=True) if name[0] else ""
            val = atoms_text(atoms, lambda u: prefix_of(u) if u else "", sep="  " if style == 2 else " ")
            attrs.append(f'{ap + ":" if ap else ""}{name[1]}="{_esc(val, True)}"')
        content = []
        for c in el["content"]:
            if "text" in c:
                raw = atoms_text(c["text"], lambda u: prefix_of(u) if u else "", sep=" \n\t" if style == 2 else " ")
                if style == 3 and raw:
                    content.append("<![CDATA[" + raw.replace("]]>", "]]]]><![CDATA[>") + "]]>")
                elif style == 4 and raw:
                    content.append("".join(f"&#x{ord(ch):X};" for ch in raw))
                else:
                    content.append(_esc(raw))
            else:
                content.append(None)
        kids = [walk(c["el"], scope, depth + 1) for c in el["content"] if "el" in c]
        ki = iter(kids)
        has_text = any(x is not None for x in content)
        body = ""
        for x in content:
            if x is None:
                body += ("\n" + "  " * (depth + 1) if style == 2 and not has_text else "") + next(ki)
            else:
                body += x
        if style == 2 and kids and not has_text:
            body += "\n" + "  " * depth
        dtxt = "".join(f' xmlns{":" + p if p else ""}="{_esc(u, True)}"' for p, u in decls)
        head = f"<{tag}{dtxt}{' ' if attrs else ''}{' '.join(attrs)}"
        return f"{head}>{body}</{tag}>" if body else f"{head}/>"

    return walk(doc, {}, 0)


def norm_doc(doc: dict):
    """Abstract document -> comparable form (names, sorted attrs with resolved QNames, text,
    children)."""
    def atoms(a):
        return [x["s"] if "s" in x else ("Q", tuple(x["q"])) for x in a]

    def text_tokens(a):
        out = []
        for x in a:
            out.append(x["s"] if "s" in x else ("Q", tuple(x["q"])))
        return out

    return {
        "name": tuple(doc["name"]),
        "attrs": sorted((tuple(n), text_tokens(a)) for n, a in doc["attrs"]),
        "content": [text_tokens(c["text"]) if "text" in c else norm_doc(c["el"]) for c in doc["content"]],
    }


def compare_doc(doc: dict, tree: dict, path="/") -> str | None:
    """Prescribed abstract document vs the independent reading of the real text.
    Returns the first difference (None when they say the same)."""
    here = f"{path}{doc['name'][1]}"
    if tuple(tree["name"]) != tuple(doc["name"]):
        return f"{here}: element is {tuple(tree['name'])}, prescribed {tuple(doc['name'])}"
    want = {tuple(n): a for n, a in doc["attrs"]}
    got = dict(tree["attrs"])
    if set(want) != set(got):
        return f"{here}: attributes {sorted(got)}, prescribed {sorted(want)}"
    for n, a in want.items():
        why = _cmp_atoms(a, got[n], tree["nsmap"])
        if why:
            return f"{here}/@{n[1]}: {why}"
    wkids = [c["el"] for c in doc["content"] if "el" in c]
    gkids = [c for c in tree["content"] if isinstance(c, dict)]
    if len(wkids) != len(gkids):
        return f"{here}: {len(gkids)} child elements, prescribed {len(wkids)} ({[k['name'][1] for k in gkids]} vs {[k['name'][1] for k in wkids]})"
    wtext = [c["text"] for c in doc["content"] if "text" in c]
    gtext = "".join(c for c in tree["content"] if isinstance(c, str))
    if wkids and not wtext:
        if gtext.strip():
            return f"{here}: unexpected text {gtext!r}"
    else:
        flat = [a for t in wtext for a in t]
        why = _cmp_atoms(flat, gtext, tree["nsmap"], exact=len(flat) == 1 and "s" in flat[0])
        if why:
            return f"{here}/text(): {why}"
    for w, g in zip(wkids, gkids):
        why = compare_doc(w, g, here + "/")
        if why:
            return why
    return None


def _cmp_atoms(atoms, text: str, nsmap, exact=False) -> str | None:
    if exact or (len(atoms) == 1 and "s" in atoms[0]):
        want = atoms[0]["s"] if atoms else ""
        return None if text == want else f"text {text!r}, prescribed {want!r}"
    if not atoms:
        return None if text == "" else f"text {text!r}, prescribed none"
    toks = text.split()
    if len(toks) != len(atoms):
        return f"{len(toks)} tokens {toks}, prescribed {len(atoms)}"
    for tok, a in zip(toks, atoms):
        if "s" in a:
            if tok != a["s"]:
                return f"token {tok!r}, prescribed {a['s']!r}"
        else:
            want = tuple(a["q"])
            got = infoset.resolve_qname(tok, nsmap)
            if want[0] == "":
                if tok != want[1]:
                    return f"QName {tok!r}, prescribed {want}"
            elif got != want:
                return f"QName {tok!r} resolves to {got}, prescribed {want}"
    return None


# -- faults ------------------------------------------------------------------------
UNKNOWN = {"name": ["urn:zzz", "unknown"], "attrs": [], "content": [{"el": {"name": ["", "e1"], "attrs": [], "content": []}}]}


def _elements_by_end(doc):
    """document elements in the order of their END events, with the index of that END in Flatten(doc)."""
    out = []
    pos = {"i": 0}

    def walk(el):
        pos["i"] += 1  # start
        for c in el["content"]:
            if "el" in c:
                walk(c["el"])
        pos["i"] += 1  # end
        out.append((pos["i"], el))

    walk(doc)
    return out


def faulted(doc: dict, fault: str, evs: list, m: dict):
    """The prescribed document with the specification's fault applied (the spec chose WHERE;
    the position is read off its event list)."""
    doc = copy.deepcopy(doc)
    if fault == "none":
        return doc
    if fault == "unknownFirst":
        doc["content"].insert(0, {"el": copy.deepcopy(UNKNOWN)})
    elif fault == "unknownLast":
        doc["content"].append({"el": copy.deepcopy(UNKNOWN)})
    elif fault == "siblingInWrapper":
        k = next(i for i, e in enumerate(evs) if e["e"] == "start" and e["name"][1] == "wrap")
        name = evs[k + 1]["name"]
        wrap = next(c["el"] for c in doc["content"] if "el" in c and c["el"]["name"][1] == "wrap")
        wrap["content"].insert(0, {"el": {"name": list(name), "attrs": [], "content": [{"text": [{"s": "1"}]}]}})
    elif fault == "unknownAttr":
        doc["attrs"].append([["", "zz-unknown"], [{"s": "1"}]])
    elif fault == "xsiAttr":
        doc["attrs"].append([[XSI, "noNamespaceSchemaLocation"], [{"s": "x.xsd"}]])
    elif fault == "badValue":
        k = next(i for i, e in enumerate(evs, 1) if e["e"] == "end" and e.get("badValue"))
        el = dict(_elements_by_end(doc))[k]
        el["content"] = [{"text": [{"s": "x1"}]}]
    elif fault == "childInPrimitive":
        # the injected start is at index k of the faulted list; the primitive's own END follows the pair
        k = next(i for i, e in enumerate(evs, 1) if e["e"] == "start" and e["name"] == ["urn:zzz", "unknown"])
        el = dict(_elements_by_end(doc))[k]
        el["content"] = list(el["content"]) + [{"el": {"name": ["urn:zzz", "unknown"], "attrs": [], "content": []}}]
    elif fault == "missingReq":
        req = {(_elem_ns(m, f), f["name"]) for f in m["fields"] if f["kind"] == "Element" and f["card"] == "req"}
        doc["content"] = [c for c in doc["content"] if not ("el" in c and tuple(c["el"]["name"]) in req)]
    else:
        raise ValueError(fault)
    return doc


def _elem_ns(m, f):
    if f["ns"] == NONE:
        return "" if m["ns"] == NONE else m["ns"]
    return f["ns"]


# -- recording parser -----------------------------------------------------------------
KIND = {"ElementNode": "element", "PrimitiveNode": "primitive", "WildcardNode": "wildcard", "SkipNode": "skip",
        "WrapperNode": "wrapper", "StandardNode": "standard", "UnionNode": "union"}


class RecParser(XmlParser):
    """XmlParser that records, after each start/end, the projected parser state."""

    def start(self, clazz, queue, objects, qname, attrs, ns_map):
        try:
            super().start(clazz, queue, objects, qname, attrs, ns_map)
        except Exception as ex:  # noqa: BLE001
            self.xv_trace.append({"e": "start", "name": _split(qname), "st": "err", "err": type(ex).__name__,
                                  "top": KIND.get(type(queue[-1]).__name__, "?") if queue else "-", "qlen": len(queue), "nobj": len(objects)})
            raise
        self.xv_trace.append({"e": "start", "name": _split(qname), "st": "run", "err": NONE,
                              "top": KIND.get(type(queue[-1]).__name__, "?"), "qlen": len(queue), "nobj": len(objects)})

    def end(self, queue, objects, qname, text, tail):
        before = len(queue)
        try:
            r = super().end(queue, objects, qname, text, tail)
        except Exception as ex:  # noqa: BLE001
            # the node was popped before bind raised; the spec keeps it on the queue in the error state
            self.xv_trace.append({"e": "end", "name": _split(qname), "st": "err", "err": type(ex).__name__,
                                  "top": "?", "qlen": before, "nobj": len(objects)})
            raise
        self.xv_trace.append({"e": "end", "name": _split(qname), "st": "done" if not queue else "run", "err": NONE,
                              "top": KIND.get(type(queue[-1]).__name__, "?") if queue else "-", "qlen": len(queue), "nobj": len(objects)})
        return r


def _split(qname):
    if qname and qname[0] == "{":
        u, l = qname[1:].split("}", 1)
        return [u, l]
    return ["", qname]


def record_parse(text: str, clazz, ctx: XmlContext, handler: str, cfg: dict):
    pc = ParserConfig(
        fail_on_unknown_properties=cfg["unknownProps"],
        fail_on_unknown_attributes=cfg["unknownAttrs"],
        fail_on_converter_warnings=cfg["convWarnings"],
    )
    parser = RecParser(context=ctx, config=pc, handler=HANDLERS[handler])
    parser.xv_trace = []
    with warnings.catch_warnings(record=True) as w:
        warnings.simplefilter("always")
        try:
            obj = parser.from_string(text, clazz)
            out = ("ok", obj)
        except BaseException as ex:  # noqa: BLE001
            out = ("exc", ex)
    nwarn = sum(1 for x in w if issubclass(x.category, ConverterWarning))
    return out, nwarn, parser.xv_trace


def render(obj, ctx, writer: str, ns_map=None, **cfg):
    s = XmlSerializer(context=ctx, config=SerializerConfig(xml_declaration=cfg.pop("xml_declaration", False), **cfg), writer=WRITERS[writer])
    return s.render(obj, ns_map=ns_map)
