"""setup_cmd: parse every specification with SANY and byte-compile the harness."""
from __future__ import annotations

import compileall
import shutil
import sys
from concurrent.futures import ThreadPoolExecutor
from pathlib import Path

from . import tlc


def main() -> int:
    work = tlc.scratch("xv-setup-")
    try:
        mods = sorted(tlc.SPEC.glob("*.tla"))
        for p in mods:
            shutil.copy(p, work)
        with ThreadPoolExecutor(8) as ex:
            results = list(ex.map(lambda p: (p.name, *tlc.sany(str(Path(work, p.name)))), mods))
        bad = [(n, out) for n, ok, out in results if not ok]
        for n, out in bad:
            print(f"SANY failed: {n}\n{out[-2000:]}")
        ok = compileall.compile_dir(str(tlc.ROOT / "harness"), quiet=1, legacy=False)
        print(f"setup: {len(mods)} TLA+ modules parsed, {len(bad)} failed; harness compiled={bool(ok)}")
        import xsdata  # noqa: F401

        return 0 if not bad and ok else 2
    finally:
        shutil.rmtree(work, ignore_errors=True)


if __name__ == "__main__":
    sys.exit(main())
