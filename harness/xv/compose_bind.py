"""Binding for spec/Compose.tla: abstract component-level schema -> XSD file(s), abstract document ->
XML text, canonical comparison of documents (xsi:type values resolved to expanded names)."""
from __future__ import annotations

from lxml import etree

from . import infoset

NONE = "__none__"
XS = "http://www.w3.org/2001/XMLSchema"
XSI = "http://www.w3.org/2001/XMLSchema-instance"
T = "urn:t"
U = 9


def lib_ns(s):
    return "urn:o" if s["split"] in ("import", "importSameName") else T


def _occ(mn, mx):
    out = ""
    if mn != 1:
        out += f' minOccurs="{mn}"'
    if mx != 1:
        out += f' maxOccurs="{"unbounded" if mx == U else mx}"'
    return out


def el_type(s, i):
    if s["htype"] == "string":
        return "string"
    return "Ext" if i != 0 and s["mtype"] == "Ext" else "Base"


def parent(s, i):
    return i - 1 if s["shape"] == "chain" else 0


def mname(i):
    return "h" if i == 0 else f"m{i}"


def lib_components(s, pfx="l:") -> str:
    """`pfx` is how the library refers to its OWN components: a prefix bound to its namespace, or nothing at all in a
    chameleon schema (no targetNamespace, no default namespace: the names land in the including schema's namespace)."""
    text = _lib_components(s)
    return text if pfx == "l:" else text.replace('"l:', '"' + pfx)


def _lib_components(s) -> str:
    ab = ' abstract="true"' if s["ext"] == "elemAbstractBase" else ""
    out = (
        f'<xs:complexType name="Base"{ab}><xs:sequence><xs:element name="x" type="xs:int"/></xs:sequence>'
        '<xs:attribute name="id" type="xs:int"/></xs:complexType>'
        '<xs:complexType name="Ext"><xs:complexContent><xs:extension base="l:Base"><xs:sequence>'
        '<xs:element name="y" type="xs:string" minOccurs="0"/></xs:sequence><xs:attribute name="k" type="xs:string" use="required"/>'
        "</xs:extension></xs:complexContent></xs:complexType>"
    )

    def tp(i):
        t = el_type(s, i)
        return "xs:string" if t == "string" else f"l:{t}"

    out += f'<xs:element name="h" type="{tp(0)}"{" abstract=" + chr(34) + "true" + chr(34) if s["abstractHead"] else ""}/>'
    for i in range(1, s["nmem"] + 1):
        out += f'<xs:element name="{mname(i)}" type="{tp(i)}" substitutionGroup="l:{mname(parent(s, i))}"/>'
    return out


def schema_files(s) -> dict:
    if "_files" in s:
        return s["_files"]          # a hand-written schema of the corpus (props/c02.py handwritten_corpus)
    L = lib_ns(s)
    body = f'<xs:element ref="l:h"{_occ(*s["occ"])}/>'
    if s["alsoM1"] and s["nmem"] >= 1:
        body += '<xs:element name="box"><xs:complexType><xs:sequence><xs:element ref="l:m1" minOccurs="0"/></xs:sequence></xs:complexType></xs:element>'
    if s["split"] == "importSameName":
        body += '<xs:element name="own" type="t:Base"/>'
    if s["ext"] != "none":
        body += '<xs:element name="e" type="l:Base"/>'
    if s.get("twins"):
        body += ('<xs:element name="buyer"><xs:complexType><xs:sequence><xs:element name="info"><xs:complexType><xs:sequence>'
                 '<xs:element name="name" type="xs:string"/><xs:element name="email" type="xs:string" minOccurs="0"/></xs:sequence></xs:complexType>'
                 '</xs:element></xs:sequence></xs:complexType></xs:element>'
                 '<xs:element name="seller"><xs:complexType><xs:sequence><xs:element name="info"><xs:complexType><xs:sequence>'
                 '<xs:element name="code" type="xs:int"/></xs:sequence><xs:attribute name="rating" type="xs:decimal" use="required"/></xs:complexType>'
                 '</xs:element></xs:sequence></xs:complexType></xs:element>')
    if s["grp"] != "none":
        body += '<xs:group ref="t:G"' + {"one": "", "opt": ' minOccurs="0"', "many": ' maxOccurs="unbounded"'}[s["grp"]] + "/>"
    if s["rec"]:
        body += '<xs:element name="n" type="t:Node"/>'
    if s["wild"] != "none":
        body += f'<xs:element name="end" type="xs:string"/><xs:any namespace="##{s["wild"]}" processContents="lax" minOccurs="0"/>'
    mixed = ' mixed="true"' if s.get("mixed") else ""
    main = (
        f'<xs:element name="root"><xs:complexType{mixed}><xs:sequence>{body}</xs:sequence>'
        + ('<xs:attributeGroup ref="t:G"/>' if s["agrp"] else "")
        + "</xs:complexType></xs:element>"
        '<xs:group name="G"><xs:sequence><xs:element name="p" type="xs:int"/><xs:element name="q" type="xs:string" minOccurs="0"/></xs:sequence></xs:group>'
        '<xs:attributeGroup name="G"><xs:attribute name="a1" type="xs:int" use="required"/><xs:attribute name="a2" type="xs:string"/></xs:attributeGroup>'
        + ('<xs:complexType name="Base"><xs:sequence><xs:element name="z" type="xs:string"/></xs:sequence></xs:complexType>' if s["split"] == "importSameName" else "")
        + '<xs:complexType name="Node"><xs:sequence><xs:element name="v" type="xs:int"/><xs:element name="n" type="t:Node" minOccurs="0"/></xs:sequence></xs:complexType>'
    )
    head = f'<xs:schema xmlns:xs="{XS}" targetNamespace="{T}" xmlns:t="{T}" xmlns:l="{L}" elementFormDefault="qualified">'
    lib_head = f'<xs:schema xmlns:xs="{XS}" targetNamespace="{L}" xmlns:l="{L}" elementFormDefault="qualified">'
    if s["split"] == "single":
        return {"main.xsd": head + lib_components(s) + main + "</xs:schema>"}
    if s["split"] == "include":
        return {"main.xsd": head + '<xs:include schemaLocation="lib.xsd"/>' + main + "</xs:schema>",
                "lib.xsd": lib_head + lib_components(s) + "</xs:schema>"}
    if s["split"] == "chameleon":
        # lib.xsd has NO target namespace and refers to its own types / elements without any prefix
        cham_head = f'<xs:schema xmlns:xs="{XS}" elementFormDefault="qualified">'
        return {"main.xsd": head + '<xs:include schemaLocation="lib.xsd"/>' + main + "</xs:schema>",
                "lib.xsd": cham_head + lib_components(s, pfx="") + "</xs:schema>"}
    return {"main.xsd": head + f'<xs:import namespace="{L}" schemaLocation="lib.xsd"/>' + main + "</xs:schema>",
            "lib.xsd": lib_head + lib_components(s) + "</xs:schema>"}


PFX = {T: "t", "urn:o": "l", "urn:f": "f"}


def doc_xml(s, doc) -> str:
    if isinstance(doc, str):
        return doc                  # a hand-written document of the corpus
    L = lib_ns(s)

    def el(o):
        tag = f"{PFX[o['ns']]}:{o['name']}"
        attrs = "".join(f' {a["name"]}="{a["v"]}"' for a in o["attrs"])
        if o["xsitype"] != NONE:
            attrs += f' xsi:type="{PFX[L]}:{o["xsitype"]}"'
        inner = o["text"] + "".join(el(k) for k in o["kids"])
        return f"<{tag}{attrs}>{inner}</{tag}>" if inner else f"<{tag}{attrs}/>"

    decl = f' xmlns:t="{T}" xmlns:xsi="{XSI}" xmlns:f="urn:f"' + (f' xmlns:l="{L}"' if L != T else "")
    attrs = "".join(f' {a["name"]}="{a["v"]}"' for a in doc["attrs"])
    texts = doc.get("texts") or [""] * (len(doc["kids"]) + 1)
    body = "".join(texts[j] + el(k) for j, k in enumerate(doc["kids"])) + texts[len(doc["kids"])]
    return f"<t:root{decl}{attrs}>{body}</t:root>"


def canon_mixed(el):
    """Root of a mixed type: the full content sequence (text pieces and elements, in order)."""
    seq = []
    for c in el["content"]:
        seq.append(("#text", c) if isinstance(c, str) else canon(c))
    attrs = tuple(sorted(el["attrs"].items(), key=repr))
    return (tuple(el["name"]), attrs, tuple(seq))


def canon(el):
    """(name, attrs, text, kids) with xsi:type resolved, whitespace between children dropped."""
    kids = [c for c in el["content"] if isinstance(c, dict)]
    text = "".join(c for c in el["content"] if isinstance(c, str))
    attrs = {}
    for k, v in el["attrs"].items():
        if k == (XSI, "type"):
            v = infoset.resolve_qname(v.strip(), el["nsmap"])
        attrs[k] = v
    return (tuple(el["name"]), tuple(sorted(attrs.items(), key=repr)), text.strip() if kids else text, tuple(canon(k) for k in kids))


class Validator:
    def __init__(self, files: dict, work: str):
        import os

        for n, t in files.items():
            with open(os.path.join(work, n), "w") as f:
                f.write(t)
        self.schema = etree.XMLSchema(etree.parse(os.path.join(work, "main.xsd")))

    def __call__(self, xml: str):
        ok = self.schema.validate(etree.fromstring(xml.encode()))
        return ok, str(self.schema.error_log)[:600]
