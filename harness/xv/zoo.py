"""A zoo of hand-written binding models (documented metadata only) and a seeded random
instance generator.  Used as the source of *recorded executions on inputs TLC did not
generate* (trace validation) and as extra round-trip material beside the TLC-generated
models of the RoundTrip specification.
"""
from __future__ import annotations

import dataclasses
import random
import sys
import types
import typing
from dataclasses import dataclass, field
from decimal import Decimal
from enum import Enum
from typing import Any, Optional, Union
from xml.etree.ElementTree import QName

from xsdata.formats.dataclass.models.generics import AnyElement, DerivedElement
from xsdata.models.datatype import XmlDate, XmlDateTime, XmlDuration, XmlPeriod, XmlTime

NS_A = "urn:a"
NS_B = "urn:b"
NS_C = "http://example.com/c"
XSI = "http://www.w3.org/2001/XMLSchema-instance"


class Color(Enum):
    RED = "red"
    GREEN = "green"
    BLUE_ISH = "blue ish"


class Num(Enum):
    ONE = 1
    TWO = 2


class QEnum(Enum):
    A = QName(NS_A, "x")
    B = QName(NS_B, "y")


@dataclass
class Leaf:
    value: str = field(default="", metadata={"type": "Text"})
    flag: Optional[bool] = field(default=None, metadata={"type": "Attribute"})


@dataclass
class Item:
    class Meta:
        name = "item"
        namespace = NS_A

    name: str = field(metadata={"type": "Element"})
    qty: Optional[int] = field(default=None, metadata={"type": "Element"})
    tags: list[str] = field(default_factory=list, metadata={"type": "Element", "name": "tag"})
    id: int = field(default=0, metadata={"type": "Attribute", "required": True})
    kind: Optional[Color] = field(default=None, metadata={"type": "Attribute"})
    price: Optional[Decimal] = field(default=None, metadata={"type": "Attribute", "namespace": NS_B})


@dataclass
class Base:
    class Meta:
        namespace = NS_B

    x: Optional[int] = field(default=None, metadata={"type": "Element"})


@dataclass
class Derived(Base):
    class Meta:
        namespace = NS_B

    y: Optional[str] = field(default=None, metadata={"type": "Element"})


@dataclass
class Holder:
    """xsi:type through a base-typed element; nillable; defaults."""

    class Meta:
        namespace = NS_B

    base: Optional[Base] = field(default=None, metadata={"type": "Element"})
    bases: list[Base] = field(default_factory=list, metadata={"type": "Element", "name": "b"})
    note: Optional[str] = field(default=None, metadata={"type": "Element", "nillable": True})
    notes: list[Optional[str]] = field(default_factory=list, metadata={"type": "Element", "nillable": True, "name": "n"})
    lang: str = field(default="en", metadata={"type": "Attribute"})


@dataclass
class QNames:
    """QName-typed values force prefix allocation inside encode_data."""

    class Meta:
        name = "qnames"

    ref: Optional[QName] = field(default=None, metadata={"type": "Element"})
    refs: list[QName] = field(default_factory=list, metadata={"type": "Element", "tokens": True})
    aref: Optional[QName] = field(default=None, metadata={"type": "Attribute"})
    arefs: list[QName] = field(default_factory=list, metadata={"type": "Attribute", "tokens": True, "namespace": NS_A})
    qe: Optional[QEnum] = field(default=None, metadata={"type": "Element", "namespace": NS_C})
    # a WRAPPED list in a namespace of its own: the serializer declares the prefix on the wrapper element, the items use it
    wrapped: list[QName] = field(default_factory=list, metadata={"type": "Element", "name": "w", "wrapper": "ws", "namespace": NS_C})


@dataclass
class Prims:
    class Meta:
        namespace = NS_A

    s: Optional[str] = field(default=None, metadata={"type": "Element"})
    i: Optional[int] = field(default=None, metadata={"type": "Element"})
    f: Optional[float] = field(default=None, metadata={"type": "Element"})
    b: Optional[bool] = field(default=None, metadata={"type": "Element"})
    d: Optional[Decimal] = field(default=None, metadata={"type": "Element"})
    hx: Optional[bytes] = field(default=None, metadata={"type": "Element", "format": "base16"})
    b64: Optional[bytes] = field(default=None, metadata={"type": "Element", "format": "base64"})
    dt: Optional[XmlDate] = field(default=None, metadata={"type": "Element"})
    dtm: Optional[XmlDateTime] = field(default=None, metadata={"type": "Element"})
    tm: Optional[XmlTime] = field(default=None, metadata={"type": "Element"})
    du: Optional[XmlDuration] = field(default=None, metadata={"type": "Element"})
    pe: Optional[XmlPeriod] = field(default=None, metadata={"type": "Element"})
    e: Optional[Color] = field(default=None, metadata={"type": "Element"})
    n: Optional[Num] = field(default=None, metadata={"type": "Attribute"})
    ints: list[int] = field(default_factory=list, metadata={"type": "Element", "tokens": True})
    ai: Optional[int] = field(default=None, metadata={"type": "Attribute"})
    af: Optional[float] = field(default=None, metadata={"type": "Attribute", "namespace": NS_B})
    u: Optional[Union[int, bool, str]] = field(default=None, metadata={"type": "Element"})


@dataclass
class Seq:
    """sequence groups and a wrapper."""

    a: list[int] = field(default_factory=list, metadata={"type": "Element", "sequence": 1})
    b: list[str] = field(default_factory=list, metadata={"type": "Element", "sequence": 1, "namespace": NS_A})
    c: Optional[int] = field(default=None, metadata={"type": "Element"})
    w: list[int] = field(default_factory=list, metadata={"type": "Element", "wrapper": "ws", "name": "w"})
    rows: list[list[int]] = field(default_factory=list, metadata={"type": "Element", "tokens": True, "name": "row"})
    nn: list[Optional[int]] = field(default_factory=list, metadata={"type": "Element", "nillable": True, "sequence": 1})   # nil items inside a sequence group


@dataclass
class Compound:
    class Meta:
        namespace = NS_A

    choice: list[Union[int, str, Leaf]] = field(
        default_factory=list,
        metadata={
            "type": "Elements",
            "choices": (
                {"name": "n", "type": int},
                {"name": "s", "type": str, "namespace": NS_B},
                {"name": "leaf", "type": Leaf},
            ),
        },
    )


@dataclass
class Amount:
    value: int = field(default=0, metadata={"type": "Element"})
    # a descendant of the union element that carries an ATTRIBUTE (the union node replays recorded events)
    note: Optional[Leaf] = field(default=None, metadata={"type": "Element"})


@dataclass
class Label:
    """Same field name as Amount, another primitive type; the values never read as an int, so that exactly one
    member of Union[Amount, Label] can hold them (strict conversion is what tells the two apart)."""

    value: str = field(metadata={"type": "Element", "xv_values": ["t", "a b", "x-y", "1e", "0x1", "one"]})   # required: an empty <value/> reads as Amount()


@dataclass
class UnionModels:
    class Meta:
        namespace = NS_A

    m: Optional[Union[Amount, Label]] = field(default=None, metadata={"type": "Element"})
    ms: list[Union[Amount, Label]] = field(default_factory=list, metadata={"type": "Element"})


@dataclass(kw_only=True)
class ReqNil:
    """required nillable fields WITHOUT a default (what the generator emits for a required nillable element):
    an explicit None has to reach the constructor."""

    class Meta:
        namespace = NS_B

    req: Optional[str] = field(metadata={"type": "Element", "nillable": True, "required": True})
    reqi: Optional[int] = field(metadata={"type": "Element", "nillable": True, "required": True})
    opt: Optional[int] = field(default=None, metadata={"type": "Element"})


@dataclass
class Measure:
    """a class that is itself NILLABLE (what the generator writes for a nillable element of a complex type with simple
    content): without a value it is written with xsi:nil and its attributes, and read back as an instance, not None"""

    class Meta:
        nillable = True

    value: Optional[int] = field(default=None, metadata={"type": "Text"})
    unit: Optional[str] = field(default=None, metadata={"type": "Attribute", "xv_values": ["cm", "in", "t"]})
    why: Optional[str] = field(default=None, metadata={"type": "Attribute", "namespace": NS_B, "xv_values": ["n/a", "t"]})


@dataclass
class NilClass:
    class Meta:
        namespace = NS_A

    height: Optional[Measure] = field(default=None, metadata={"type": "Element"})
    sides: list[Measure] = field(default_factory=list, metadata={"type": "Element", "name": "side"})
    tail: Optional[int] = field(default=None, metadata={"type": "Element"})


@dataclass(kw_only=True)
class SameName:
    """sibling fields that share ONE element name and are told apart by position (the parser remembers which of
    them are taken): the first occurrence is the first field, the second the second, ..."""

    class Meta:
        namespace = NS_A

    first: str = field(metadata={"type": "Element", "name": "item", "xv_values": ["t", "a b", "0", "x-y"]})
    second: int = field(metadata={"type": "Element", "name": "item"})
    third: Optional[XmlDate] = field(default=None, metadata={"type": "Element", "name": "item"})
    other: Optional[str] = field(default=None, metadata={"type": "Element"})


@dataclass
class UnionEl:
    """elements typed with a union of a model and primitives (UnionNode: candidates are replayed and scored)."""

    class Meta:
        namespace = NS_B

    u: Optional[Union[Item, int, bool]] = field(default=None, metadata={"type": "Element"})
    us: list[Union[Item, int]] = field(default_factory=list, metadata={"type": "Element", "namespace": NS_A})


@dataclass
class Wild:
    class Meta:
        namespace = NS_A

    attrs: dict[str, str] = field(default_factory=dict, metadata={"type": "Attributes", "namespace": "##any"})
    head: Optional[str] = field(default=None, metadata={"type": "Element"})
    any: list[object] = field(default_factory=list, metadata={"type": "Wildcard", "namespace": "##any"})


@dataclass
class Mixed:
    content: list[object] = field(default_factory=list, metadata={"type": "Wildcard", "namespace": "##any", "mixed": True})


@dataclass
class Order:
    class Meta:
        name = "order"
        namespace = NS_B

    items: list[Item] = field(default_factory=list, metadata={"type": "Element", "name": "item", "namespace": NS_A})
    leaf: Optional[Leaf] = field(default=None, metadata={"type": "Element", "namespace": ""})
    holder: Optional[Holder] = field(default=None, metadata={"type": "Element"})
    q: Optional[QNames] = field(default=None, metadata={"type": "Element", "name": "qnames", "namespace": ""})
    prims: Optional[Prims] = field(default=None, metadata={"type": "Element", "namespace": NS_A})
    seq: Optional[Seq] = field(default=None, metadata={"type": "Element", "namespace": ""})
    comp: Optional[Compound] = field(default=None, metadata={"type": "Element", "namespace": NS_A})
    wild: Optional[Wild] = field(default=None, metadata={"type": "Element", "namespace": NS_A})
    any_attr: Optional[object] = field(default=None, metadata={"type": "Element", "name": "anyType"})


ROOTS = [Leaf, Item, Holder, QNames, Prims, Seq, Compound, ReqNil, NilClass, SameName, UnionEl, UnionModels, Wild, Mixed, Order]
ALL = [Leaf, Item, Base, Derived, Holder, QNames, Prims, Seq, Compound, ReqNil, Measure, NilClass, SameName, Amount, Label, UnionEl, UnionModels, Wild, Mixed, Order]

HOSTILE_MAPS: list[dict | None] = [
    None,
    {None: NS_A},
    {None: NS_B},
    {"ns1": NS_A},
    {"ns0": NS_B, "p": NS_A},
    {"p": NS_A, "q": NS_A},
    {None: NS_A, "p": NS_A},
    {"": NS_A, None: NS_B},
    {"xsi": NS_A},
    {"p": "", "u": NS_C},
    {"ns2": NS_C, "ns1": NS_B},
    {None: XSI},
    {"xs": NS_B, "ns3": NS_A},
    {None: NS_C, "a": NS_A, "b": NS_B},
    # generator-style prefixes nsL, nsL+1 already taken, L = the size of the map: the prefix generator has to walk
    # past BOTH (the second one is the prefix of the element's own namespace)
    {"ns2": "urn:h", "ns3": NS_A},
    {"ns3": "urn:h", "ns4": NS_A, "z": "urn:h2"},
    {"ns4": "urn:h", "ns5": NS_A, "y": "urn:h2", "z": "urn:h3"},
    {"ns2": "urn:h", "ns3": NS_B},
    {"ns3": "urn:h", "ns4": NS_B, "z": "urn:h2"},
    {"ns2": NS_A, "ns3": NS_B},
    # one namespace bound twice, the default (spelled "" or None) AFTER the prefix
    {"a": NS_A, "": NS_A},
    {"b": NS_B, None: NS_B, "a": NS_A},
    {"a": NS_A, "": NS_A, "b": NS_B, None: NS_B},
]

TEXTS = ["", "t", "a b", " lead", "trail ", "<&\"'>", "]]>", "x\ty", "l1\nl2", "\U0001F600", "é", "0", "true"]
SAFE_TEXTS = ["t", "a b", "<&\"'>", "]]>", "\U0001F600", "é", "0", "true", "x y z"]
NAMES = ["x", "y", "el-1", "_u", "Z.z"]


def _hints(cls):
    return typing.get_type_hints(cls, vars(sys.modules[cls.__module__]))


class Gen:
    """Seeded instance generator following the type hints and metadata of zoo classes."""

    def __init__(self, seed: int, *, xml_safe: bool = True, depth: int = 3):
        self.r = random.Random(seed)
        self.depth = depth
        self.xml_safe = xml_safe

    def text(self, tokens=False) -> str:
        if tokens:
            return self.r.choice(["t", "0", "é", "ab", "x-y"])
        return self.r.choice(TEXTS if not self.xml_safe else TEXTS)

    def prim(self, tp, tokens=False, fmt=None):
        r = self.r
        if tp is str:
            return self.text(tokens)
        if tp is int:
            return r.choice([0, 1, -1, 7, 2**31, -(2**63), 10**20])
        if tp is bool:
            return r.choice([True, False])
        if tp is float:
            return r.choice([0.0, -0.0, 1.5, -2.25, 1e22, 1e-7, float("inf"), float("-inf"), float("nan"), 2.0**53, 5e-324])
        if tp is Decimal:
            return r.choice([Decimal("0"), Decimal("1.50"), Decimal("-0.001"), Decimal("1E+2"), Decimal("123456789.123456789")])
        if tp is bytes:
            return r.choice([b"", b"\x00", b"xsdata", b"\xff\xfe\x00\x01"])
        if tp is QName:
            return r.choice([QName(NS_A, "q"), QName(NS_B, "q"), QName(NS_C, "z"), QName("local"), QName(XSI, "t")])
        if tp is XmlDate:
            return r.choice([XmlDate(2020, 2, 29), XmlDate(1, 1, 1), XmlDate(-44, 3, 15), XmlDate(12020, 12, 31, 0), XmlDate(2000, 1, 1, -300)])
        if tp is XmlDateTime:
            return r.choice([XmlDateTime(2020, 2, 29, 23, 59, 59), XmlDateTime(1999, 12, 31, 24, 0, 0), XmlDateTime(2001, 1, 1, 0, 0, 0, 123456789, 60), XmlDateTime(-1, 6, 30, 12, 0, 0, 0, 0)])
        if tp is XmlTime:
            return r.choice([XmlTime(0, 0, 0), XmlTime(23, 59, 59, 999000000), XmlTime(12, 0, 0, 0, -840), XmlTime(24, 0, 0)])
        if tp is XmlDuration:
            return XmlDuration(r.choice(["P1Y2M3DT4H5M6S", "-P1D", "PT0S", "P1Y", "PT1.5S", "P13M"]))
        if tp is XmlPeriod:
            return XmlPeriod(r.choice(["2020", "--02", "---31", "2020-02", "--02-29", "2020Z", "-0045", "---01+02:00"]))
        if isinstance(tp, type) and issubclass(tp, Enum):
            return r.choice(list(tp))
        raise TypeError(tp)

    def any_value(self, depth, *, mixed=False):
        r = self.r
        k = r.random()
        if depth <= 0 or k < 0.35:
            el = AnyElement(qname=self.any_qname(), text=r.choice(["", "t", "a b", "<&>"]),
                            attributes=self.any_attrs() if r.random() < 0.4 else {})
        else:
            el = AnyElement(
                qname=self.any_qname(),
                text=r.choice(["", "t"]),
                children=[self.any_value(depth - 1) for _ in range(r.randint(1, 2))],
                attributes=self.any_attrs(),
            )
        if mixed and r.random() < 0.5:
            el.tail = r.choice(["tail", " x "])
        return el

    def any_qname(self):
        r = self.r
        ns = r.choice([None, NS_A, NS_B, NS_C])
        local = r.choice(NAMES)
        return f"{{{ns}}}{local}" if ns else local

    def any_attrs(self):
        r = self.r
        out = {}
        for _ in range(r.randint(0, 2)):
            out[self.any_qname()] = r.choice(["v", "", "a b", "{urn:a}notqname", "<&\">"])
        if r.random() < 0.3:
            # a QName-valued attribute the writer spells with a prefix it has to declare on THIS element
            out[f"{{{XSI}}}type"] = r.choice(["{urn:types}Custom", "{urn:types2}Other"])
        return out

    def value(self, tp, meta, depth):
        r = self.r
        origin = typing.get_origin(tp)
        args = typing.get_args(tp)
        if origin in (Union, types.UnionType):
            non_none = [a for a in args if a is not type(None)]
            if type(None) in args and r.random() < 0.3:
                return None
            pick = r.choice(non_none)
            if pick is str and len(non_none) > 1:
                # a str member of a union is only representable when no earlier member reads it
                return r.choice(["t", "a b", "x-y", "é"])
            return self.value(pick, meta, depth)
        if origin in (list, tuple):
            inner = args[0] if args else object
            if meta.get("tokens"):
                n = r.randint(0, 3)
                if typing.get_origin(inner) in (list, tuple):
                    # a repeating element of token lists: every occurrence holds one or more tokens
                    item = typing.get_args(inner)[0]
                    return [[self.prim(item, tokens=True) for _ in range(r.randint(1, 3))] for _ in range(n)]
                return [self.prim(inner, tokens=True) for _ in range(n)]
            if meta.get("type") == "Wildcard":
                n = r.randint(0, 3)
                if meta.get("mixed"):
                    out: list = []
                    for _ in range(n):
                        if out and isinstance(out[-1], str) or r.random() < 0.6:
                            out.append(self.any_value(depth - 1, mixed=True))
                        else:
                            out.append(r.choice(["txt", "a & b", " s "]))
                    return out
                return [self.any_value(depth - 1) for _ in range(n)]
            n = r.randint(0, 3) if depth > 0 else 0
            return [self.value(inner, meta, depth - 1) for _ in range(n)]
        if origin is dict:
            return self.any_attrs()
        if tp is type(None):
            return None
        if tp is object or tp is Any:
            if meta.get("type") == "Wildcard":
                return self.any_value(depth - 1)
            # (falsy values too: their xsi:type marker is what keeps 0 from coming back as '0')
            return r.choice(["s", 5, True, 1.5, Decimal("2.5"), QName(NS_A, "q"), XmlDate(2020, 1, 2), None, 0, False, 0.0, Decimal("0")])
        if dataclasses.is_dataclass(tp):
            if depth <= 0:
                return None if meta.get("_optional") else self.instance(tp, 0)
            cands = [tp] + ([Derived] if tp is Base else [])
            return self.instance(r.choice(cands), depth - 1)
        return self.prim(tp, fmt=meta.get("format"))

    def instance(self, cls, depth=None):
        depth = self.depth if depth is None else depth
        hints = _hints(cls)
        kw = {}
        for f in dataclasses.fields(cls):
            if not f.init:
                continue
            tp = hints[f.name]
            meta = dict(f.metadata)
            has_default = f.default is not dataclasses.MISSING or f.default_factory is not dataclasses.MISSING
            optional = type(None) in typing.get_args(tp) or has_default
            meta["_optional"] = optional
            if has_default and self.r.random() < 0.25:
                continue
            v = self.r.choice(meta["xv_values"]) if "xv_values" in meta else self.value(tp, meta, depth)
            if v is None and not (type(None) in typing.get_args(tp) or tp is object) and has_default:
                continue
            kw[f.name] = v
        return cls(**kw)


def instances(seed: int, n: int, roots=None):
    g = Gen(seed)
    roots = roots or ROOTS
    for k in range(n):
        cls = roots[k % len(roots)]
        yield g.instance(cls)
