"""Shared engine of the RoundTrip specification: TLC configuration, behaviour generation and
the decisive comparisons of C01, C03(b), C08, C09, C10, C15 on the real code."""
from __future__ import annotations

import io
import json
import os
import random
import tempfile

from lxml import etree as lxml_etree
from xml.etree import ElementTree as ET

from xsdata.exceptions import ConverterError, ParserError, SerializerError, XmlContextError, XmlHandlerError, XmlWriterError
from xsdata.formats.dataclass.context import XmlContext
from xsdata.formats.dataclass.parsers import XmlParser
from xsdata.formats.dataclass.parsers.config import ParserConfig

from . import infoset
from . import roundtrip_bind as rb
from .policy import roundtrip_variant

ALL_FAULTS = ["none", "unknownFirst", "unknownLast", "unknownAttr", "badValue", "childInPrimitive", "missingReq"]
CAT_ALL = "{" + ",".join(str(i) for i in range(1, 30)) + "}"
PARSE_ERRORS = (ParserError, ConverterError, XmlContextError, XmlHandlerError)
STRICT = {"unknownProps": True, "unknownAttrs": True, "convWarnings": True}


def cfg_text(*, max_fields=1, faults=("none",), cats=CAT_ALL, cfgs="AllCfgs", invariants=(), emit=False,
             root_nss='{"__none__", "urn:a"}', kid_nss='{"__none__", "urn:b"}') -> str:
    out = (
        "SPECIFICATION Spec\nCONSTANTS\n"
        f"  MaxFields = {max_fields}\n"
        "  Faults = {" + ", ".join(f'"{f}"' for f in faults) + "}\n"
        f"  RootNss = {root_nss}\n  KidNss = {kid_nss}\n  CatIds = {cats}\n  Cfgs <- {cfgs}\n"
        f'  MissingReqPolicy = "{roundtrip_variant()["MissingReqPolicy"]}"\nVIEW View\n'
    )
    for i in invariants:
        out += f"INVARIANT {i}\n"
    if emit:
        out += "CONSTRAINT EmitCase\n"
    return out + "CHECK_DEADLOCK FALSE\n"


STRICT_ONLY = "StrictOnly"


def generate(ctx, *, label, max_fields, faults, cfgs="AllCfgs", cats=CAT_ALL, simulate=None, limit=None, **kw):
    """TLC -> list of RT cases (deduplicated, optionally sampled with the run's seed)."""
    res = ctx.tlc(
        "MC_RoundTrip", "run.cfg", workers=1,
        extra_files={"run.cfg": cfg_text(max_fields=max_fields, faults=faults, cfgs=cfgs, cats=cats, emit=True, **kw)},
        label=label, tags=("RT",), timeout=3000,
        **({"simulate": f"num={simulate}", "depth": 40} if simulate else {}),
    )
    seen = set()
    cases = []
    for _t, c in res.printed:
        k = json.dumps([c["m"], c["inst"], c["fault"], c["cfg"], c["evs"]], sort_keys=True)
        if k not in seen:
            seen.add(k)
            cases.append(c)
    if limit and len(cases) > limit:
        cases = random.Random(ctx.seed).sample(cases, limit)
    return cases


class Real:
    """The real objects of one abstract case."""

    def __init__(self, case):
        self.case = case
        self.mod = rb.materialise(case["m"])
        self.ctx = XmlContext(models_package=self.mod.__name__)
        self.obj = rb.instance(case["m"], case["inst"], self.mod)

    def info(self, **extra):
        return {"m": self.case["m"], "inst": self.case["inst"], "fault": self.case["fault"], "cfg": self.case["cfg"],
                "model_source": self.mod.__xv_source__, "obj": repr(self.obj)[:1500], **extra}


def eq_obj(a, b) -> bool:
    return a == b


def f13_tags(case) -> list:
    """Selector of the open finding F13: a nillable str element holding the empty string."""
    for f, v in zip(case["m"]["fields"], case["inst"]):
        if f["kind"] == "Element" and f["nillable"] and f["tp"] == "str":
            vals = v["items"] if v["t"] == "list" else [v]
            if any(x["t"] == "str" and x["s"] == "" for x in vals):
                return ["F13"]
    return []


# -- C01 / C03b / C08(writers) on one valid case -------------------------------------
SER_CFGS = [
    dict(writer="native"), dict(writer="lxml"), dict(writer="native", indent="  "), dict(writer="lxml", indent="  "),
    dict(writer="native", xml_declaration=True), dict(writer="native", ignore_default_attributes=True),
    dict(writer="lxml", ignore_default_attributes=True, xml_declaration=True),
]
NS_MAPS = [None, {None: "urn:a"}, {"ns1": "urn:b"}, {"p": "urn:a", "q": "urn:a"}, {None: "urn:b", "x": "urn:c"}, {"xsi": "urn:a"}]


def has_mixed_text(case) -> bool:
    return any(f["kind"] == "Text" for f in case["m"]["fields"])


def check_roundtrip(ctx, case, *, ser_cfgs=SER_CFGS, ns_maps=(None,), handlers=("native", "lxml"), want=("C01",)):
    """Serialise with every configuration, read the text independently, parse back."""
    r = Real(case)
    texts = {}
    for sc in ser_cfgs:
        for nm in ns_maps:
            sc2 = dict(sc)
            writer = sc2.pop("writer")
            try:
                text = rb.render(r.obj, r.ctx, writer, ns_map=dict(nm) if nm else None, **sc2)
            except (SerializerError, XmlWriterError, ConverterError, XmlContextError) as ex:
                ctx.violation(f"render raised {type(ex).__name__} for a supported model: {ex}", r.info(ser=sc, ns_map=repr(nm)))
                continue
            except Exception as ex:  # noqa: BLE001
                ctx.violation(f"render raised {type(ex).__name__}: {ex}", r.info(ser=sc, ns_map=repr(nm)))
                continue
            texts[(json.dumps(sc, sort_keys=True), repr(nm))] = text
            if "C03" in want:
                try:
                    tree = infoset.parse(text)
                except Exception as ex:  # noqa: BLE001
                    ctx.violation(f"output is not well-formed: {ex}", r.info(ser=sc, ns_map=repr(nm), text=text))
                    continue
                why = rb.compare_doc(case["doc"], tree)
                if why and not (sc.get("indent") and has_mixed_text(case)):
                    ctx.violation(f"output differs from the prescribed document: {why}", r.info(ser=sc, ns_map=repr(nm), text=text))
            if "C01" in want:
                for h in handlers:
                    out, nwarn, _trace = rb.record_parse(text, r.mod.Root, r.ctx, h, STRICT)
                    if out[0] != "ok":
                        ctx.violation(f"parsing the serialised document back failed ({h}): {type(out[1]).__name__}: {out[1]}",
                                      r.info(ser=sc, ns_map=repr(nm), text=text, handler=h))
                    elif not eq_obj(out[1], r.obj):
                        ctx.violation(f"round trip ({writer} writer, {h} handler) gives {out[1]!r}",
                                      r.info(ser=sc, ns_map=repr(nm), text=text, handler=h, finding_tags=f13_tags(case)))
    return r, texts


# -- parser trace vs the specification's node stack (advisory) + C10/C15 outcomes --------
def run_fault_case(ctx, case, handlers=("native", "lxml"), styles=(0,)):
    r = Real(case)
    doc = rb.faulted(case["doc"], case["fault"], case["evs"], case["m"])
    results = []
    for style in styles:
        text = rb.render_doc(doc, style)
        for h in handlers:
            out, nwarn, trace = rb.record_parse(text, r.mod.Root, r.ctx, h, case["cfg"])
            results.append((style, h, out, nwarn, text))
            spec_trace = case["ptrace"]
            n = min(len(trace), len(spec_trace))
            diff = None
            for k in range(n):
                a, b = trace[k], spec_trace[k]
                keys = ("e", "name", "st", "qlen") if a["st"] == "err" else ("e", "name", "st", "top", "qlen", "nobj")
                if any(a[x] != b[x] for x in keys):
                    diff = k
                    break
            if diff is None and len(trace) != len(spec_trace):
                diff = n
            if diff is not None:
                ctx.divergences.append({"kind": "parser-trace", "handler": h, "fault": case["fault"], "cfg": case["cfg"],
                                        "step": diff, "real": trace[diff] if diff < len(trace) else None,
                                        "spec": spec_trace[diff] if diff < len(spec_trace) else None,
                                        "model": [f["name"] for f in case["m"]["fields"]], "text": text[:400]})
            else:
                ctx.traces_validated += 1
    return r, doc, results


def policy_file():
    return None
