#!/opt/veriftools/pyvenv/bin/python
"""Validate MANIFEST.json and every evidence file against the given schemas."""
import json, sys, glob, jsonschema
ok = True
def v(path, schema):
    global ok
    try:
        jsonschema.validate(json.load(open(path)), json.load(open(schema)))
        print("valid  ", path)
    except Exception as e:
        ok = False
        print("INVALID", path, str(e)[:400])
v('/verif/MANIFEST.json', '/root/.vp/MANIFEST.schema.json')
for p in sorted(glob.glob('/verif/evidence/*.json')):
    v(p, '/root/.vp/EVIDENCE.schema.json')
m = json.load(open('/verif/MANIFEST.json'))
ids = [json.loads(l)["id"] for l in open('/verif/properties.jsonl')]
claimed = [c["property_id"] for c in m["checks"]]
na = [n["property_id"] for n in m.get("not_applicable", [])]
missing = [i for i in ids if i not in claimed and i not in na]
both = [i for i in ids if i in claimed and i in na]
print("claimed", claimed, "not_applicable", na, "unlisted", missing, "both", both)
sys.exit(0 if ok and not missing and not both else 1)
