#!/bin/sh
# seed_regress.sh [seed-ids...] : re-apply every kept seeded change to a scratch COPY of /repo and re-run the
# checks named in its meta.json ("property") from a SNAPSHOT of /verif; a kept seed that no check reports any more
# is a regression of the verification.  Results: /tmp/xv_seedreg/summary.txt (one line per seed).
OUT=${XV_REG_OUT:-/tmp/xv_seedreg}; SCR=$OUT/repo; V=$OUT/verif
mkdir -p $OUT; : > $OUT/summary.txt
rm -rf $V; rsync -a --exclude .git --exclude out --exclude evidence /verif/ $V/
cd $V
IDS="$@"; [ -z "$IDS" ] && IDS=$(ls seeded)
for S in $IDS; do
  P=$(python3 -c "import json;print(json.load(open('seeded/$S/meta.json'))['property'])")
  rm -rf $SCR; rsync -a --exclude .git /repo/ $SCR/
  if ! (cd $SCR && patch -p1 -s --dry-run < $V/seeded/$S/patch.diff >/dev/null 2>&1); then
    echo "$S $P PATCH-DOES-NOT-APPLY" >> $OUT/summary.txt; continue
  fi
  (cd $SCR && patch -p1 -s < $V/seeded/$S/patch.diff)
  XV_REPO=$SCR XV_OUT=$OUT ./check $P --tier quick > $OUT/$S.log 2>&1
  rc=$?
  echo "$S $P rc=$rc violations=$(grep -c '^VIOLATION' $OUT/$S.log)" >> $OUT/summary.txt
done
rm -rf $SCR $V
echo DONE >> $OUT/summary.txt
