#!/bin/sh
# Run the repository's pinned baseline suite with the verification guard OFF and compare
# with /root/.vp/BASELINE.json (263 stable tests must pass).
unset XSDATA_VERIF
OUT="$(mktemp -d)"
cd "${XV_BASELINE_REPO:-/repo}" && /venv/bin/python -m pytest -ra -q -p no:cacheprovider --timeout=900 --continue-on-collection-errors --junitxml="$OUT/j.xml" >"$OUT/log" 2>&1
/venv/bin/python - "$OUT/j.xml" <<'PY'
import json, sys, xml.etree.ElementTree as ET
base = set(json.load(open('/root/.vp/BASELINE.json'))['stable_pass'])
passed = set()
for tc in ET.parse(sys.argv[1]).getroot().iter('testcase'):
    if not any(c.tag in ('failure', 'error', 'skipped') for c in tc):
        passed.add(f"{tc.get('classname')}::{tc.get('name')}")
missing = sorted(base - passed)
print(f"baseline: {len(base & passed)}/{len(base)} stable tests pass")
for m in missing[:20]:
    print("  MISSING", m)
sys.exit(1 if missing else 0)
PY
RC=$?
rm -rf "$OUT"
exit $RC
