#!/usr/bin/env python3
"""keep_seed.py <seed-id> <outdir> <caught_by> <note>: store a confirmed seeded change under /verif/seeded/<id>/."""
import json, shutil, sys, os
sid, out, caught, note = sys.argv[1:5]
d = f"/verif/seeded/{sid}"
os.makedirs(d, exist_ok=True)
for f in ("patch.diff", "demo.py"):
    shutil.copy(os.path.join(out, f), d)
meta = json.load(open(os.path.join(out, "meta.json")))
meta.update({"confirmed": "demo exits non-zero with the patch (PYTHONPATH=<worktree>) and 0 on /repo; baseline suite 263/263 with the patch",
             "ran": f"git -C /repo apply patch.diff; ./check {meta['property']} --tier quick; git -C /repo checkout -- .",
             "caught_by": caught, "note": note})
json.dump(meta, open(os.path.join(d, "meta.json"), "w"), indent=1)
print("kept", d)
