#!/bin/sh
# sweep.sh <tier> <seeds...> : run every check on SNAPSHOTS of /repo and /verif with several seeds, evidence and
# replays under /tmp/xv_sweep (not the committed evidence); one summary line per run in /tmp/xv_sweep/summary.txt
TIER="$1"; shift
OUT=${XV_SWEEP_OUT:-/tmp/xv_sweep}; SNAP=$OUT/repo; VSNAP=$OUT/verif
mkdir -p $OUT; rm -rf $SNAP $VSNAP
rsync -a --exclude .git /repo/ $SNAP/
rsync -a --exclude .git --exclude out --exclude evidence /verif/ $VSNAP/
cd $VSNAP
PROPS="${XV_PROPS:-C01 C02 C03 C04 C05 C06 C07 C08 C09 C10 C11 C12 C13 C14 C15 C16 C17 C18 C19}"
for S in "$@"; do
  for P in $PROPS; do
    XV_REPO=$SNAP XV_OUT=$OUT VERIF_SEED=$S ./check $P --tier $TIER > $OUT/$P.$TIER.$S.log 2>&1
    echo "rc=$? seed=$S $(grep -c '^VIOLATION' $OUT/$P.$TIER.$S.log) viol | $(tail -1 $OUT/$P.$TIER.$S.log | cut -c1-200)" >> $OUT/summary.txt
  done
done
echo "SWEEP-DONE $TIER $*" >> $OUT/summary.txt
