#!/bin/sh
# Run the repository's WHOLE suite (incl. the modules that cannot be collected in this sandbox
# because click/jinja2/toposort are missing) on top of the stand-ins in /verif/shims.
# Used after every fix: commit to make sure upstream's own unit tests still pass.
cd /repo && PYTHONPATH=/verif/shims PATH=/verif/shims/bin:$PATH /venv/bin/python -m pytest -q -p no:cacheprovider --timeout=600 --continue-on-collection-errors -rfE "$@" 2>&1 | sed 's/\x1b\[[0-9;]*m//g' | grep -E "^(FAILED|ERROR) |passed|failed" | cut -c1-220 | tail -30
