#!/bin/sh
# try_seed.sh <name e.g. c01_a> <PROP> [<PROP>...] : confirm a seeded change and run checks against it
N="$1"; shift
WT=/tmp/seed_$N; OUT=/tmp/seedout_$N
cd /tmp
PATH=/verif/shims/bin:$PATH PYTHONPATH=$WT:/verif/shims /venv/bin/python $OUT/demo.py >/dev/null 2>&1; echo "demo with change: rc=$?"
PATH=/verif/shims/bin:$PATH PYTHONPATH=/repo:/verif/shims /venv/bin/python $OUT/demo.py >/dev/null 2>&1; echo "demo on /repo:    rc=$?"
cd /verif
git -C /repo apply $OUT/patch.diff || { echo "PATCH DOES NOT APPLY"; exit 1; }
tools/baseline.sh
for P in "$@"; do
  timeout 2400 ./check $P --tier quick 2>&1 | grep -v "^Parsing\|^Semantic\|^Linting\|Warning\|is not a valid\|warnings.warn" | grep -v "^VIOLATION" | tail -4 | cut -c1-400
done
git -C /repo checkout -- .
git -C /repo status --short | head -3
git -C /verif checkout -- evidence 2>/dev/null
