#!/bin/sh
# try_seed.sh <name e.g. c01_a> <PROP> [<PROP>...] : confirm a seeded change and run checks against it.
# Works on a scratch COPY of /repo (so that /repo and the committed evidence are never touched).
N="$1"; shift
WT=/tmp/seed_$N; OUT=/tmp/seedout_$N; SCR=/tmp/xv_try_$N
cd /tmp
PATH=/verif/shims/bin:$PATH PYTHONPATH=$WT:/verif/shims /venv/bin/python $OUT/demo.py >/dev/null 2>&1; echo "demo with change: rc=$?"
PATH=/verif/shims/bin:$PATH PYTHONPATH=/repo:/verif/shims /venv/bin/python $OUT/demo.py >/dev/null 2>&1; echo "demo on /repo:    rc=$?"
rm -rf $SCR; mkdir -p $SCR; rsync -a --exclude .git /repo/ $SCR/repo/
(cd $SCR/repo && patch -p1 -s < $OUT/patch.diff) || { echo "PATCH DOES NOT APPLY"; rm -rf $SCR; exit 1; }
cd /verif
XV_BASELINE_REPO=$SCR/repo tools/baseline.sh
for P in "$@"; do
  XV_REPO=$SCR/repo XV_OUT=$SCR/out timeout 2400 ./check $P --tier quick 2>&1 | grep -v "^Parsing\|^Semantic\|^Linting\|Warning\|is not a valid\|warnings.warn" | grep -v "^VIOLATION" | tail -4 | cut -c1-400
done
rm -rf $SCR
