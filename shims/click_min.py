class ClickException(Exception):
    def __init__(self, message): super().__init__(message); self.message = message
    def show(self, file=None): print("Error:", self.message)
def echo(msg=None, **kw): print(msg)
