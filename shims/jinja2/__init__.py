"""A small interpreter for the subset of Jinja2 used by xsdata's code templates.

PROTOTYPE (design-phase feasibility probe, not framework code).

Supported: {{ expr }}, {% set x = e %}, {% set x | filter %}..{% endset %},
{% if/elif/else/endif %}, {% for t in e [if c] %}..{% endfor %}, {% include e %},
{% with a=b, .. %}..{% endwith %}, {% filter f(..) %}..{% endfilter %}, {# #},
whitespace control with '-', python-like expressions with filters and tests.
Defaults mirror jinja2.Environment(): trim_blocks=False, lstrip_blocks=False,
keep_trailing_newline=False, autoescape off.
"""
import os
import re
from collections import namedtuple
from itertools import groupby as _groupby


class TemplateError(Exception):
    pass


class Undefined:
    def __init__(self, name=None):
        self._name = name

    def __bool__(self):
        return False

    def __str__(self):
        return ""

    def __iter__(self):
        return iter(())

    def __len__(self):
        return 0

    def __eq__(self, other):
        return isinstance(other, Undefined)

    def __hash__(self):
        return 0

    def __getattr__(self, item):
        if item.startswith("__"):
            raise AttributeError(item)
        raise TemplateError(f"'{self._name}' is undefined")


class FileSystemLoader:
    def __init__(self, searchpath):
        self.searchpath = [searchpath] if isinstance(searchpath, str) else list(searchpath)

    def get_source(self, name):
        for path in self.searchpath:
            full = os.path.join(path, name)
            if os.path.isfile(full):
                with open(full, encoding="utf-8") as fp:
                    return fp.read()
        raise TemplateError(f"template not found: {name}")


# ----------------------------------------------------------------------------
# Lexing of template source into data / tags
# ----------------------------------------------------------------------------
_TAG = re.compile(r"(\{\{-?|\{%-?|\{#-?)(.*?)(-?\}\}|-?%\}|-?#\})", re.S)


def _lex(source):
    """Yield (kind, text) where kind in data|var|block."""
    if source.endswith("\n"):  # keep_trailing_newline=False
        source = source[:-1]
    out = []
    pos = 0
    strip_next = False
    for m in _TAG.finditer(source):
        data = source[pos : m.start()]
        if strip_next:
            data = data.lstrip()
        opener, body, closer = m.group(1), m.group(2), m.group(3)
        if opener.endswith("-"):
            data = data.rstrip()
        if data:
            out.append(("data", data))
        strip_next = closer.startswith("-")
        if opener.startswith("{{"):
            out.append(("var", body.strip()))
        elif opener.startswith("{%"):
            out.append(("block", body.strip()))
        pos = m.end()
    data = source[pos:]
    if strip_next:
        data = data.lstrip()
    if data:
        out.append(("data", data))
    return out


# ----------------------------------------------------------------------------
# Expression tokenizer / parser
# ----------------------------------------------------------------------------
_TOK = re.compile(
    r"\s*(?:(?P<num>\d+\.\d+|\d+)|(?P<name>[A-Za-z_][A-Za-z0-9_]*)|"
    r"(?P<str>\"(?:\\.|[^\"\\])*\"|'(?:\\.|[^'\\])*')|"
    r"(?P<op>==|!=|<=|>=|\*\*|//|[-+*/%~<>=|.,()\[\]{}:]))",
    re.S,
)


def _tokenize(src):
    toks = []
    pos = 0
    src = src.rstrip()
    while pos < len(src):
        m = _TOK.match(src, pos)
        if not m:
            raise TemplateError(f"bad expression syntax near {src[pos:pos+20]!r} in {src!r}")
        pos = m.end()
        if m.group("num") is not None:
            toks.append(("num", m.group("num")))
        elif m.group("name") is not None:
            toks.append(("name", m.group("name")))
        elif m.group("str") is not None:
            toks.append(("str", m.group("str")))
        else:
            toks.append(("op", m.group("op")))
    toks.append(("eof", ""))
    return toks


def _unescape(lit):
    body = lit[1:-1]
    return re.sub(
        r"\\(.)",
        lambda m: {"n": "\n", "t": "\t", "r": "\r", "\\": "\\", '"': '"', "'": "'"}.get(
            m.group(1), "\\" + m.group(1)
        ),
        body,
    )


class _Parser:
    def __init__(self, toks):
        self.toks = toks
        self.i = 0

    @property
    def cur(self):
        return self.toks[self.i]

    def peek(self, kind, val=None):
        k, v = self.cur
        return k == kind and (val is None or v == val)

    def eat(self, kind, val=None):
        if not self.peek(kind, val):
            raise TemplateError(f"expected {kind} {val!r}, got {self.cur!r}")
        tok = self.cur
        self.i += 1
        return tok

    def accept(self, kind, val=None):
        if self.peek(kind, val):
            self.i += 1
            return True
        return False

    # expression := or_expr ['if' or_expr ['else' expression]]
    def expression(self, with_cond=True):
        node = self.or_()
        if with_cond and self.peek("name", "if"):
            self.i += 1
            cond = self.or_()
            other = ("const", Undefined())
            if self.accept("name", "else"):
                other = self.expression()
            node = ("cond", cond, node, other)
        return node

    def or_(self):
        node = self.and_()
        while self.accept("name", "or"):
            node = ("or", node, self.and_())
        return node

    def and_(self):
        node = self.not_()
        while self.accept("name", "and"):
            node = ("and", node, self.not_())
        return node

    def not_(self):
        if self.accept("name", "not"):
            return ("not", self.not_())
        return self.compare()

    def compare(self):
        node = self.math1()
        while True:
            if self.cur[0] == "op" and self.cur[1] in ("==", "!=", "<", ">", "<=", ">="):
                op = self.cur[1]
                self.i += 1
                node = ("cmp", op, node, self.math1())
            elif self.peek("name", "in"):
                self.i += 1
                node = ("cmp", "in", node, self.math1())
            elif self.peek("name", "not") and self.toks[self.i + 1] == ("name", "in"):
                self.i += 2
                node = ("cmp", "notin", node, self.math1())
            else:
                return node

    def math1(self):
        node = self.concat()
        while self.cur[0] == "op" and self.cur[1] in ("+", "-"):
            op = self.cur[1]
            self.i += 1
            node = ("bin", op, node, self.concat())
        return node

    def concat(self):
        node = self.math2()
        while self.peek("op", "~"):
            self.i += 1
            node = ("bin", "~", node, self.math2())
        return node

    def math2(self):
        node = self.unary()
        while self.cur[0] == "op" and self.cur[1] in ("*", "/", "//", "%"):
            op = self.cur[1]
            self.i += 1
            node = ("bin", op, node, self.unary())
        return node

    def unary(self):
        if self.peek("op", "-"):
            self.i += 1
            return ("neg", self.unary())
        node = self.primary()
        node = self.postfix(node)
        node = self.filters_and_tests(node)
        return node

    def filters_and_tests(self, node):
        while True:
            if self.peek("op", "|"):
                self.i += 1
                name = self.eat("name")[1]
                args, kwargs = [], []
                if self.peek("op", "("):
                    args, kwargs = self.call_args()
                node = ("filter", name, node, args, kwargs)
            elif self.peek("name", "is"):
                self.i += 1
                negate = self.accept("name", "not")
                name = self.eat("name")[1]
                node = ("test", name, node, negate)
            else:
                return node

    def postfix(self, node):
        while True:
            if self.peek("op", "."):
                self.i += 1
                node = ("attr", node, self.eat("name")[1])
            elif self.peek("op", "["):
                self.i += 1
                idx = self.expression()
                self.eat("op", "]")
                node = ("item", node, idx)
            elif self.peek("op", "("):
                args, kwargs = self.call_args()
                node = ("call", node, args, kwargs)
            else:
                return node

    def call_args(self):
        self.eat("op", "(")
        args, kwargs = [], []
        while not self.peek("op", ")"):
            if self.cur[0] == "name" and self.toks[self.i + 1] == ("op", "="):
                key = self.eat("name")[1]
                self.eat("op", "=")
                kwargs.append((key, self.expression()))
            else:
                args.append(self.expression())
            if not self.accept("op", ","):
                break
        self.eat("op", ")")
        return args, kwargs

    def primary(self):
        kind, val = self.cur
        if kind == "num":
            self.i += 1
            return ("const", float(val) if "." in val else int(val))
        if kind == "str":
            self.i += 1
            return ("const", _unescape(val))
        if kind == "name":
            self.i += 1
            if val in ("true", "True"):
                return ("const", True)
            if val in ("false", "False"):
                return ("const", False)
            if val in ("none", "None"):
                return ("const", None)
            return ("name", val)
        if kind == "op" and val == "(":
            self.i += 1
            node = self.expression()
            if self.peek("op", ","):
                items = [node]
                while self.accept("op", ","):
                    if self.peek("op", ")"):
                        break
                    items.append(self.expression())
                node = ("tuple", items)
            self.eat("op", ")")
            return node
        if kind == "op" and val == "[":
            self.i += 1
            items = []
            while not self.peek("op", "]"):
                items.append(self.expression())
                if not self.accept("op", ","):
                    break
            self.eat("op", "]")
            return ("list", items)
        raise TemplateError(f"unexpected token {self.cur!r}")


def _parse_expr(src):
    parser = _Parser(_tokenize(src))
    node = parser.expression()
    if not parser.peek("eof"):
        raise TemplateError(f"trailing tokens in expression {src!r}: {parser.cur!r}")
    return node


# ----------------------------------------------------------------------------
# Builtin filters / tests
# ----------------------------------------------------------------------------
def _do_indent(s, width=4, first=False, blank=False):
    indention = width if isinstance(width, str) else " " * width
    newline = "\n"
    s = str(s) + newline  # jinja2 quirk: maintain trailing newline
    if blank:
        rv = (newline + indention).join(s.splitlines())
    else:
        lines = s.splitlines()
        rv = lines.pop(0)
        if lines:
            rv += newline + newline.join(
                indention + line if line else line for line in lines
            )
    if first:
        rv = indention + rv
    return rv


_GroupTuple = namedtuple("_GroupTuple", ["grouper", "list"])


def _getattr_path(obj, path):
    for part in str(path).split("."):
        obj = obj[int(part)] if part.isdigit() else getattr(obj, part)
    return obj


def _do_groupby(value, attribute):
    key = lambda item: _getattr_path(item, attribute)  # noqa: E731
    return [
        _GroupTuple(k, list(v)) for k, v in _groupby(sorted(value, key=key), key)
    ]


def _do_default(value, default_value="", boolean=False):
    if isinstance(value, Undefined) or (boolean and not value):
        return default_value
    return value


BUILTIN_FILTERS = {
    "indent": _do_indent,
    "join": lambda value, d="": str(d).join(str(v) for v in value),
    "default": _do_default,
    "d": _do_default,
    "length": len,
    "count": len,
    "groupby": _do_groupby,
    "lower": lambda s: str(s).lower(),
    "upper": lambda s: str(s).upper(),
    "trim": lambda s: str(s).strip(),
    "string": str,
    "list": list,
    "first": lambda seq: next(iter(seq), Undefined()),
}

BUILTIN_TESTS = {
    "none": lambda v: v is None,
    "defined": lambda v: not isinstance(v, Undefined),
    "undefined": lambda v: isinstance(v, Undefined),
    "string": lambda v: isinstance(v, str),
    "true": lambda v: v is True,
    "false": lambda v: v is False,
}


# ----------------------------------------------------------------------------
# Template AST (statements)
# ----------------------------------------------------------------------------
def _parse_template(tokens):
    pos = 0

    def parse_until(*end_words):
        nonlocal pos
        body = []
        while pos < len(tokens):
            kind, text = tokens[pos]
            if kind == "data":
                body.append(("data", text))
                pos += 1
            elif kind == "var":
                body.append(("out", _parse_expr(text)))
                pos += 1
            else:
                word = text.split(None, 1)[0]
                rest = text[len(word) :].strip()
                if word in end_words:
                    return body, word, rest
                pos += 1
                body.append(parse_block(word, rest))
        if end_words:
            raise TemplateError(f"missing {end_words}")
        return body, None, None

    def parse_block(word, rest):
        nonlocal pos
        if word == "set":
            m = re.match(r"^([A-Za-z_][A-Za-z0-9_]*)\s*=\s*(.*)$", rest, re.S)
            if m:
                return ("set", m.group(1), _parse_expr(m.group(2)))
            m = re.match(r"^([A-Za-z_][A-Za-z0-9_]*)\s*(\|.*)?$", rest, re.S)
            if not m:
                raise TemplateError(f"bad set: {rest}")
            name, filt = m.group(1), m.group(2)
            body, _, _ = parse_until("endset")
            pos += 1
            filt_node = _parse_expr("__body__ " + filt) if filt else None
            return ("setblock", name, body, filt_node)
        if word == "if":
            branches = []
            cond = _parse_expr(rest)
            while True:
                body, end, end_rest = parse_until("elif", "else", "endif")
                pos += 1
                branches.append((cond, body))
                if end == "elif":
                    cond = _parse_expr(end_rest)
                elif end == "else":
                    cond = ("const", True)
                else:
                    break
            return ("if", branches)
        if word == "for":
            m = re.match(r"^(.*?)\s+in\s+(.*)$", rest, re.S)
            targets = [t.strip() for t in m.group(1).split(",")]
            iter_src = m.group(2)
            cond = None
            # a trailing " if <expr>" filter (top level only, fine for our templates)
            toks = _tokenize(iter_src)
            depth = 0
            split_at = None
            for idx, (k, v) in enumerate(toks):
                if k == "op" and v in "([":
                    depth += 1
                elif k == "op" and v in ")]":
                    depth -= 1
                elif k == "name" and v == "if" and depth == 0:
                    split_at = idx
                    break
            if split_at is not None:
                parser = _Parser(toks[:split_at] + [("eof", "")])
                iter_node = parser.expression(with_cond=False)
                parser2 = _Parser(toks[split_at + 1 :])
                cond = parser2.expression()
            else:
                iter_node = _parse_expr(iter_src)
            body, _, _ = parse_until("endfor")
            pos += 1
            return ("for", targets, iter_node, cond, body)
        if word == "include":
            return ("include", _parse_expr(rest))
        if word == "with":
            parser = _Parser(_tokenize(rest))
            assigns = []
            while not parser.peek("eof"):
                key = parser.eat("name")[1]
                parser.eat("op", "=")
                assigns.append((key, parser.expression()))
                if not parser.accept("op", ","):
                    break
            body, _, _ = parse_until("endwith")
            pos += 1
            return ("with", assigns, body)
        if word == "filter":
            node = _parse_expr("__body__ | " + rest)
            body, _, _ = parse_until("endfilter")
            pos += 1
            return ("filterblock", node, body)
        raise TemplateError(f"unsupported tag: {word}")

    body, _, _ = parse_until()
    return body


# ----------------------------------------------------------------------------
# Evaluation
# ----------------------------------------------------------------------------
class _Scope:
    def __init__(self, parent=None, values=None):
        self.parent = parent
        self.values = dict(values or {})

    def get(self, name):
        scope = self
        while scope is not None:
            if name in scope.values:
                return scope.values[name]
            scope = scope.parent
        return Undefined(name)

    def set(self, name, value):
        self.values[name] = value

    def flatten(self):
        chain = []
        scope = self
        while scope is not None:
            chain.append(scope.values)
            scope = scope.parent
        out = {}
        for values in reversed(chain):
            out.update(values)
        return out


class Template:
    def __init__(self, env, name, source):
        self.env = env
        self.name = name
        self.body = _parse_template(_lex(source))

    def render(self, *args, **kwargs):
        ctx = dict(self.env.globals)
        for arg in args:
            ctx.update(arg)
        ctx.update(kwargs)
        scope = _Scope(values=ctx)
        return "".join(self._exec(self.body, scope))

    # -- statements
    def _exec(self, body, scope):
        env = self.env
        for node in body:
            kind = node[0]
            if kind == "data":
                yield node[1]
            elif kind == "out":
                value = self._eval(node[1], scope)
                yield "" if value is None and False else str(value)
            elif kind == "set":
                scope.set(node[1], self._eval(node[2], scope))
            elif kind == "setblock":
                text = "".join(self._exec(node[2], _Scope(scope)))
                if node[3] is not None:
                    inner = _Scope(scope, {"__body__": text})
                    text = self._eval(node[3], inner)
                scope.set(node[1], text)
            elif kind == "if":
                for cond, branch in node[1]:
                    if self._eval(cond, scope):
                        yield from self._exec(branch, scope)
                        break
            elif kind == "for":
                _, targets, iter_node, cond, loop_body = node
                for item in list(self._eval(iter_node, scope)):
                    inner = _Scope(scope)
                    if len(targets) == 1:
                        inner.set(targets[0], item)
                    else:
                        values = tuple(item)
                        if len(values) != len(targets):
                            raise TemplateError("cannot unpack loop item")
                        for target, value in zip(targets, values):
                            inner.set(target, value)
                    if cond is not None and not self._eval(cond, inner):
                        continue
                    yield from self._exec(loop_body, inner)
            elif kind == "include":
                name = self._eval(node[1], scope)
                template = env.get_template(str(name))
                inner = _Scope(values=scope.flatten())
                yield from template._exec(template.body, inner)
            elif kind == "with":
                inner = _Scope(scope)
                for key, expr in node[1]:
                    inner.set(key, self._eval(expr, scope))
                yield from self._exec(node[2], inner)
            elif kind == "filterblock":
                text = "".join(self._exec(node[2], _Scope(scope)))
                inner = _Scope(scope, {"__body__": text})
                yield str(self._eval(node[1], inner))
            else:  # pragma: no cover
                raise TemplateError(f"unknown node {kind}")

    # -- expressions
    def _eval(self, node, scope):
        kind = node[0]
        ev = self._eval
        if kind == "const":
            return node[1]
        if kind == "name":
            return scope.get(node[1])
        if kind == "attr":
            obj = ev(node[1], scope)
            if isinstance(obj, Undefined):
                raise TemplateError(f"attribute {node[2]} of undefined")
            try:
                return getattr(obj, node[2])
            except AttributeError:
                try:
                    return obj[node[2]]
                except (TypeError, LookupError, AttributeError):
                    return Undefined(node[2])
        if kind == "item":
            obj = ev(node[1], scope)
            idx = ev(node[2], scope)
            try:
                return obj[idx]
            except (TypeError, LookupError):
                if isinstance(idx, str):
                    try:
                        return getattr(obj, idx)
                    except AttributeError:
                        pass
                return Undefined(str(idx))
        if kind == "call":
            func = ev(node[1], scope)
            args = [ev(a, scope) for a in node[2]]
            kwargs = {k: ev(v, scope) for k, v in node[3]}
            return func(*args, **kwargs)
        if kind == "filter":
            _, name, target, args, kwargs = node
            func = self.env.filters.get(name) or BUILTIN_FILTERS.get(name)
            if func is None:
                raise TemplateError(f"no filter named {name!r}")
            value = ev(target, scope)
            return func(
                value,
                *[ev(a, scope) for a in args],
                **{k: ev(v, scope) for k, v in kwargs},
            )
        if kind == "test":
            _, name, target, negate = node
            func = BUILTIN_TESTS.get(name)
            if func is None:
                raise TemplateError(f"no test named {name!r}")
            result = bool(func(ev(target, scope)))
            return not result if negate else result
        if kind == "cond":
            return ev(node[2], scope) if ev(node[1], scope) else ev(node[3], scope)
        if kind == "or":
            left = ev(node[1], scope)
            return left if left else ev(node[2], scope)
        if kind == "and":
            left = ev(node[1], scope)
            return ev(node[2], scope) if left else left
        if kind == "not":
            return not ev(node[1], scope)
        if kind == "neg":
            return -ev(node[1], scope)
        if kind == "cmp":
            op, left, right = node[1], ev(node[2], scope), ev(node[3], scope)
            if op == "==":
                return left == right
            if op == "!=":
                return left != right
            if op == "<":
                return left < right
            if op == ">":
                return left > right
            if op == "<=":
                return left <= right
            if op == ">=":
                return left >= right
            if op == "in":
                return left in right
            return left not in right
        if kind == "bin":
            op, left, right = node[1], ev(node[2], scope), ev(node[3], scope)
            if op == "+":
                return left + right
            if op == "-":
                return left - right
            if op == "*":
                return left * right
            if op == "/":
                return left / right
            if op == "//":
                return left // right
            if op == "%":
                return left % right
            return str(left) + str(right)
        if kind == "tuple":
            return tuple(ev(item, scope) for item in node[1])
        if kind == "list":
            return [ev(item, scope) for item in node[1]]
        raise TemplateError(f"unknown expression node {kind}")  # pragma: no cover


class Environment:
    def __init__(self, loader=None, autoescape=False, **_):
        self.loader = loader
        self.globals = {}
        self.filters = {}
        self._cache = {}

    def get_template(self, name):
        if name not in self._cache:
            self._cache[name] = Template(self, name, self.loader.get_source(name))
        return self._cache[name]

    def from_string(self, source):
        return Template(self, "<string>", source)
