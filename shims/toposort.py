class CircularDependencyError(ValueError):
    def __init__(self, data):
        super().__init__(f"Circular dependencies exist among these items: {data}")
        self.data = data
def toposort(data):
    if not data: return
    data = {k: set(v) for k, v in data.items()}
    for k, v in data.items(): v.discard(k)
    extra = set().union(*data.values()) - set(data.keys())
    data.update({i: set() for i in extra})
    while True:
        ordered = {i for i, d in data.items() if not d}
        if not ordered: break
        yield ordered
        data = {i: (d - ordered) for i, d in data.items() if i not in ordered}
    if data: raise CircularDependencyError(data)
def toposort_flatten(data, sort=True):
    result = []
    for d in toposort(data):
        result.extend((sorted if sort else list)(d))
    return result
